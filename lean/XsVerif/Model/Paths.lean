import XsVerif.Model.NsMapper
/-
  Model of the error paths of validation errors (C19):
  `etree_getpath(elem, root, namespaces, relative=False, add_position=True)`
  (xmlschema/utils/etree.py:75-121) on rose trees, and the XPath child-step semantics that a reader of
  the path applies (`/root/a/b[2]/c`: `name` = all children with that name, `name[k]` = the k-th of them).

  No Mathlib import: linked into the native driver `drv_c19`.
  Positions are child-index paths from the root; tags are the rendered names (prefix rendering is a
  separate, injective-by-hypothesis step — see Props/C19.lean).
-/
namespace XsVerif.Paths

inductive T where
  | node (tag : String) (children : List T)
  deriving Repr

def T.tag : T → String | .node t _ => t
def T.children : T → List T | .node _ c => c

/-- one step of a path: `name` or `name[pos]` -/
structure Step where
  name : String
  pos : Option Nat
  deriving Repr, DecidableEq

/-- indices (from offset `k`) of the children named `name`, in document order -/
def idxOf (name : String) : List T → Nat → List Nat
  | [], _ => []
  | c :: cs, k => if c.tag = name then k :: idxOf name cs (k + 1) else idxOf name cs (k + 1)

/-- etree.py:106-119: `position = siblings = 1; for c in parent: if c is child: position = siblings
    elif c.tag == child.tag: siblings += 1` — `position` = 1 + same-tag children before the child,
    `siblings` = number of same-tag children including the child; the predicate is written iff
    `siblings != 1`. -/
def stepFor (siblings : List T) (i : Nat) : Option Step :=
  match siblings[i]? with
  | none => none
  | some c =>
    let before := (idxOf c.tag (siblings.take i) 0).length
    let total := (idxOf c.tag siblings 0).length
    some (if total = 1 then ⟨c.tag, none⟩ else ⟨c.tag, some (before + 1)⟩)

/-- steps below the root for the element at position `pos`; `none` = not a descendant
    (`etree_get_ancestors` returns None) -/
def getSteps : T → List Nat → Option (List Step)
  | _, [] => some []
  | .node _ ch, i :: is =>
    match stepFor ch i, ch[i]? with
    | some s, some c => (getSteps c is).map (s :: ·)
    | _, _ => none

/-- the absolute path: root name, then the steps -/
def getPath (t : T) (pos : List Nat) : Option (String × List Step) :=
  (getSteps t pos).map fun s => (t.tag, s)

/-- XPath `child::name` / `child::name[k]` on a list of children: selected indices -/
def selectStep (children : List T) (s : Step) : List Nat :=
  match s.pos with
  | none => idxOf s.name children 0
  | some k =>
    if k = 0 then []
    else match (idxOf s.name children 0)[k - 1]? with
      | some j => [j]
      | none => []

/-- positions selected by the steps, in document order -/
def select : T → List Step → List (List Nat)
  | _, [] => [[]]
  | .node _ ch, s :: rest =>
    (selectStep ch s).flatMap fun j =>
      match ch[j]? with
      | some c => (select c rest).map (j :: ·)
      | none => []

/-- evaluation of an absolute path `/root/steps` on the document -/
def selectAbs (t : T) (p : String × List Step) : List (List Nat) :=
  if p.1 = t.tag then select t p.2 else []

/-- groups.py:1019-1087: the index recorded with a children error is the index of the offending
    child among the element's children, or `len(children)` for "content ended too early". -/
def indexDesignates (nChildren index : Nat) : Bool := index ≤ nChildren

end XsVerif.Paths

namespace XsVerif.Paths
open XsVerif.NsMapper

/-- `get_prefixed_qname(qname, namespaces, use_empty=True)` (utils/qnames.py:97-123): how a tag is
    written into the path with the namespace map of the error. -/
def renderName (ns : Map) (q : QN) : PName :=
  if q.ns = "" then .loc q.loc
  else if ns.isEmpty then .braced q.ns q.loc
  else match (ns.filter fun e => e.2 = q.ns).map (·.1) with
    | [] => .braced q.ns q.loc
    | p :: rest =>
      if p ≠ "" then .pre p q.loc
      else match rest with
        | p2 :: _ => .pre p2 q.loc
        | [] => .loc q.loc

end XsVerif.Paths
