/-
  C05 — content re-ordering helpers of the encoder (validators/models.py:819-949):
  `iter_unordered_content` and `iter_collapsed_content`, over an ABSTRACT model visitor.

  The visitor (ModelVisitor, C01's subject) is a parameter: a state type with
    `cur s`        = `None` when `model.element is None`, else the name test
                     `model.element.is_matching(·, group=group)` of the current element,
    `advance s b`  = state after `for _ in model.advance(b): pass`.
  The Python `while` loops are bounded by explicit fuel (exhaustion is the distinct error `.fuel`).
-/
import XsVerif.Model.Converters

namespace XsVerif.Conv.Order
open XsVerif.Conv

structure Visitor (σ : Type) where
  cur : σ → Option (String → Bool)
  advance : σ → Bool → σ

/-- the insertion-ordered `dict[str, deque]` both helpers consume -/
abbrev Buckets := List (String × List J)

def flat : Buckets → List (Item J)
  | [] => []
  | (k, vs) :: r => vs.map (fun v => Item.child k false v) ++ flat r

/-- `if cdata_content: yield cdata_content.pop()` (the list is kept in ascending order, next first) -/
def popC : List (Nat × J) → List (Item J) × List (Nat × J)
  | [] => ([], [])
  | c :: r => ([.cdata c.1 c.2], r)

def cdataItems (c : List (Nat × J)) : List (Item J) := c.map fun x => Item.cdata x.1 x.2

/-- first bucket whose name the current element matches: `(name, values, buckets before, buckets after)` -/
def findB (p : String → Bool) : Buckets → Option (String × List J × Buckets × Buckets)
  | [] => none
  | (k, vs) :: r =>
    if p k then some (k, vs, [], r)
    else match findB p r with
      | some (k', vs', pre, post) => some (k', vs', (k, vs) :: pre, post)
      | none => none

/-- models.py:870-878: remaining buckets, a cdata part after each value, then the remaining cdata -/
def drain : List (Nat × J) → Buckets → List (Item J)
  | c, [] => cdataItems c
  | c, (_, []) :: r => drain c r
  | c, (k, v :: vs) :: r =>
      .child k false v :: ((popC c).1 ++ drain (popC c).2 ((k, vs) :: r))
termination_by c b => (b.length, (b.head?.map (·.2.length)).getD 0)
decreasing_by
  all_goals simp_wf
  · exact Prod.Lex.left _ _ (by omega)
  · exact Prod.Lex.right _ (by simp)

/-- the `while model.element is not None and consumable_content` loop, models.py:855-868 -/
def unorderedLoop {σ} (V : Visitor σ) : Nat → σ → List (Nat × J) → Buckets → Except Err (List (Item J))
  | 0, _, _, _ => .error .fuel
  | fuel + 1, s, c, b =>
    match b with
    | [] => .ok (drain c b)
    | _ :: _ =>
      match V.cur s with
      | none => .ok (drain c b)
      | some p =>
        match findB p b with
        | none => unorderedLoop V fuel (V.advance s false) c b
        | some (_, [], _, _) => .error .leak          -- `popleft()` of an empty deque: IndexError
        | some (k, v :: vs, pre, post) =>
          -- `del consumable_content[name]` when the deque became empty
          let b' := if vs.isEmpty then pre ++ post else pre ++ (k, vs) :: post
          match unorderedLoop V fuel (V.advance s true) (popC c).2 b' with
          | .ok out => .ok (.child k false v :: ((popC c).1 ++ out))
          | .error e => .error e

/-- iter_unordered_content (models.py:822-881); `c` = the cdata entries in ascending key order,
    `b` = the element entries grouped by name in first-appearance order -/
def iterUnordered {σ} (V : Visitor σ) (fuel : Nat) (s : σ) (c : List (Nat × J)) (b : Buckets) :
    Except Err (List (Item J)) :=
  match unorderedLoop V fuel s (popC c).2 b with
  | .ok out => .ok ((popC c).1 ++ out)
  | .error e => .error e

/-! ### iter_collapsed_content (models.py:889-952) -/

def bAppend : Buckets → String → J → Buckets      -- `unordered_content[name].append(value)` (defaultdict)
  | [], k, v => [(k, [v])]
  | (k', vs) :: r, k, v => if k' == k then (k', vs ++ [v]) :: r else (k', vs) :: bAppend r k v

structure CState (σ : Type) where
  s : σ
  prev : Option String
  u : Buckets

/-- the inner `while model.element is not None` loop for one `(name, value)` entry -/
def collapsedStep {σ} (V : Visitor σ) : Nat → CState σ → String → J → Except Err (List (Item J) × CState σ)
  | 0, _, _, _ => .error .fuel
  | fuel + 1, st, name, value =>
    match V.cur st.s with
    | none => .ok ([.child name false value], { st with prev := some name })        -- while … else
    | some p =>
      if p name then
        .ok ([.child name false value], { st with s := V.advance st.s true, prev := some name })
      else
        match findB p st.u with
        | none =>
          if st.prev == some name then .ok ([], { st with u := bAppend st.u name value })
          else collapsedStep V fuel { st with s := V.advance st.s false } name value
        | some (_, [], pre, post) =>                    -- IndexError: `del unordered_content[key]`
          collapsedStep V fuel { st with u := pre ++ post } name value
        | some (k, v :: vs, pre, post) =>
          match collapsedStep V fuel { st with s := V.advance st.s true, u := pre ++ (k, vs) :: post } name value with
          | .ok (out, st') => .ok (.child k false v :: out, st')
          | .error e => .error e

def collapsedLoop {σ} (V : Visitor σ) (fuel : Nat) : CState σ → List (Item J) → Except Err (List (Item J))
  | st, [] => .ok (flat st.u)
  | st, .cdata i v :: r =>
      match collapsedLoop V fuel st r with
      | .ok out => .ok (.cdata i v :: out)
      | .error e => .error e
  | st, .child name _ value :: r =>
      match V.cur st.s with
      | none =>                                           -- `or model.element is None: yield; continue`
        match collapsedLoop V fuel st r with
        | .ok out => .ok (.child name false value :: out)
        | .error e => .error e
      | some _ =>
        match collapsedStep V fuel st name value with
        | .error e => .error e
        | .ok (o, st') =>
          match collapsedLoop V fuel st' r with
          | .ok out => .ok (o ++ out)
          | .error e => .error e

def iterCollapsed {σ} (V : Visitor σ) (fuel : Nat) (s : σ) (content : List (Item J)) : Except Err (List (Item J)) :=
  collapsedLoop V fuel { s, prev := none, u := [] } content

/-- a visitor given by a script of successive states (used by the driver: the behaviour of the real
    ModelVisitor is recorded by the harness): each entry = names matched by the current element
    (`none` = model finished); `advance` moves to the next entry whatever the flag -/
def scriptVisitor : Visitor (List (Option (List String))) where
  cur := fun s => match s with
    | [] => none
    | none :: _ => none
    | some names :: _ => some (fun n => names.contains n)
  advance := fun s _ => s.drop 1

end XsVerif.Conv.Order
