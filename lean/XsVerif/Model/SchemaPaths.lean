/-
  C20 — XPath child-step lookups on the schema (`find` / `findall` / `get_element`).  No Mathlib.

  Ported code:
    xmlschema/xpath/mixin.py:96-160          find / findall / iterfind on schema components
    elementpath xpath_context.py:621-660     XPathSchemaContext.iter_matching_nodes (name test on schema
                                             nodes: a matching wildcard node is replaced by the first global
                                             element that matches the name)
    elementpath xpath_nodes.py               SchemaElementNode.match_name -> XsdElement.is_matching
    xmlschema/validators/elements.py:1086-1098  is_matching: own name or the name of a substitute
    xmlschema/validators/schemas.py:946-963  get_element(tag, path) and its three fall-backs
-/
namespace XsVerif.SchemaPaths

/-- An XSD element declaration / reference (`name = some n`) or an element wildcard (`name = none`).
    `subst`: names of the members of its substitution group; `wc`: names the wildcard admits (finite
    universe supplied by the harness); `ty`: identity of its type; `isElem`: XsdElement, not XsdAnyElement. -/
structure Decl where
  id : Nat
  name : Option String
  subst : List String
  wc : List String
  ty : Nat
  deriving DecidableEq, Repr, Inhabited

/-- A schema for path purposes: the global elements in schema order and the child declarations of every
    declaration in content-model order (references show the children of the referenced global). -/
structure Schema where
  globals : List Decl
  kids : Decl → List Decl

def Decl.isElem (d : Decl) : Bool := d.name.isSome

/-- `SchemaElementNode.match_name` -/
def matchName (d : Decl) (n : String) : Bool :=
  match d.name with
  | some x => x == n || d.subst.contains n
  | none => d.wc.contains n

/-- a matching wildcard is replaced by the first matching global element, if any -/
def resolve (S : Schema) (c : Decl) (n : String) : Decl :=
  match c.name with
  | some _ => c
  | none => match S.globals.find? (fun g => matchName g n) with
    | some g => g
    | none => c

/-- first-occurrence de-duplication (XPath node sets) -/
def dedup : List Decl → List Decl
  | [] => []
  | x :: xs => x :: (dedup xs).filter (fun y => y != x)

/-- one child step `name` from declaration `d` -/
def step (S : Schema) (n : String) (d : Decl) : List Decl :=
  (S.kids d).filterMap fun c => if matchName c n then some (resolve S c n) else none

def findFrom (S : Schema) : List Decl → List String → List Decl
  | cur, [] => cur
  | cur, n :: ns => findFrom S (dedup (cur.flatMap (step S n))) ns

/-- `schema.findall('/r/a/b')` for a path of child steps: the first step selects among the global elements -/
def findAll (S : Schema) : List String → List Decl
  | [] => []
  | r :: ns => findFrom S (dedup (S.globals.filter fun g => matchName g r)) ns

/-- `schema.find(path)`: the first match in document order -/
def find (S : Schema) (path : List String) : Option Decl := (findAll S path).head?

/-- `maps.elements.get(tag)` -/
def globalGet (S : Schema) (tag : String) : Option Decl := S.globals.find? fun g => g.name == some tag

/-- `get_element(tag, path)` (schemas.py:946-963). `star = true`: the path ends with `*`
    (`steps` are the steps before it). -/
def getElement (S : Schema) (tag : String) (steps : List String) (star : Bool) : Option Decl :=
  if steps.isEmpty && !star then globalGet S tag
  else if star then
    match find S (steps ++ [tag]) with
    | some d => if d.isElem then some d else globalGet S tag
    | none => globalGet S tag
  else
    match find S steps with
    | none => none
    | some d => if !d.isElem then none else if d.name != some tag then globalGet S tag else some d

/-- The declaration that governs an element reached through `path` during validation when no substitution,
    wildcard or xsi:type is involved: the global element with the root's name, then at every level the first
    particle of the content model with the child's name. -/
def govFrom (S : Schema) : Decl → List String → Option Decl
  | g, [] => some g
  | g, n :: ns => match (S.kids g).find? (fun c => c.name == some n) with
    | some c => govFrom S c ns
    | none => none

def gov (S : Schema) : List String → Option Decl
  | [] => none
  | r :: ns => match globalGet S r with
    | some g => govFrom S g ns
    | none => none

end XsVerif.SchemaPaths
