/-
  C20 — identity constraints (xs:key / xs:unique) in a path-driven validation run.  No Mathlib.

  Ported code:
    xmlschema/validators/identities.py:385-389   IdentityCounter.increase: error when a field tuple is counted twice
    xmlschema/validators/elements.py:960-975     collect_key_fields: absent field -> "missing key field" for a key,
                                                 the node is outside the qualified node set of a unique
    xmlschema/validators/schemas.py:1348-1368    the loop of iter_errors(path=…): when the chain of ancestors of the
                                                 selected element changes, `k` = index of the first ancestor that
                                                 differs and the counters of the constraints declared by the
                                                 ancestors from `k` on are re-bound (reset) to the new instances
-/
namespace XsVerif.IdentScope

inductive Err where
  | dup (node : Nat)
  | missing (node : Nat)
  deriving DecidableEq, Repr

/-- how often `v` was counted -/
def count (seen : List Int) (v : Int) : Nat := (seen.filter (· == v)).length

/-- the errors of ONE scope instance over its nodes (id, field value) in processing order -/
def scopeErrs (isKey : Bool) : List Int → List (Nat × Option Int) → List Err
  | _, [] => []
  | seen, (n, none) :: rest => (if isKey then [Err.missing n] else []) ++ scopeErrs isKey seen rest
  | seen, (n, some v) :: rest =>
    (if count seen v == 1 then [Err.dup n] else []) ++ scopeErrs isKey (v :: seen) rest

/-- what a partial run must report for a constraint whose scope is a proper ancestor of the selection: every scope
    instance separately, over its nodes that lie in the selected parts -/
def spec (isKey : Bool) (groups : List (Nat × List (Nat × Option Int))) : List Err :=
  groups.flatMap fun g => scopeErrs isKey [] g.2

/-- one collected node of a run: the scope instance it belongs to, its id, its field value -/
structure Ev where
  scope : Nat
  node : Nat
  val : Option Int
  deriving Repr

def evsOf (g : Nat × List (Nat × Option Int)) : List Ev := g.2.map fun p => ⟨g.1, p.1, p.2⟩

def flatten (groups : List (Nat × List (Nat × Option Int))) : List Ev := groups.flatMap evsOf

/-- the run at the level of scope instances: ONE counter per constraint, re-bound (emptied) when the scope instance
    of the collected node is not the one it is bound to -/
def loop (isKey : Bool) : Option Nat → List Int → List Ev → List Err
  | _, _, [] => []
  | cur, seen, e :: rest =>
    let seen' := if cur == some e.scope then seen else []
    match e.val with
    | none => (if isKey then [Err.missing e.node] else []) ++ loop isKey (some e.scope) seen' rest
    | some v => (if count seen' v == 1 then [Err.dup e.node] else []) ++ loop isKey (some e.scope) (v :: seen') rest

/-! ### the loop as it is written: chains of ancestors and the index `k` -/

/-- schemas.py:1349-1352: `k = 0; for k in range(min(len(a), len(p))): if a[k] is not p[k]: break` — the index of the
    first difference, and `min - 1` (NOT `min`) when one chain is a prefix of the other; 0 for an empty chain -/
def kOf : List Nat → List Nat → Nat
  | [], _ => 0
  | _, [] => 0
  | a :: as, p :: ps =>
    if a != p then 0
    else match as, ps with
      | [], _ => 0
      | _, [] => 0
      | _, _ => 1 + kOf as ps

/-- a collected node with the chain of ancestors of the SELECTED element it was reached from -/
structure EvC where
  chain : List Nat
  node : Nat
  val : Option Int
  deriving Repr

/-- the run for one constraint declared by the ancestor at index `j` of the chains: the counter is emptied when
    the chain changed and `k ≤ j` -/
def loopC (isKey : Bool) (j : Nat) : List Nat → List Int → List EvC → List Err
  | _, _, [] => []
  | prev, seen, e :: rest =>
    let seen' := if e.chain != prev && decide (kOf e.chain prev ≤ j) then [] else seen
    match e.val with
    | none => (if isKey then [Err.missing e.node] else []) ++ loopC isKey j e.chain seen' rest
    | some v => (if count seen' v == 1 then [Err.dup e.node] else []) ++ loopC isKey j e.chain (v :: seen') rest

/-- `k` as repaired by notes/fixes/C20-ancestors-first-difference.patch: the common length when one chain is a
    prefix of the other -/
def kOfFix : List Nat → List Nat → Nat
  | [], _ => 0
  | _, [] => 0
  | a :: as, p :: ps => if a != p then 0 else 1 + kOfFix as ps

/-- `loopC` with the repaired `k` -/
def loopCFix (isKey : Bool) (j : Nat) : List Nat → List Int → List EvC → List Err
  | _, _, [] => []
  | prev, seen, e :: rest =>
    let seen' := if e.chain != prev && decide (kOfFix e.chain prev ≤ j) then [] else seen
    match e.val with
    | none => (if isKey then [Err.missing e.node] else []) ++ loopCFix isKey j e.chain seen' rest
    | some v => (if count seen' v == 1 then [Err.dup e.node] else []) ++ loopCFix isKey j e.chain (v :: seen') rest

end XsVerif.IdentScope
