/-
  C13 — the prolog of an XML document: grammar, rendering to bytes, and the scanner that says what
  the three handlers of the safe parser react to.

  Modelled code / behaviour:
    xmlschema/resources/sax.py:22-42   SafeExpatParser: EntityDeclHandler, UnparsedEntityDeclHandler and
                                       ExternalEntityRefHandler raise XMLResourceForbidden
    xmlschema/resources/sax.py:77-84   the scan: pulldom events up to the first START_ELEMENT
    expat (xmlparse.c, doProlog)       which of the three handlers is reached first for a prolog:
      * every <!ENTITY …> declaration of the internal subset that is *processed* reaches
        EntityDeclHandler (UnparsedEntityDeclHandler for NDATA entities);
      * after a reference to a parameter entity that cannot be read (`%p;` undeclared) the
        processor stops processing declarations unless the document is standalone="yes"
        (`dtd->keepProcessing = dtd->standalone`, XML 1.0 §5.1);
      * an external identifier on the DOCTYPE reaches ExternalEntityRefHandler when the DOCTYPE
        closes — unless the document is standalone="yes"
        (expatreader sets XML_PARAM_ENTITY_PARSING_UNLESS_STANDALONE).

  `classify` is a byte-level automaton (a fold of `step`), total on every byte string; `render`
  prints a `Prolog`; `firstHandler` reads the expected verdict off the syntax tree.
  `XsVerif.Props.C13.classify_render` proves `classify (render p ++ root) = firstHandler p`.
  The automaton is tied to the real parser by the correspondence run (driver ops `prolog`,
  `classify`): first handler reached by the real SafeExpatParser == model verdict.
  No Mathlib import.
-/
namespace XsVerif.Prolog

abbrev Bytes := List Nat

/-! ### character classes (ASCII) -/

def isWs (c : Nat) : Bool := c == 32 || c == 9 || c == 10 || c == 13
def isUpper (c : Nat) : Bool := decide (65 ≤ c) && decide (c ≤ 90)
def isNameStart (c : Nat) : Bool :=
  (decide (65 ≤ c) && decide (c ≤ 90)) || (decide (97 ≤ c) && decide (c ≤ 122)) || c == 95 || c == 58
def isNameChar (c : Nat) : Bool :=
  isNameStart c || (decide (48 ≤ c) && decide (c ≤ 57)) || c == 45 || c == 46
def isQuote (c : Nat) : Bool := c == 34 || c == 39

def kENTITY : Bytes := [69, 78, 84, 73, 84, 89]
def kELEMENT : Bytes := [69, 76, 69, 77, 69, 78, 84]
def kATTLIST : Bytes := [65, 84, 84, 76, 73, 83, 84]
def kNOTATION : Bytes := [78, 79, 84, 65, 84, 73, 79, 78]
def kDOCTYPE : Bytes := [68, 79, 67, 84, 89, 80, 69]
def kSYSTEM : Bytes := [83, 89, 83, 84, 69, 77]
def kPUBLIC : Bytes := [80, 85, 66, 76, 73, 67]
def kNDATA : Bytes := [78, 68, 65, 84, 65]
def kXml : Bytes := [120, 109, 108]
def kStandalone : Bytes := [115, 116, 97, 110, 100, 97, 108, 111, 110, 101]
def kYes : Bytes := [121, 101, 115]

/-! ### the scanner -/

/-- what the scan of a document ends with: no handler reached before the first start tag
    (`clean`), EntityDeclHandler (`entity`), UnparsedEntityDeclHandler (`unparsed`),
    ExternalEntityRefHandler (`external`); `malformed` = the bytes leave the grammar the
    automaton knows (never a verdict: the driver reports it as such). -/
inductive Verdict where
  | clean
  | entity (name : Bytes)
  | unparsed (name : Bytes)
  | external
  | malformed
  deriving DecidableEq, Repr

structure Flags where
  sa : Bool      -- standalone="yes" was declared
  ext : Bool     -- the DOCTYPE carries an external identifier
  keep : Bool    -- declarations are still processed (expat: dtd->keepProcessing)
  deriving DecidableEq, Repr

inductive St where
  | text (f : Flags) (sub : Bool)              -- between items; sub = inside the internal subset
  | bom (f : Flags) (k : Nat)
  | lt (f : Flags) (sub : Bool)                -- after '<'
  | bang (f : Flags) (sub : Bool)              -- after '<!'
  | bangDash (f : Flags) (sub : Bool)          -- after '<!-'
  | comment (f : Flags) (sub : Bool) (d : Nat) -- d = trailing dashes seen
  | piTarget (f : Flags) (sub : Bool) (acc : Bytes)
  | pi (f : Flags) (sub : Bool) (q : Bool)     -- q = previous byte was '?'
  | xName (f : Flags) (acc : Bytes)            -- XMLDecl: pseudo-attribute name
  | xEq (f : Flags) (name : Bytes)             -- XMLDecl: after '='
  | xVal (f : Flags) (name : Bytes) (q : Nat) (acc : Bytes)
  | xQ (f : Flags)                             -- XMLDecl: after '?'
  | kw (f : Flags) (sub : Bool) (acc : Bytes)  -- keyword after '<!'
  | head (f : Flags)                           -- <!DOCTYPE … up to '[' or '>'
  | headLit (f : Flags) (q : Nat)
  | decl (f : Flags)                           -- a declaration that is skipped, up to '>'
  | declLit (f : Flags) (q : Nat)
  | tail (f : Flags)                           -- after ']'
  | entPre                                     -- after '<!ENTITY '
  | entName (acc : Bytes)
  | entDef (name : Bytes)                      -- after the entity name
  | entExt (name : Bytes)                      -- external identifier of an entity
  | entExtLit (name : Bytes) (q : Nat)
  | peref (f : Flags)                          -- after '%' in the internal subset
  | done (v : Verdict)
  deriving DecidableEq, Repr

def bad : St := .done .malformed

/-- the DOCTYPE closes: ExternalEntityRefHandler for the external subset unless standalone -/
def finish (f : Flags) : St := .done (if f.ext && !f.sa then .external else .clean)

def kwDispatch (f : Flags) (sub : Bool) (acc : Bytes) : St :=
  if sub then
    if acc = kENTITY then (if f.keep then .entPre else .decl f)
    else if acc = kELEMENT || acc = kATTLIST || acc = kNOTATION then .decl f
    else bad
  else if acc = kDOCTYPE then .head f
  else bad

def step : St → Nat → St
  | .text f sub, c =>
    if isWs c then .text f sub
    else if c = 60 then .lt f sub
    else if sub then (if c = 37 then .peref f else if c = 93 then .tail f else bad)
    else if c = 239 then .bom f 1
    else bad
  | .bom f k, c =>
    if k = 1 && c = 187 then .bom f 2
    else if k = 2 && c = 191 then .text f false
    else bad
  | .lt f sub, c =>
    if c = 63 then .piTarget f sub []
    else if c = 33 then .bang f sub
    else if !sub && isNameStart c then .done .clean      -- the first start tag: the scan stops
    else bad
  | .bang f sub, c =>
    if c = 45 then .bangDash f sub
    else if isUpper c then .kw f sub [c]
    else bad
  | .bangDash f sub, c => if c = 45 then .comment f sub 0 else bad
  | .comment f sub d, c =>
    if c = 45 then (if d < 2 then .comment f sub (d + 1) else bad)
    else if d = 2 then (if c = 62 then .text f sub else bad)
    else .comment f sub 0
  | .piTarget f sub acc, c =>
    if isNameChar c then .piTarget f sub (acc ++ [c])
    else if isWs c then (if acc = kXml && !sub then .xName f [] else .pi f sub false)
    else if c = 63 then .pi f sub true
    else bad
  | .pi f sub q, c =>
    if c = 63 then .pi f sub true
    else if c = 62 && q then .text f sub
    else .pi f sub false
  | .xName f acc, c =>
    if isNameChar c then .xName f (acc ++ [c])
    else if isWs c then (if acc = [] then .xName f [] else bad)
    else if c = 61 then .xEq f acc
    else if c = 63 then (if acc = [] then .xQ f else bad)
    else bad
  | .xEq f name, c => if isQuote c then .xVal f name c [] else bad
  | .xVal f name q acc, c =>
    if c = q then .xName (if name = kStandalone && acc = kYes then { f with sa := true } else f) []
    else .xVal f name q (acc ++ [c])
  | .xQ f, c => if c = 62 then .text f false else bad
  | .kw f sub acc, c =>
    if isUpper c then .kw f sub (acc ++ [c])
    else if isWs c then kwDispatch f sub acc
    else bad
  | .head f, c =>
    if isQuote c then .headLit { f with ext := true } c
    else if c = 91 then .text f true
    else if c = 62 then finish f
    else .head f
  | .headLit f q, c => if c = q then .head f else .headLit f q
  | .decl f, c =>
    if isQuote c then .declLit f c
    else if c = 62 then .text f true
    else if c = 60 then bad
    else .decl f
  | .declLit f q, c => if c = q then .decl f else .declLit f q
  | .tail f, c =>
    if isWs c then .tail f
    else if c = 62 then finish f
    else bad
  | .entPre, c =>
    if isWs c then .entPre
    else if c = 37 then .entPre
    else if isNameStart c then .entName [c]
    else bad
  | .entName acc, c =>
    if isNameChar c then .entName (acc ++ [c])
    else if isWs c then .entDef acc
    else bad
  | .entDef name, c =>
    if isWs c then .entDef name
    else if isQuote c then .done (.entity name)          -- internal entity (general or parameter)
    else if isUpper c then .entExt name                  -- SYSTEM / PUBLIC
    else bad
  | .entExt name, c =>
    if isQuote c then .entExtLit name c
    else if c = 78 then .done (.unparsed name)           -- NDATA
    else if c = 62 then .done (.entity name)
    else .entExt name
  | .entExtLit name q, c => if c = q then .entExt name else .entExtLit name q
  | .peref f, c =>
    if c = 59 then .text { f with keep := f.keep && f.sa } true
    else if isNameChar c then .peref f
    else bad
  | .done v, _ => .done v

def run (st : St) (s : Bytes) : St := s.foldl step st

def flags0 : Flags := { sa := false, ext := false, keep := true }
def st0 : St := .text flags0 false

def verdictOf : St → Verdict
  | .done v => v
  | .text _ false => .clean          -- end of input in the prolog: nothing was reached
  | _ => .malformed

/-- the verdict of the scan of a document given as bytes -/
def classify (s : Bytes) : Verdict := verdictOf (run st0 s)

/-! ### the grammar -/

inductive Quote where
  | dq | sq
  deriving DecidableEq, Repr

def Quote.byte : Quote → Nat
  | .dq => 34
  | .sq => 39

structure Lit where
  q : Quote
  body : Bytes
  deriving DecidableEq, Repr

inductive ExtId where
  | system (sys : Lit)
  | pub (pubid : Lit) (sys : Lit)
  deriving DecidableEq, Repr

inductive EntDef where
  | value (v : Lit)                          -- internal entity
  | ext (id : ExtId)                         -- external parsed entity
  | ndata (id : ExtId) (notn : Bytes)    -- unparsed entity
  deriving DecidableEq, Repr

inductive AttDefault where
  | kw (k : Bytes)                           -- #IMPLIED / #REQUIRED
  | lit (l : Lit)
  | fixed (l : Lit)
  deriving DecidableEq, Repr

structure AttDef where
  name : Bytes
  type : Bytes                               -- CDATA, ID, (a|b), NOTATION (n) … printed as is
  dflt : AttDefault
  deriving DecidableEq, Repr

inductive Decl where
  | entity (param : Bool) (name : Bytes) (d : EntDef)
  | notationDecl (name : Bytes) (id : ExtId)
  | element (name : Bytes) (spec : Bytes)    -- EMPTY, ANY, (#PCDATA), (a,b)* … printed as is
  | attlist (elem : Bytes) (atts : List AttDef)
  | comment (body : Bytes)
  | pi (target : Bytes) (body : Bytes)
  | peRef (name : Bytes)
  | space (ws : Bytes)
  deriving DecidableEq, Repr

inductive Misc where
  | comment (body : Bytes)
  | pi (target : Bytes) (body : Bytes)
  | space (ws : Bytes)
  deriving DecidableEq, Repr

structure XmlDecl where
  encoding : Option Bytes
  standalone : Option Bool
  deriving DecidableEq, Repr

structure Doctype where
  name : Bytes
  ext : Option ExtId
  subset : Option (List Decl)
  deriving DecidableEq, Repr

structure Prolog where
  bom : Bool
  xmlDecl : Option XmlDecl
  misc1 : List Misc
  doctype : Option Doctype
  misc2 : List Misc
  deriving DecidableEq, Repr

/-! ### rendering -/

def Lit.render (l : Lit) : Bytes := l.q.byte :: (l.body ++ [l.q.byte])

def ExtId.render : ExtId → Bytes
  | .system s => kSYSTEM ++ 32 :: s.render
  | .pub p s => kPUBLIC ++ 32 :: (p.render ++ 32 :: s.render)

def EntDef.render : EntDef → Bytes
  | .value v => v.render
  | .ext id => id.render
  | .ndata id n => id.render ++ 32 :: (kNDATA ++ 32 :: n)

def AttDefault.render : AttDefault → Bytes
  | .kw k => k
  | .lit l => l.render
  | .fixed l => [35, 70, 73, 88, 69, 68, 32] ++ l.render

def AttDef.render (a : AttDef) : Bytes :=
  32 :: (a.name ++ 32 :: (a.type ++ 32 :: a.dflt.render))

def renderAtts : List AttDef → Bytes
  | [] => []
  | a :: as => a.render ++ renderAtts as

def commentBytes (body : Bytes) : Bytes := [60, 33, 45, 45] ++ (body ++ [45, 45, 62])
def piBytes (target body : Bytes) : Bytes := [60, 63] ++ (target ++ 32 :: (body ++ [63, 62]))

def Decl.render : Decl → Bytes
  | .entity param name d =>
    [60, 33] ++ (kENTITY ++ 32 :: ((if param then [37, 32] else []) ++ (name ++ 32 :: (d.render ++ [62]))))
  | .notationDecl name id => [60, 33] ++ (kNOTATION ++ 32 :: (name ++ 32 :: (id.render ++ [62])))
  | .element name spec => [60, 33] ++ (kELEMENT ++ 32 :: (name ++ 32 :: (spec ++ [62])))
  | .attlist elem atts => [60, 33] ++ (kATTLIST ++ 32 :: (elem ++ (renderAtts atts ++ [62])))
  | .comment body => commentBytes body
  | .pi target body => piBytes target body
  | .peRef name => 37 :: (name ++ [59])
  | .space ws => ws

def renderDecls : List Decl → Bytes
  | [] => []
  | d :: ds => d.render ++ renderDecls ds

def Misc.render : Misc → Bytes
  | .comment body => commentBytes body
  | .pi target body => piBytes target body
  | .space ws => ws

def renderMiscs : List Misc → Bytes
  | [] => []
  | m :: ms => m.render ++ renderMiscs ms

def encBytes : Option Bytes → Bytes
  | some e => [32, 101, 110, 99, 111, 100, 105, 110, 103, 61, 34] ++ (e ++ [34])
  | none => []

def saBytes : Option Bool → Bytes
  | some true => [32, 115, 116, 97, 110, 100, 97, 108, 111, 110, 101, 61, 34, 121, 101, 115, 34]
  | some false => [32, 115, 116, 97, 110, 100, 97, 108, 111, 110, 101, 61, 34, 110, 111, 34]
  | none => []

/-- `<?xml version="1.0"[ encoding="…"][ standalone="yes|no"]?>` -/
def XmlDecl.render (x : XmlDecl) : Bytes :=
  [60, 63, 120, 109, 108, 32, 118, 101, 114, 115, 105, 111, 110, 61, 34, 49, 46, 48, 34] ++
  (encBytes x.encoding ++ (saBytes x.standalone ++ [63, 62]))

def extBytes : Option ExtId → Bytes
  | some id => 32 :: id.render
  | none => []

def subsetBytes : Option (List Decl) → Bytes
  | some ds => [32, 91] ++ (renderDecls ds ++ [93])
  | none => []

/-- `<!DOCTYPE name[ ExternalID][ [subset]]>` -/
def Doctype.render (d : Doctype) : Bytes :=
  [60, 33] ++ (kDOCTYPE ++ 32 :: (d.name ++ (extBytes d.ext ++ (subsetBytes d.subset ++ [62]))))

def xmlDeclBytes : Option XmlDecl → Bytes
  | some x => x.render
  | none => []

def doctypeBytes : Option Doctype → Bytes
  | some d => d.render
  | none => []

def Prolog.render (p : Prolog) : Bytes :=
  (if p.bom then [239, 187, 191] else []) ++
  (xmlDeclBytes p.xmlDecl ++ (renderMiscs p.misc1 ++ (doctypeBytes p.doctype ++ renderMiscs p.misc2)))

/-! ### what the handlers are expected to see, read off the syntax tree -/

def Prolog.standalone (p : Prolog) : Bool :=
  match p.xmlDecl with
  | some x => x.standalone == some true
  | none => false

def entityVerdict (name : Bytes) : EntDef → Verdict
  | .ndata _ _ => .unparsed name
  | _ => .entity name

/-- the first entity declaration that is processed: declarations after a reference to an
    unreadable parameter entity are skipped unless the document is standalone -/
def firstLive (sa : Bool) : Bool → List Decl → Option Verdict
  | _, [] => none
  | keep, .entity _ name d :: ds => if keep then some (entityVerdict name d) else firstLive sa keep ds
  | keep, .peRef _ :: ds => firstLive sa (keep && sa) ds
  | keep, _ :: ds => firstLive sa keep ds

def firstHandler (p : Prolog) : Verdict :=
  match p.doctype with
  | none => .clean
  | some d =>
    match firstLive p.standalone true (d.subset.getD []) with
    | some v => v
    | none => if d.ext.isSome && !p.standalone then .external else .clean

/-- the direct reading of the property: the document "declares an internal, external, parameter or
    unparsed entity, or references an external DTD subset" -/
def Decl.isEntity : Decl → Bool
  | .entity _ _ _ => true
  | _ => false

def mustRefuse (p : Prolog) : Bool :=
  match p.doctype with
  | none => false
  | some d => d.ext.isSome || (d.subset.getD []).any Decl.isEntity

def Decl.isPeRef : Decl → Bool
  | .peRef _ => true
  | _ => false

/-- the prologs on which the handlers and the direct reading agree (see
    `handler_iff_mustRefuse_partial`): no standalone="yes" together with an external identifier, no
    reference to a parameter entity in the internal subset -/
def regular (p : Prolog) : Bool :=
  match p.doctype with
  | none => true
  | some d => !(p.standalone && d.ext.isSome) && !(d.subset.getD []).any Decl.isPeRef

/-! ### the event model: what the parser does with the entities of a document

  Modelled behaviour (expat as configured by xml.sax.expatreader / xml.etree.ElementTree):
    * every entity declaration of the internal subset that is *processed* is reported
      (EntityDeclHandler / UnparsedEntityDeclHandler) and becomes known to the parser;
      declarations that follow a reference to an unreadable parameter entity in a document that is
      not standalone are not processed: the entity stays unknown;
    * the external subset is requested through ExternalEntityRefHandler when the DOCTYPE closes,
      unless the document is standalone="yes"; (a reference to an external parameter entity is a
      second such request, but it can only follow the processed declaration of that entity: it is
      not an event of the model, the harness filters it out of the recorded sequence; the replacement
      text of an internal parameter entity is not re-scanned for nested declarations)
    * a reference `&n;` in the content is replaced by the replacement text of the FIRST processed
      declaration of the general entity `n` if that is an internal one (`expanded`); it is an error
      ("undefined entity") if no processed declaration exists or the entity is an external parsed one
      (ElementTree installs no ExternalEntityRefHandler: nothing is fetched), and an error
      ("reference to binary entity") if it is unparsed.
  Tied to the real parsers by the driver op `events` (harness: recording expat parser for the prolog
  events, ElementTree for the references). -/

inductive PEv where
  | declared (v : Verdict)          -- a processed entity declaration, as the handler sees it (`entityVerdict`)
  | extSubset                       -- the external subset is requested
  | expanded (name : Bytes)         -- a reference is replaced by the entity's replacement text
  | undefinedRef (name : Bytes)     -- "undefined entity": nothing expanded, nothing fetched
  | binaryRef (name : Bytes)        -- "reference to binary entity": nothing expanded, nothing fetched
  deriving DecidableEq, Repr

/-- the processed entity declarations of an internal subset, in document order
    (`keep` as in `firstLive`: expat's dtd->keepProcessing; `acc` = the declarations processed so far:
    a reference to an internal parameter entity among them is expanded in place and leaves `keep`
    alone, any other PE reference — undeclared, or external and not read — sets keep := standalone) -/
def EntDef.isValue : EntDef → Bool
  | .value _ => true
  | _ => false

def liveEntsAux (sa : Bool) : Bool → List (Bool × Bytes × EntDef) → List Decl → List (Bool × Bytes × EntDef)
  | _, _, [] => []
  | keep, acc, .entity param name d :: ds =>
    -- a second declaration of the same (general / parameter) entity is ignored and not reported: the first binds
    if keep && !acc.any (fun e => e.1 == param && e.2.1 == name) then
      (param, name, d) :: liveEntsAux sa keep (acc ++ [(param, name, d)]) ds
    else liveEntsAux sa keep acc ds
  | keep, acc, .peRef name :: ds =>
    liveEntsAux sa (if acc.any (fun e => e.1 && e.2.1 == name && e.2.2.isValue) then keep else keep && sa) acc ds
  | keep, acc, _ :: ds => liveEntsAux sa keep acc ds

def liveEnts (sa : Bool) (keep : Bool) (ds : List Decl) : List (Bool × Bytes × EntDef) :=
  liveEntsAux sa keep [] ds

def Prolog.liveEnts (p : Prolog) : List (Bool × Bytes × EntDef) :=
  match p.doctype with
  | none => []
  | some d => XsVerif.Prolog.liveEnts p.standalone true (d.subset.getD [])

/-- whether the parser requests the external subset -/
def Prolog.extRequested (p : Prolog) : Bool :=
  match p.doctype with
  | none => false
  | some d => d.ext.isSome && !p.standalone

/-- what a recording parser (handlers that return instead of raising) reports for the prolog -/
def prologEvents (p : Prolog) : List PEv :=
  p.liveEnts.map (fun e => .declared (entityVerdict e.2.1 e.2.2)) ++
    (if p.extRequested then [.extSubset] else [])

/-- the first processed declaration of the general entity `name` -/
def lookupGeneral (name : Bytes) : List (Bool × Bytes × EntDef) → Option EntDef
  | [] => none
  | (param, n, d) :: es => if !param && n = name then some d else lookupGeneral name es

/-- the fate of a reference `&name;` in the content of the document -/
def refEvent (p : Prolog) (name : Bytes) : PEv :=
  match lookupGeneral name p.liveEnts with
  | some (.value _) => .expanded name
  | some (.ndata _ _) => .binaryRef name
  | some (.ext _) => .undefinedRef name
  | none => .undefinedRef name

/-- prolog events followed by the fate of each reference of the content -/
def docEvents (p : Prolog) (refs : List Bytes) : List PEv :=
  prologEvents p ++ refs.map (refEvent p)

/-- an event in which the parser expands an entity or asks for an external resource -/
def PEv.hot : PEv → Bool
  | .expanded _ => true
  | .extSubset => true
  | _ => false

/-- the verdict of a scan whose handlers raise at the first event -/
def verdictOfEvents : List PEv → Verdict
  | .declared v :: _ => v
  | .extSubset :: _ => .external
  | _ => .clean

/-! ### well-formedness of the pieces the grammar prints as they are -/

def isName : Bytes → Bool
  | [] => false
  | c :: cs => isNameStart c && cs.all isNameChar

def Lit.wf (l : Lit) : Bool := l.body.all (· != l.q.byte)

/-- printed as is inside a declaration: no quotes, no angle brackets -/
def rawOk (b : Bytes) : Bool := b.all fun c => !isQuote c && c != 60 && c != 62

/-- XML comment: no `--` inside, no `-` at the end -/
def commentOk : Bytes → Bool
  | [] => true
  | [c] => c != 45
  | c :: d :: cs => !(c == 45 && d == 45) && commentOk (d :: cs)

/-- processing instruction data: no `?>` inside -/
def piOk : Bytes → Bool
  | [] => true
  | [_] => true
  | c :: d :: cs => !(c == 63 && d == 62) && piOk (d :: cs)

def ExtId.wf : ExtId → Bool
  | .system s => s.wf
  | .pub p s => p.wf && s.wf

def EntDef.wf : EntDef → Bool
  | .value v => v.wf
  | .ext id => id.wf
  | .ndata id n => id.wf && isName n

def AttDefault.wf : AttDefault → Bool
  | .kw k => rawOk k
  | .lit l => l.wf
  | .fixed l => l.wf

def AttDef.wf (a : AttDef) : Bool := isName a.name && rawOk a.type && a.dflt.wf

def piTargetOk (t : Bytes) : Bool := isName t && t != kXml

def Decl.wf : Decl → Bool
  | .entity _ name d => isName name && d.wf
  | .notationDecl name id => isName name && id.wf
  | .element name spec => isName name && rawOk spec
  | .attlist elem atts => isName elem && atts.all AttDef.wf
  | .comment body => commentOk body
  | .pi target body => piTargetOk target && piOk body
  | .peRef name => isName name
  | .space ws => ws.all isWs

def Misc.wf : Misc → Bool
  | .comment body => commentOk body
  | .pi target body => piTargetOk target && piOk body
  | .space ws => ws.all isWs

def XmlDecl.wf (x : XmlDecl) : Bool :=
  match x.encoding with
  | some e => e.all isNameChar
  | none => true

def Doctype.wf (d : Doctype) : Bool :=
  isName d.name &&
  (match d.ext with | some id => id.wf | none => true) &&
  (match d.subset with | some ds => ds.all Decl.wf | none => true)

def Prolog.wf (p : Prolog) : Bool :=
  (match p.xmlDecl with | some x => x.wf | none => true) &&
  p.misc1.all Misc.wf &&
  (match p.doctype with | some d => d.wf | none => true) &&
  p.misc2.all Misc.wf

/-- what follows the prolog: the start tag of the root element -/
def startsTag : Bytes → Bool
  | 60 :: c :: _ => isNameStart c
  | _ => false

end XsVerif.Prolog
