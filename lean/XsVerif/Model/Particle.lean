/-
  XSD content models.
  * `Particle`: the particle tree (spec side) and `toRx`, the translation that *defines* the
    language of a content model.
  * `Arena`: the same model as an object graph indexed by dense ids (implementation side: the
    Python objects with identity, shared by ModelVisitor / check_model ports).
  No Mathlib import.
-/
import XsVerif.Model.Rx
import XsVerif.Model.Wildcard

namespace XsVerif.CM
open XsVerif.Wildcard

inductive GKind where | seq | choice | all
  deriving DecidableEq, Repr, Inhabited

/-- what a leaf particle matches -/
inductive Leaf where
  | elem (id : Nat) (names : List QN)             -- declared name followed by its substitutes
  | any (id : Nat) (w : Wc)
  deriving Repr, Inhabited, DecidableEq

def Leaf.id : Leaf → Nat | .elem i _ => i | .any i _ => i

/-- S-level matching of a child name by a leaf: an element matches its own name or a member of
    its substitution group, a wildcard matches the names its constraint admits (C16). -/
def Leaf.matches : Leaf → QN → Bool
  | .elem _ names, q => names.contains q
  | .any _ w, q => allowsQ w q

mutual
inductive Particle where
  | leaf (l : Leaf) (lo : Nat) (hi : Option Nat)
  | group (id : Nat) (k : GKind) (lo : Nat) (hi : Option Nat) (items : Particles)
inductive Particles where
  | nil
  | cons (p : Particle) (ps : Particles)
end

mutual
/-- The language-defining translation: sequence ↦ concatenation, choice ↦ alternation (the empty
    choice denotes the empty language), all ↦ interleaving; occurrence ranges ↦ counted repetition. -/
def Particle.toRx : Particle → Rx Leaf
  | .leaf l lo hi => .rep (.sym l) lo hi
  | .group _ .seq lo hi ps => .rep ps.toSeq lo hi
  | .group _ .choice lo hi ps => .rep ps.toChoice lo hi
  | .group _ .all lo hi ps => .rep ps.toAll lo hi
def Particles.toSeq : Particles → Rx Leaf
  | .nil => .eps
  | .cons p ps => .cat p.toRx ps.toSeq
def Particles.toChoice : Particles → Rx Leaf
  | .nil => .empty
  | .cons p ps => .alt p.toRx ps.toChoice
def Particles.toAll : Particles → Rx Leaf
  | .nil => .eps
  | .cons p ps => .shuffle p.toRx ps.toAll
end

/-- XSD 1.1 open content around a content model. -/
inductive OpenMode where | none | interleave | suffix
  deriving DecidableEq, Repr, Inhabited

def withOpen (mode : OpenMode) (w : Leaf) (r : Rx Leaf) : Rx Leaf :=
  match mode with
  | .none => r
  | .interleave => .shuffle r (.rep (.sym w) 0 none)
  | .suffix => .cat r (.rep (.sym w) 0 none)

/-- S: the child sequence `w` is a word of the content model. -/
def InModel (p : Particle) (w : List QN) : Prop := Rx.Lang Leaf.matches p.toRx w

/-- O: executable decision of `InModel`. -/
def inModel (p : Particle) (w : List QN) : Bool := Rx.accepts Leaf.matches p.toRx w

/-! ### arena (object graph) -/

inductive NKind where | elem | any | seq | choice | all
  deriving DecidableEq, Repr, Inhabited

structure Node where
  kind : NKind
  lo : Nat
  hi : Option Nat
  content : List Nat := []          -- `group.content` (ids)
  names : List QN := []             -- elem
  wc : Wc := default                -- any
  prec : List Nat := []             -- any (XSD 1.1): `precedences[root]` (element ids)
  deriving Repr, Inhabited

abbrev Arena := Array Node

def Arena.node (A : Arena) (i : Nat) : Node := A.getD i default

def Node.isGroup (n : Node) : Bool :=
  match n.kind with | .seq | .choice | .all => true | _ => false

mutual
def Particle.flatten : Particle → List (Nat × Node)
  | .leaf (.elem i names) lo hi => [(i, { kind := .elem, lo, hi, names })]
  | .leaf (.any i w) lo hi => [(i, { kind := .any, lo, hi, wc := w })]
  | .group i k lo hi ps =>
      let kind := match k with | .seq => NKind.seq | .choice => .choice | .all => .all
      (i, { kind, lo, hi, content := ps.ids }) :: ps.flatten
def Particles.flatten : Particles → List (Nat × Node)
  | .nil => []
  | .cons p ps => p.flatten ++ ps.flatten
def Particles.ids : Particles → List Nat
  | .nil => []
  | .cons p ps => p.pid :: ps.ids
def Particle.pid : Particle → Nat
  | .leaf l _ _ => l.id
  | .group i _ _ _ _ => i
end

/-- arena with `n` slots filled from the (id, node) list (ids are dense, assigned by the harness) -/
def mkArena (n : Nat) (l : List (Nat × Node)) : Arena :=
  l.foldl (fun a (i, nd) => a.setIfInBounds i nd) (Array.replicate n default)

end XsVerif.CM
