/-
  C05 — converters: `ElementData` trees, the Python data the converters build, and ports of
  `element_decode` / `element_encode` of

    * JsonMLConverter         /repo/xmlschema/converters/jsonml.py:64-132
    * DataElementConverter    /repo/xmlschema/dataobjects.py:521-578
    * XMLSchemaConverter      /repo/xmlschema/converters/base.py:336-494   (the default convention)
    * BadgerFishConverter     /repo/xmlschema/converters/badgerfish.py:53-150

  together with the generic recursion that `XsdElement.raw_decode` (validators/elements.py:816-834,
  bottom-up: children are converted first, the converted values sit in `ElementData.content`) and
  `XsdElement.raw_encode` / `XsdGroup.raw_encode` (elements.py:937-1082, groups.py:1096-1214, top-down:
  `element_encode` splits one level, every `(name, value)` is handed to the child declaration) perform
  around them.

  Plain Lean core, no Mathlib.  Typed leaf values are opaque atoms `(kind, lexical)`; the only facts the
  converters test on them are "is a mapping", "is a sequence", "is a str".
-/
namespace XsVerif.Conv

/-- Python objects as the converters see them. -/
inductive J where
  | null
  /-- a leaf value that is neither a mapping nor a sequence; `k = "s"` for `str` -/
  | atom (k : String) (s : String)
  | list (xs : List J)
  | dict (kvs : List (String × J))
  /-- a `DataElement` (dataobjects.py:33): tag, value, attrib, children, tail, xmlns -/
  | elem (tag : String) (value : J) (attrib : List (String × J)) (kids : List J) (tail : J)
      (xmlns : List (String × String))
  deriving Repr, Inhabited

namespace J
def isSeq : J → Bool | .list _ => true | .elem .. => true | _ => false   -- MutableSequence
def isMap : J → Bool | .dict _ => true | _ => false                      -- MutableMapping
def isStr : J → Bool | .atom k _ => k == "s" | _ => false
def isNull : J → Bool | .null => true | _ => false
end J

/-- `d[k] = v` on an insertion-ordered dict. -/
def dictSet : List (String × J) → String → J → List (String × J)
  | [], k, v => [(k, v)]
  | (k', v') :: r, k, v => if k' == k then (k', v) :: r else (k', v') :: dictSet r k v

/-- `d.update(pairs)` -/
def dictUpdate (d : List (String × J)) (kvs : List (String × J)) : List (String × J) :=
  kvs.foldl (fun d kv => dictSet d kv.1 kv.2) d

def dictGet? : List (String × J) → String → Option J
  | [], _ => none
  | (k', v') :: r, k => if k' == k then some v' else dictGet? r k

/-- One element particle of a content model, as far as the converters look at it. -/
structure Child where
  name : String        -- extended name
  ty : Nat             -- id of its type in the schema table
  single : Bool        -- `xsd_child.is_single()`
  isList : Bool := false   -- `xsd_child.type.is_list()` (asked by the default converter, base.py:485)
  deriving Repr, Inhabited

/-- What the converters ask the schema about the type of the element being converted. -/
structure Facts where
  hasGroup : Bool      -- `xsd_type.model_group is not None`
  simple : Bool        -- `xsd_element.type.simple_type is not None`
  mixed : Bool         -- `xsd_element.type.mixed`
  emptyContent : Bool  -- `not xsd_element.type.content`
  complex : Bool       -- `xsd_type.is_complex()`
  singleGroup : Bool   -- `xsd_group.is_single()`
  isList : Bool        -- `xsd_child.type.is_list()`
  anyType : Bool       -- `xsd_type.name == XSD_ANY_TYPE`
  attrs : List String  -- names in `xsd_element.attributes`
  children : List Child
  isQName : Bool := false   -- `xsd_type.is_qname()` (asked by the default converter, base.py:372)
  deriving Repr, Inhabited

/-- Non recursive part of an `ElementData` (converters/base.py:28). `xmlns` is the *effective*
    list (`get_effective_xmlns`), `[]` standing for `None`/empty. -/
structure Hd where
  tag : String
  text : Option J
  attrs : List (String × J)
  xmlns : List (String × String)
  deriving Repr, Inhabited

/-- One entry of `ElementData.content`. -/
inductive Item (α : Type) where
  | cdata (i : Nat) (v : J)
  | child (name : String) (single : Bool) (v : α)
  deriving Repr

def Item.map {α β} (g : α → β) : Item α → Item β
  | .cdata i v => .cdata i v
  | .child n s v => .child n s (g v)

def mapIt {α β} (g : α → β) (l : List (Item α)) : List (Item β) := l.map (Item.map g)

mutual
/-- An element with its (typed) content: the tree of `ElementData` tuples of one document. -/
inductive Node where
  | mk (f : Facts) (hd : Hd) (items : Items)
inductive Items where
  | nil
  | cdata (i : Nat) (v : J) (rest : Items)
  | child (name : String) (single : Bool) (n : Node) (rest : Items)
end

def Items.toList : Items → List (Item Node)
  | .nil => []
  | .cdata i v r => .cdata i v :: r.toList
  | .child nm s n r => .child nm s n :: r.toList

def Items.ofList : List (Item Node) → Items
  | [] => .nil
  | .cdata i v :: r => .cdata i v (Items.ofList r)
  | .child nm s n :: r => .child nm s n (Items.ofList r)

/-- `map_qname` / `unmap_qname` of the converter's NamespaceMapper (namespaces.py:322-390) for the
    namespace context of one document; element names and attribute names are un-mapped differently
    (the default namespace applies to the former only). -/
structure Mapper where
  mp : String → String
  um : String → String
  umA : String → String
  /-- `unmap_qname(name, xmlns=…)` (namespaces.py:330-333): an element name un-mapped under additional
      declarations — the ones that the data of a child carries (base.py:476-481: the default convention resolves
      the key of EACH child item with that item's own declarations) -/
  umX : List (String × String) → String → String := fun _ s => um s
  /-- `map_attributes` (base.py:237-258): how an attribute name is written.  Not `map_qname`: the default
      namespace never applies to attributes, so a namespaced attribute is written with a prefix bound to its
      namespace or in extended form, while an element of the same expanded name may be written without prefix -/
  mpA : String → String := mp

inductive Err where
  | typeErr        -- XMLSchemaTypeError / TypeError   (caught by raw_encode → validation error)
  | valueErr       -- XMLSchemaValueError / ValueError (caught by raw_encode → validation error)
  | unmatchedTag   -- XMLSchemaValueError("Unmatched tag")
  | leak           -- an exception that `raw_encode` does not catch (IndexError, AttributeError, …)
  | noChild        -- the name matches no element of the content model (validation error)
  | noType         -- schema table has no such type (harness error)
  | rawContent     -- default convention: `ElementData.content` is the raw data object, not a list of pairs
  | fuel
  deriving Repr, DecidableEq, Inhabited

/-- A converter: `element_decode` and `element_encode`. -/
structure Conv where
  dec : Facts → Hd → List (Item J) → J
  enc : Facts → String → J → Except Err (Hd × List (Item J))

/-! ### the recursion around the converters -/

mutual
/-- bottom-up decode (elements.py:816-834 inside the recursion of groups.py:1031-1065) -/
def decTree (c : Conv) : Node → J
  | .mk f hd items => c.dec f hd (decItems c items)
def decItems (c : Conv) : Items → List (Item J)
  | .nil => []
  | .cdata i v r => .cdata i v :: decItems c r
  | .child nm s n r => .child nm s (decTree c n) :: decItems c r
end

def findChild (f : Facts) (nm : String) : Option Child := f.children.find? (·.name == nm)

/-- children of one level handed to their declarations (groups.py:1148-1189 without the visitor) -/
def encItems (sch : Nat → Option Facts) (rec : Facts → String → J → Except Err Node) (f : Facts) :
    List (Item J) → Except Err Items
  | [] => .ok .nil
  | .cdata i v :: r => do
      let r' ← encItems sch rec f r
      pure (.cdata i v r')
  | .child nm s v :: r =>
      match findChild f nm with
      | none => .error .noChild
      | some ch =>
        match sch ch.ty with
        | none => .error .noType
        | some cf => do
          let n ← rec cf nm v
          let r' ← encItems sch rec f r
          pure (.child nm s n r')

/-- top-down encode; `fuel` bounds the nesting depth (exhaustion is a distinct error). -/
def encTree (c : Conv) (sch : Nat → Option Facts) : Nat → Facts → String → J → Except Err Node
  | 0, _, _, _ => .error .fuel
  | fuel + 1, f, name, obj => do
      let (hd, its) ← c.enc f name obj
      let items ← encItems sch (encTree c sch fuel) f its
      pure (.mk f hd items)

mutual
def Node.depth : Node → Nat
  | .mk _ _ items => items.depth + 1
def Items.depth : Items → Nat
  | .nil => 0
  | .cdata _ _ r => r.depth
  | .child _ _ n r => max n.depth r.depth
end

/-! ### the same recursion when elements below the root carry namespace declarations

  With `xmlns_processing='stacked'` (the default for an XML source and for decoded data that reports its
  declarations) the converter's `map_qname`/`unmap_qname` answer in the namespace context of the element being
  converted: `set_xmlns_context` (namespaces.py:192-251) pushes the element's declarations when the element is
  entered and restores the saved map when it is left — on decode one context at a time (elements.py:837,
  groups.py:1008), on encode possibly several at once (the first call for a later sibling pops every context of
  the subtree that was left).  What this is meant to implement is lexical scoping: the mapping seen by an
  element is a function of the declarations written on the path from the root to it, and of nothing else
  (earlier siblings and their descendants leave no trace).  `decTreeS`/`encTreeS` are the recursion of
  `decTree`/`encTree` with that discipline: the converter is a family indexed by the declarations in scope. -/

/-- the namespace declarations in scope: the lists written on the ancestors-or-self, innermost first -/
abbrev NsScope := List (String × String)

/-- entering an element that carries the declarations `x` (`[]`: none — the scope is the parent's) -/
def NsScope.push (sc : NsScope) (x : List (String × String)) : NsScope := x ++ sc

/-- a converter whose name mapping is a function of the declarations in scope, with the declarations that
    `get_xmlns_from_data` reads from a data object (what `set_xmlns_context` pushes on the encode side) -/
structure SConv where
  cv : NsScope → Conv
  xmlnsOf : J → List (String × String)

mutual
/-- bottom-up decode; the element and its descendants see the scope extended with `hd.xmlns` -/
def decTreeS (c : SConv) (sc : NsScope) : Node → J
  | .mk f hd items => (c.cv (sc.push hd.xmlns)).dec f hd (decItemsS c (sc.push hd.xmlns) items)
def decItemsS (c : SConv) (sc : NsScope) : Items → List (Item J)
  | .nil => []
  | .cdata i v r => .cdata i v :: decItemsS c sc r
  | .child nm s n r => .child nm s (decTreeS c sc n) :: decItemsS c sc r
end

/-- top-down encode: `element_encode` first reads the declarations of the data object and enters their scope
    (jsonml.py:100, dataobjects.py:561, base.py:452), every child is encoded in that scope — whatever its
    earlier siblings declared -/
def encTreeS (c : SConv) (sch : Nat → Option Facts) : Nat → NsScope → Facts → String → J → Except Err Node
  | 0, _, _, _, _ => .error .fuel
  | fuel + 1, sc, f, name, obj => do
      let (hd, its) ← (c.cv (sc.push (c.xmlnsOf obj))).enc f name obj
      let items ← encItems sch (encTreeS c sch fuel (sc.push (c.xmlnsOf obj))) f its
      pure (.mk f hd items)

/-! ### shared pieces -/

/-- `s.startswith(p)` / `s[n:]`, on the character lists (so that the string facts needed are list facts) -/
def hasPrefix (p s : String) : Bool := p.toList.isPrefixOf s.toList
def dropN (n : Nat) (s : String) : String := String.ofList (s.toList.drop n)

def isXmlnsKey (k : String) : Bool := k == "xmlns" || hasPrefix "xmlns:" k

/-- `(f'{ns_prefix}:{k}' if k else ns_prefix, v) for k, v in xmlns` with ns_prefix `pre ++ "xmlns"` -/
def xmlnsEntries (pre : String) (x : List (String × String)) : List (String × J) :=
  x.map fun kv => (if kv.1 == "" then pre ++ "xmlns" else pre ++ "xmlns:" ++ kv.1, .atom "s" kv.2)

/-- cdata parts are re-numbered 1,2,… by the encoders (`cdata_num`); the particle's `single` flag is not
    known on the encode side -/
def renum {α} : Nat → List (Item α) → List (Item α)
  | _, [] => []
  | k, .cdata _ v :: r => .cdata k v :: renum (k + 1) r
  | k, .child nm _ v :: r => .child nm false v :: renum k r

/-! ### JsonML (converters/jsonml.py) -/

namespace JsonML

def xmlnsOfKv (kv : String × J) : Option (String × String) :=
  match kv.2 with
  | .atom _ v =>
    if kv.1 == "xmlns" then some ("", v)
    else if hasPrefix "xmlns:" kv.1 then some (dropN 6 kv.1, v) else none
  | _ => none

/-- get_xmlns_from_data, jsonml.py:50-62 (`rest` = obj[1:]) -/
def xmlnsOf (useNs : Bool) (rest : List J) : List (String × String) :=
  match useNs, rest with
  | true, .dict kvs :: _ => kvs.filterMap xmlnsOfKv
  | _, _ => []

def attrPairs (m : Mapper) (hd : Hd) : List (String × J) := hd.attrs.map fun kv => (m.mpA kv.1, kv.2)

/-- jsonml.py:72-77: `dict(map_attributes(...))` then `.update(xmlns entries)` -/
def decAttrs (m : Mapper) (useNs : Bool) (hd : Hd) : List (String × J) :=
  let a := dictUpdate [] (attrPairs m hd)
  if !hd.xmlns.isEmpty && useNs then dictUpdate a (xmlnsEntries "" hd.xmlns) else a

def header (m : Mapper) (useNs : Bool) (hd : Hd) : List J :=
  if (decAttrs m useNs hd).isEmpty then [] else [.dict (decAttrs m useNs hd)]

def textPart (hd : Hd) : List J := match hd.text with | some t => [t] | none => []

/-- jsonml.py:85-88 -/
def itemJ (m : Mapper) : Item J → J
  | .cdata _ v => v
  | .child nm _ v => if v.isNull then .list [.atom "s" (m.mp nm)] else v

/-- element_decode, jsonml.py:64-90 -/
def dec (m : Mapper) (useNs : Bool) (f : Facts) (hd : Hd) (its : List (Item J)) : J :=
  .list (.atom "s" (m.mp hd.tag) ::
    (header m useNs hd ++ textPart hd ++ (if f.hasGroup then its.map (itemJ m) else [])))

/-- the comprehension of jsonml.py:126-131 -/
def number (m : Mapper) (useNs : Bool) : Nat → List J → Except Err (List (Item J))
  | _, [] => .ok []
  | k, e :: r =>
    match e with
    | .list [] => .error .leak                -- `e[0]` on an empty list: IndexError
    | .list (.atom kd s :: _) =>
        if kd == "s" then do
          let r' ← number m useNs k r
          pure (.child (m.um s) false e :: r')
        else .error .typeErr                  -- unmap_qname of a non-string: XMLSchemaTypeError
    | .list (.dict _ :: _) =>                 -- unmap_qname(dict): `qname[0]` raises KeyError
        if useNs then .error .leak else .error .typeErr
    | .list (_ :: _) => .error .typeErr
    | .elem .. => .error .leak                -- DataElement[0] is a DataElement, not a string
    | e => do
        let r' ← number m useNs (k + 1) r
        pure (.cdata k e :: r')

/-- jsonml.py:108-115 -/
def splitAttrs (m : Mapper) (rest : List J) : List (String × J) × List J :=
  match rest with
  | .dict kvs :: body =>
      (dictUpdate [] ((kvs.filter fun kv => !isXmlnsKey kv.1).map fun kv => (m.umA kv.1, kv.2)), body)
  | _ => ([], rest)

/-- jsonml.py:117-132 -/
def encBody (m : Mapper) (useNs : Bool) (f : Facts) (tag : String) (attributes : List (String × J))
    (xmlns : List (String × String)) (body : List J) : Except Err (Hd × List (Item J)) :=
  match body with
  | [] => .ok ({ tag, text := none, attrs := attributes, xmlns }, [])
  | [t] =>
    if f.simple || (f.emptyContent && f.mixed) then
      .ok ({ tag, text := if t.isNull then none else some t, attrs := attributes, xmlns }, [])
    else do
      let c ← number m useNs 1 body
      pure ({ tag, text := none, attrs := attributes, xmlns }, c)
  | _ => do
      let c ← number m useNs 1 body
      pure ({ tag, text := none, attrs := attributes, xmlns }, c)

/-- element_encode, jsonml.py:92-132 -/
def enc (m : Mapper) (useNs : Bool) (f : Facts) (name : String) (obj : J) : Except Err (Hd × List (Item J)) :=
  match obj with
  | .list [] => .error .valueErr
  | .list (h :: rest) =>
    match h with
    | .atom kd s =>
      if kd == "s" then
        let tag := m.um s
        if tag != name then .error .unmatchedTag else
        match rest with
        | [] => .ok ({ tag, text := none, attrs := [], xmlns := [] }, [])
        | _ => encBody m useNs f tag (splitAttrs m rest).1 (xmlnsOf useNs rest) (splitAttrs m rest).2
      else .error .typeErr
    | .dict _ => if useNs then .error .leak else .error .valueErr   -- unmap_qname(dict): KeyError
    | _ => .error .typeErr
  | .elem .. => .error .leak
  | _ => .error .typeErr

def conv (m : Mapper) (useNs : Bool) : Conv := ⟨dec m useNs, enc m useNs⟩

/-- get_xmlns_from_data of a whole JsonML object (jsonml.py:50-62): the declarations among the keys of `obj[1]` -/
def xmlnsOfObj (useNs : Bool) : J → List (String × String)
  | .list (_ :: rest) => xmlnsOf useNs rest
  | _ => []

/-! `element_encode` un-maps the name of a child *with the declarations that the child carries*
    (`self.unmap_qname(e[0], xmlns=self.get_xmlns_from_data(e))`, jsonml.py:126-131), i.e. in the child's own
    namespace context.  `number`/`encBody`/`enc` above un-map it with the element's mapper, which is the same
    thing as long as no element below the root re-declares a prefix that its own name uses; `numberK`/`encBodyK`/
    `encK` take the un-mapping of a child's name as a function `umK child name` (`numberK_eq`: they coincide
    with the former for `umK := fun _ => m.um`). -/

def numberK (umK : J → String → String) (useNs : Bool) : Nat → List J → Except Err (List (Item J))
  | _, [] => .ok []
  | k, e :: r =>
    match e with
    | .list [] => .error .leak
    | .list (.atom kd s :: _) =>
        if kd == "s" then do
          let r' ← numberK umK useNs k r
          pure (.child (umK e s) false e :: r')
        else .error .typeErr
    | .list (.dict _ :: _) =>
        if useNs then .error .leak else .error .typeErr
    | .list (_ :: _) => .error .typeErr
    | .elem .. => .error .leak
    | e => do
        let r' ← numberK umK useNs (k + 1) r
        pure (.cdata k e :: r')

def encBodyK (umK : J → String → String) (useNs : Bool) (f : Facts) (tag : String) (attributes : List (String × J))
    (xmlns : List (String × String)) (body : List J) : Except Err (Hd × List (Item J)) :=
  match body with
  | [] => .ok ({ tag, text := none, attrs := attributes, xmlns }, [])
  | [t] =>
    if f.simple || (f.emptyContent && f.mixed) then
      .ok ({ tag, text := if t.isNull then none else some t, attrs := attributes, xmlns }, [])
    else do
      let c ← numberK umK useNs 1 body
      pure ({ tag, text := none, attrs := attributes, xmlns }, c)
  | _ => do
      let c ← numberK umK useNs 1 body
      pure ({ tag, text := none, attrs := attributes, xmlns }, c)

/-- element_encode, jsonml.py:92-132, children's names un-mapped by `umK` -/
def encK (m : Mapper) (umK : J → String → String) (useNs : Bool) (f : Facts) (name : String) (obj : J) :
    Except Err (Hd × List (Item J)) :=
  match obj with
  | .list [] => .error .valueErr
  | .list (h :: rest) =>
    match h with
    | .atom kd s =>
      if kd == "s" then
        let tag := m.um s
        if tag != name then .error .unmatchedTag else
        match rest with
        | [] => .ok ({ tag, text := none, attrs := [], xmlns := [] }, [])
        | _ => encBodyK umK useNs f tag (splitAttrs m rest).1 (xmlnsOf useNs rest) (splitAttrs m rest).2
      else .error .typeErr
    | .dict _ => if useNs then .error .leak else .error .valueErr
    | _ => .error .typeErr
  | .elem .. => .error .leak
  | _ => .error .typeErr

/-- JsonML (namespaces processed) with the name mapping `m sc` of the declarations in scope: an element's own
    name and its attribute names are un-mapped in the element's scope, the name of a child in the scope
    extended with the child's declarations -/
def sconv (m : NsScope → Mapper) : SConv :=
  ⟨fun sc => ⟨dec (m sc) true, encK (m sc) (fun e s => (m (sc.push (xmlnsOfObj true e))).um s) true⟩,
   xmlnsOfObj true⟩

end JsonML

end XsVerif.Conv
