import XsVerif.Model.Paths
/-
  C19 — compositional model of the validator's error *locations* (fault-localisation clause) and of the tree
  on which a lazy resource computes `error.path`.   No Mathlib: linked into the native driver `drv_c19`.

  Ported structure (line numbers of /repo as it is now):
    xmlschema/validators/elements.py:597-878   XsdElement.raw_decode: errors created with `obj` (the element
        itself) — abstract/xsi:type/nil/fixed/empty-content/identity errors — or with a text/attribute value, in
        which case `raise_or_collect` (validation.py:216-219) attaches `context.elem`, set to the element at
        elements.py:635.  All of them read the element's own tag, attributes and character data.
    xmlschema/validators/groups.py:953-1087    XsdGroup.raw_decode: one loop over the children; the declaration of
        child `index` is chosen by the model visitor (`model.match_element(child.tag)`), or by the model-less
        `self.match_element(child.tag)` once the model is broken; the child is validated recursively with
        `xsd_element.raw_decode(child, …)`; the content-model errors `(index, particle, occurs, expected)` are
        collected and reported *after* the loop with `elem=obj` (the parent) (groups.py:1074-1078).
  Hence, for an element governed by declaration `d`:
      errors(d, e) =   pre d (tag, attributes, text of e) (names of the children of e)      -- located at e
                    ++ for every child j in order: errors(gov d (attributes of e) (names of the children) j, child j)
                    ++ post d (tag, attributes, text of e) (names of the children of e)     -- located at e
  `gov … = none`: the child is not descended (no declaration matches, skipped wildcard content).
  Errors that depend on document-wide tables (ID/IDREF, identity constraints, assertions over descendants) are
  outside this shape: they are excluded by the schema family of the correspondence run (harness ASSUMPTIONS).
-/
namespace XsVerif.Localise

abbrev Attrs := List (String × String)

/-- an element: expanded tag, attributes, its own character data (text and the tails of its children), children -/
inductive Doc where
  | node (tag : String) (attrs : Attrs) (text : String) (kids : List Doc)
  deriving Repr, Inhabited

namespace Doc
def tag : Doc → String | node t _ _ _ => t
def attrs : Doc → Attrs | node _ a _ _ => a
def text : Doc → String | node _ _ x _ => x
def kids : Doc → List Doc | node _ _ _ c => c
end Doc

def names (cs : List Doc) : List String := cs.map Doc.tag

/-- The element validator seen from outside.  `pre`/`post`: the errors the element owns, emitted before / after
    its children are visited; `gov`: the declaration against which child `j` is validated, chosen from the parent's
    declaration, the parent's attributes (xsi:type selects the content model) and the names of the children. -/
structure Val (D E : Type) where
  pre  : D → String → Attrs → String → List String → List E
  post : D → String → Attrs → String → List String → List E
  gov  : D → Attrs → List String → Nat → Option D

variable {D E : Type}

/-- an error with the position (child-index path from the validated element) of the element it is located at -/
abbrev Located (E : Type) := List Nat × E

def here (l : List E) : List (Located E) := l.map fun e => ([], e)
def under (j : Nat) (l : List (Located E)) : List (Located E) := l.map fun e => (j :: e.1, e.2)
def below (p : List Nat) (l : List (Located E)) : List (Located E) := l.map fun e => (p ++ e.1, e.2)

/- the errors of a run, in the order in which `iter_errors` yields them -/
mutual
def errs (v : Val D E) (d : D) : Doc → List (Located E)
  | .node tg a tx cs =>
      here (v.pre d tg a tx (names cs)) ++ errsKids v d a (names cs) 0 cs ++ here (v.post d tg a tx (names cs))
def errsKids (v : Val D E) (d : D) (a : Attrs) (ns : List String) (j : Nat) : List Doc → List (Located E)
  | [] => []
  | c :: cs =>
      (match v.gov d a ns j with
       | some d' => under j (errs v d' c)
       | none => [])
      ++ errsKids v d a ns (j + 1) cs
end

/-- what the element at `p` is validated against: its governing declaration (through the `gov` chain) and the
    element; `none`: no such element, or the run does not descend to it -/
def reach (v : Val D E) : D → Doc → List Nat → Option (D × Doc)
  | d, t, [] => some (d, t)
  | d, .node _ a _ cs, i :: is =>
    match cs[i]?, v.gov d a (names cs) i with
    | some c, some d' => reach v d' c is
    | _, _ => none

/-- the element's own errors -/
def own (v : Val D E) (d : D) (tg : String) (a : Attrs) (tx : String) (ns : List String) : List E :=
  v.pre d tg a tx ns ++ v.post d tg a tx ns

/-! ## single-node edits -/

/-- replace the subtree at position `p` by `f` of it (the document is unchanged when `p` is not a position) -/
def editAt (f : Doc → Doc) : Doc → List Nat → Doc
  | t, [] => f t
  | .node tg a tx cs, i :: is =>
    .node tg a tx (match cs[i]? with
                   | some c => cs.set i (editAt f c is)
                   | none => cs)

def setLabel (a : Attrs) (tx : String) : Doc → Doc
  | .node tg _ _ cs => .node tg a tx cs

def setKids (g : List Doc → List Doc) : Doc → Doc
  | .node tg a tx cs => .node tg a tx (g cs)

def insertAt (i : Nat) (c : Doc) (cs : List Doc) : List Doc := cs.take i ++ c :: cs.drop i

/-- child `i` taken out and put back at index `j` of the remaining children -/
def moveTo (i j : Nat) (cs : List Doc) : List Doc :=
  match cs[i]? with
  | some c => insertAt j c (cs.eraseIdx i)
  | none => cs

/-- the fault catalogue of the property: a bad value / a bad, missing or extra attribute (`relabel`), an extra
    child (`insert`), a missing child (`remove`), a misplaced child (`move`) -/
inductive Fault where
  | relabel (p : List Nat) (a : Attrs) (tx : String)
  | insert (q : List Nat) (i : Nat) (c : Doc)
  | remove (q : List Nat) (i : Nat)
  | move (q : List Nat) (i j : Nat)
  deriving Repr

def Fault.apply : Fault → Doc → Doc
  | .relabel p a tx, t => editAt (setLabel a tx) t p
  | .insert q i c, t => editAt (setKids (insertAt i c)) t q
  | .remove q i, t => editAt (setKids (fun cs => cs.eraseIdx i)) t q
  | .move q i j, t => editAt (setKids (moveTo i j)) t q

/-- the element whose own input (label or list of child names) the fault changes -/
def Fault.site : Fault → List Nat
  | .relabel p _ _ => p
  | .insert q _ _ => q
  | .remove q _ => q
  | .move q _ _ => q

/-- the damaged node in the sense of the property: the relabelled element, the extra child, the element that
    lost a child, the misplaced child at its new place -/
def Fault.damaged : Fault → List Nat
  | .relabel p _ _ => p
  | .insert q i _ => q ++ [i]
  | .remove q _ => q
  | .move q _ j => q ++ [j]

/-- "in the damaged node's ancestor chain or subtree" -/
def inZone (damaged p : List Nat) : Bool := p.isPrefixOf damaged || damaged.isPrefixOf p

/-- "at the damaged node or its parent" -/
def near (damaged p : List Nat) : Bool := p == damaged || p == damaged.dropLast

/-! ## the table-driven validator of the correspondence run

  The harness observes, on the real code, the declaration used for every element (`validation_hook`) and the
  errors located at every element; the first observation of a key defines a row.  `tableVal` is the `Val` these
  tables denote: own errors looked up by (declaration, tag, attributes, text, names of the children), the
  declaration of a child looked up by (declaration of the parent, name of the child). -/

structure OwnRow where
  d : Nat
  tag : String
  attrs : Attrs
  text : String
  names : List String
  pre : List String
  post : List String
  deriving Repr

structure GovRow where
  d : Nat
  name : String
  d' : Option Nat
  deriving Repr

def lookupOwn (tab : List OwnRow) (d : Nat) (tg : String) (a : Attrs) (tx : String) (ns : List String) :
    Option OwnRow :=
  tab.find? fun r => r.d == d && r.tag == tg && r.attrs == a && r.text == tx && r.names == ns

def lookupGov (tab : List GovRow) (d : Nat) (x : String) : Option Nat :=
  match tab.find? fun r => r.d == d && r.name == x with
  | some r => r.d'
  | none => none

def tableVal (own : List OwnRow) (gov : List GovRow) : Val Nat String where
  pre := fun d tg a tx ns => match lookupOwn own d tg a tx ns with
    | some r => r.pre
    | none => ["?no-row"]
  post := fun d tg a tx ns => match lookupOwn own d tg a tx ns with
    | some r => r.post
    | none => []
  gov := fun d _ ns j => match ns[j]? with
    | some x => lookupGov gov d x
    | none => none

/-- (H-eff) as a computation: the site is governed and its own check rejects the damaged input -/
def effectiveB (v : Val D E) (d : D) (t : Doc) : Fault → Bool
  | .relabel p a' tx' => match reach v d t p with
    | some (dp, .node tg _ _ cs) => !(own v dp tg a' tx' (names cs)).isEmpty
    | none => false
  | .insert q i c => match reach v d t q with
    | some (dq, .node tg a tx cs) => decide (i ≤ cs.length) && !(own v dq tg a tx (names (insertAt i c cs))).isEmpty
    | none => false
  | .remove q i => match reach v d t q with
    | some (dq, .node tg a tx cs) => !(own v dq tg a tx (names (cs.eraseIdx i))).isEmpty
    | none => false
  | .move q i j => match reach v d t q with
    | some (dq, .node tg a tx cs) => decide (i < cs.length) && !(own v dq tg a tx (names (moveTo i j cs))).isEmpty
    | none => false

/-! ## tie with the path model -/

/- the tree of (rendered) tags on which `etree_getpath` works; `r` = how a tag is written into the path -/
mutual
def toT (r : String → String) : Doc → XsVerif.Paths.T
  | .node tg _ _ cs => .node (r tg) (toTs r cs)
def toTs (r : String → String) : List Doc → List XsVerif.Paths.T
  | [] => []
  | c :: cs => toT r c :: toTs r cs
end

/-! ## lazy resources: the tree on which `error.path` is computed

  validators/exceptions.py:103-112: for a lazy resource the path is computed when `error.elem` is assigned, with
  `etree_getpath(elem, source.root, …)` on the tree as it is *at that moment*:
    * elements at the lazy depth that were already yielded have lost their children (`_clear`: `del elem[:]`,
      resources/xml_loader.py:352-361; mode 4 of `iter_depth` is not thin: they stay in their parents);
    * elements whose start tag the parser has not read yet do not exist (ElementTree.iterparse reads the source in
      blocks: the tree contains a *prefix in document order* of the elements, at least up to the one being
      validated).
  `lazyState k done n t`: keep the first `n` elements of `t` in document order and cut the children of the first
  `done` elements at depth `k`. -/

/- `started n t` — keep the first `n` elements in document order; returns the remaining budget -/
mutual
def started : Nat → XsVerif.Paths.T → Option XsVerif.Paths.T × Nat
  | 0, _ => (none, 0)
  | n + 1, .node tg cs =>
    let r := startedF n cs
    (some (.node tg r.1), r.2)
def startedF : Nat → List XsVerif.Paths.T → List XsVerif.Paths.T × Nat
  | n, [] => ([], n)
  | n, c :: cs =>
    match started n c with
    | (none, _) => ([], 0)
    | (some c', m) =>
      let r := startedF m cs
      (c' :: r.1, r.2)
end

/- `cleared k done t` — the first `done` elements at depth `k` (document order) lose their children; returns the
   number still to clear -/
mutual
def cleared : Nat → Nat → XsVerif.Paths.T → XsVerif.Paths.T × Nat
  | k, done, .node tg cs =>
    match k with
    | 0 => if done = 0 then (.node tg cs, 0) else (.node tg [], done - 1)
    | k + 1 =>
      let r := clearedF k done cs
      (.node tg r.1, r.2)
def clearedF : Nat → Nat → List XsVerif.Paths.T → List XsVerif.Paths.T × Nat
  | _, done, [] => ([], done)
  | k, done, c :: cs =>
    let r1 := cleared k done c
    let r2 := clearedF k r1.2 cs
    (r1.1 :: r2.1, r2.2)
end

/-- the tree a lazy resource holds when `done` elements at the lazy depth `k` have been yielded and cleared and
    `n` elements (of what remains) have been started by the parser -/
def lazyState (k done n : Nat) (t : XsVerif.Paths.T) : Option XsVerif.Paths.T :=
  (started n (cleared k done t).1).1

/- `t'` is `t` with some child lists cut to a prefix (anywhere in the tree) -/
mutual
def pre : XsVerif.Paths.T → XsVerif.Paths.T → Bool
  | .node tg' cs', .node tg cs => tg' == tg && preF cs' cs
def preF : List XsVerif.Paths.T → List XsVerif.Paths.T → Bool
  | [], _ => true
  | _ :: _, [] => false
  | c' :: cs', c :: cs => pre c' c && preF cs' cs
end

/-- along the position, every level of `t'` has the same children names as `t` (nothing relevant is missing) -/
def completeAlong : XsVerif.Paths.T → XsVerif.Paths.T → List Nat → Bool
  | _, _, [] => true
  | .node _ cs', .node _ cs, i :: is =>
    (cs'.map XsVerif.Paths.T.tag == cs.map XsVerif.Paths.T.tag) &&
    (match cs'[i]?, cs[i]? with
     | some c', some c => completeAlong c' c is
     | _, _ => false)

end XsVerif.Localise
