/-
  C06 / C20 — documents as rose trees, parser events, the lazy loader's namespace bookkeeping,
  the lazy iteration loops and the lazy validation driver as a function of an abstract
  compositional validator.   No Mathlib.

  Ported code (line numbers of /repo at the pinned commit + fix commits):
    xmlschema/resources/xml_loader.py:220-283   _lazy_iterparse   (namespace stack: `nsStep true`)
    xmlschema/resources/xml_loader.py:285-333   _parse            (namespace stack: `parseStep`; since commit
                                                                   6d25df9 its 'end' branch pops too)
    xmlschema/resources/xml_resource.py:542-586 iter              (lazy branch)
    xmlschema/resources/xml_resource.py:596-662 iter_depth        (modes 1..5, ancestors tracking)
    xmlschema/resources/xml_resource.py:664-729 iterfind          (level logic, select_all paths)
    xmlschema/validators/schemas.py:1285-1401   iter_errors       (loop over iter_depth(mode=4) / get_element /
                                                                   skip rule / the chunk's own xmlns declarations
                                                                   pushed (1374-1377, commit c3a1309) / root with
                                                                   max_depth = lazy depth / merge of the identity
                                                                   counters (1392-1399, commit 851aaad))
    xmlschema/validators/groups.py:993,1042-1056 max_depth cut
-/
namespace XsVerif.Lazy

/-- An element: preorder id, tag, namespace declarations `(prefix, uri)` written on it, children. -/
inductive Tree where
  | node (id : Nat) (tag : String) (decls : List (String × String)) (cs : List Tree)
  deriving Repr, Inhabited

namespace Tree
def id : Tree → Nat | node i _ _ _ => i
def tag : Tree → String | node _ t _ _ => t
def decls : Tree → List (String × String) | node _ _ d _ => d
def cs : Tree → List Tree | node _ _ _ c => c
end Tree

/-! ## 1. parser events (what `iterparse(events=('start-ns','end-ns','start','end'))` delivers) -/

inductive Ev where
  | startNs (p u : String)
  | start (id : Nat) (tag : String)
  | stop (id : Nat) (tag : String)
  | endNs
  deriving Repr, DecidableEq

mutual
def events : Tree → List Ev
  | .node i t ds cs =>
      ds.map (fun d => Ev.startNs d.1 d.2) ++ [Ev.start i t] ++ eventsF cs ++ [Ev.stop i t]
        ++ ds.map (fun _ => Ev.endNs)
def eventsF : List Tree → List Ev
  | [] => []
  | t :: ts => events t ++ eventsF ts
end

/-! ## 2. namespace-map bookkeeping -/

abbrev NsMap := List (String × String)

/-- `dict.update` with one pair: replace the value of an existing key (position kept), else append. -/
def upd : NsMap → String × String → NsMap
  | [], d => [d]
  | (k, v) :: m, d => if k == d.1 then (k, d.2) :: m else (k, v) :: upd m d

def updAll (m : NsMap) (ds : List (String × String)) : NsMap := ds.foldl upd m

/-- State of the loops in `_lazy_iterparse` / `_parse`:
    `stack` (head = `nsmap_stack[-1]`), `pending` = `start_ns`, `endNs` = `end_ns`,
    `out` = the `_nsmaps` assignments in order, `fail` = an IndexError would have been raised. -/
structure NsSt where
  stack : List NsMap
  pending : List (String × String)
  endNs : Bool
  out : List (Nat × NsMap)
  fail : Bool
  deriving Repr

def NsSt.init : NsSt := ⟨[[]], [], false, [], false⟩

/-- `if end_ns: nsmap_stack.pop(); end_ns = False` -/
def popIf (s : NsSt) : NsSt :=
  if s.endNs then
    match s.stack with
    | _ :: rest => { s with stack := rest, endNs := false }
    | [] => { s with fail := true, endNs := false }
  else s

/-- the 'start' branch after the pop: push a copy updated with the pending declarations (only when there
    are some) and record `nsmap_stack[-1]` for the node -/
def pushRecord (s : NsSt) (i : Nat) : NsSt :=
  match s.stack with
  | [] => { s with fail := true }
  | top :: rest =>
    if s.pending.isEmpty then { s with out := s.out ++ [(i, top)] }
    else
      let m := updAll top s.pending
      { s with stack := m :: top :: rest, pending := [], out := s.out ++ [(i, m)] }

/-- One parser event.  `popAtEnd = true`: `_lazy_iterparse` (xml_loader.py:264-268 pops in the 'end' branch).
    `popAtEnd = false` is NOT a loop of the current code: it is `_parse` as it was before commit 6d25df9 (no pop
    in the 'end' branch); the driver prints it only so that a recurrence of that defect is named in the replay. -/
def nsStep (popAtEnd : Bool) (s : NsSt) : Ev → NsSt
  | .startNs p u => { s with pending := s.pending ++ [(p, u)] }
  | .endNs => { s with endNs := true }
  | .start i _ => pushRecord (popIf s) i
  | .stop _ _ => if popAtEnd then popIf s else s

def nsRun (popAtEnd : Bool) (s : NsSt) (evs : List Ev) : NsSt := evs.foldl (nsStep popAtEnd) s

/- S: the in-scope namespaces of every element = declarations of its ancestors-or-self, inner wins. -/
mutual
def inScope (ctx : NsMap) : Tree → List (Nat × NsMap)
  | .node i _ ds cs => (i, updAll ctx ds) :: inScopeF (updAll ctx ds) cs
def inScopeF (ctx : NsMap) : List Tree → List (Nat × NsMap)
  | [] => []
  | t :: ts => inScope ctx t ++ inScopeF ctx ts
end

/-- The eager loop `_parse` (xml_loader.py:285-333) as it is now, ported branch by branch:
    'start' (312-320): pending pop, push a copy for the pending declarations, record;
    'start-ns' (321-322); 'end-ns' (323-324); 'end' (325-330): pending pop (added by commit 6d25df9). -/
def parseStep (s : NsSt) : Ev → NsSt
  | .start i _ => pushRecord (popIf s) i
  | .startNs p u => { s with pending := s.pending ++ [(p, u)] }
  | .endNs => { s with endNs := true }
  | .stop _ _ => popIf s

/-- namespace maps assigned by the lazy loader / the eager loader to the elements of `t` -/
def lazyNsmaps (t : Tree) : Option (List (Nat × NsMap)) :=
  let s := nsRun true NsSt.init (events t)
  if s.fail then none else some s.out

def eagerNsmaps (t : Tree) : Option (List (Nat × NsMap)) :=
  let s := (events t).foldl parseStep NsSt.init
  if s.fail then none else some s.out

/-- `_parse` before commit 6d25df9 (finding C06-F4, fixed): diagnostic only, see `nsStep`. -/
def unpoppedNsmaps (t : Tree) : Option (List (Nat × NsMap)) :=
  let s := nsRun false NsSt.init (events t)
  if s.fail then none else some s.out

/-! ## 3. lazy iteration loops (only 'start' / 'end' events reach them) -/

inductive Kind where
  | incomplete | full | sub
  deriving Repr, DecidableEq

/-- `iter` (xml_resource.py:555-586): `level`, the deque `subtree_elements` (head = left end), yields. -/
structure ItSt where
  level : Nat
  deq : List Nat
  out : List (Nat × Kind)
  deriving Repr

/-- `sel` = `tag == '*' or node.tag == tag`.  Levels never go below 0 on the event stream of a tree. -/
def iterStep (d : Nat) (sel : String → Bool) (s : ItSt) : Ev → ItSt
  | .start i t =>
      { s with level := s.level + 1,
               out := if s.level < d && sel t then s.out ++ [(i, Kind.incomplete)] else s.out }
  | .stop i t =>
      let lv := s.level - 1
      if lv < d then { s with level := lv }
      else if d < lv then { s with level := lv, deq := if sel t then i :: s.deq else s.deq }
      else { level := lv, deq := [],
             out := s.out ++ (if sel t then [(i, Kind.full)] else []) ++ s.deq.map (fun j => (j, Kind.sub)) }
  | _ => s

def iterRun (d : Nat) (sel : String → Bool) (t : Tree) : List (Nat × Kind) :=
  ((events t).foldl (iterStep d sel) ⟨0, [], []⟩).out

/-- `iter_depth` (xml_resource.py:618-662) with ancestors tracking; yields (element, copy of `ancestors`). -/
structure IdSt where
  level : Nat
  anc : List Nat
  out : List (Nat × List Nat)
  deriving Repr

def idStep (mode d : Nat) (s : IdSt) : Ev → IdSt
  | .start i _ =>
      let out := if s.level == 0 && mode == 5 then s.out ++ [(i, s.anc)] else s.out
      { level := s.level + 1, anc := if s.level < d then s.anc ++ [i] else s.anc, out := out }
  | .stop i _ =>
      let lv := s.level - 1
      if lv == 0 then { s with level := lv, out := if mode > 2 then s.out ++ [(i, s.anc)] else s.out }
      else if lv != d then { s with level := lv, anc := if lv < d then s.anc.dropLast else s.anc }
      else { s with level := lv, out := if mode != 3 then s.out ++ [(i, s.anc)] else s.out }
  | _ => s

def iterDepthRun (mode d : Nat) (t : Tree) : List (Nat × List Nat) :=
  ((events t).foldl (idStep mode d) ⟨0, [], []⟩).out

/-- `iterfind` level logic for a `select_all` path of depth `pd ≥ lazy depth` (xml_resource.py:711-729). -/
def ifStep (pd : Nat) (s : IdSt) : Ev → IdSt
  | .start i _ => { s with level := s.level + 1, anc := if s.level < pd then s.anc ++ [i] else s.anc }
  | .stop i _ =>
      let lv := s.level - 1
      if lv < pd then { s with level := lv, anc := s.anc.dropLast }
      else if lv == pd then { s with level := lv, out := s.out ++ [(i, s.anc)] }
      else { s with level := lv }
  | _ => s

def iterfindRun (pd : Nat) (t : Tree) : List (Nat × List Nat) :=
  ((events t).foldl (ifStep pd) ⟨0, [], []⟩).out

/- S: elements at relative depth `k` in document order, each with its chain of ancestors. -/
mutual
def chunksAt (k : Nat) (anc : List Nat) : Tree → List (Nat × List Nat)
  | .node i _ _ cs => match k with
    | 0 => [(i, anc)]
    | k + 1 => chunksAtF k (anc ++ [i]) cs
def chunksAtF (k : Nat) (anc : List Nat) : List Tree → List (Nat × List Nat)
  | [] => []
  | t :: ts => chunksAt k anc t ++ chunksAtF k anc ts
end

/- preorder / reversed post-order of ids -/
mutual
def preorder : Tree → List Nat
  | .node i _ _ cs => i :: preorderF cs
def preorderF : List Tree → List Nat
  | [] => []
  | t :: ts => preorder t ++ preorderF ts
end

mutual
def postorder : Tree → List Nat
  | .node i _ _ cs => postorderF cs ++ [i]
def postorderF : List Tree → List Nat
  | [] => []
  | t :: ts => postorder t ++ postorderF ts
end

/- S: the order in which lazy `iter` (no tag filter) yields the elements of a tree whose root is at
    `lvl ≤ d`: above the lazy depth in document order as "incomplete" elements; an element at the lazy
    depth as a full element followed by its descendants in *reversed post-order*. -/
mutual
def lazyOrder (d lvl : Nat) : Tree → List (Nat × Kind)
  | .node i _ _ cs =>
      if lvl < d then (i, Kind.incomplete) :: lazyOrderF d (lvl + 1) cs
      else (i, Kind.full) :: (postorderF cs).reverse.map (fun j => (j, Kind.sub))
def lazyOrderF (d lvl : Nat) : List Tree → List (Nat × Kind)
  | [] => []
  | t :: ts => lazyOrder d lvl t ++ lazyOrderF d lvl ts
end

/-! ## 4. abstract compositional validator, depth cut, lazy validation driver -/

/-- The element validator seen from outside (elements.py:596-878 + groups.py:950-1085):
    validating element `t` against declaration `d` emits its own errors in `slot j` (before child `j`;
    slot `n` = after the last child: content-model errors, identity errors) and validates child `j`
    against `gov d t j` (`none`: not descended — skipped wildcard content, unknown child). -/
structure Val (D E : Type) where
  seg : D → Tree → Nat → List E
  gov : D → Tree → Nat → Option D

variable {D E : Type}

/- Errors of the eager run, each tagged with the position path of the element that owns it. -/
mutual
def eagerT (v : Val D E) (pos : List Nat) (d : D) : Tree → List (List Nat × E)
  | .node i t ds cs => eagerKids v pos d (.node i t ds cs) 0 cs
def eagerKids (v : Val D E) (pos : List Nat) (d : D) (parent : Tree) (j : Nat) :
    List Tree → List (List Nat × E)
  | [] => (v.seg d parent j).map (fun e => (pos, e))
  | c :: cs =>
      (v.seg d parent j).map (fun e => (pos, e))
      ++ (match v.gov d parent j with
          | some d' => eagerT v (pos ++ [j]) d' c
          | none => [])
      ++ eagerKids v pos d parent (j + 1) cs
end

/- The run with `max_depth = k` (groups.py:993: children are not descended when `max_depth <= level`):
    `k` levels are validated (`k = 0` behaves like 1 for decoding/validation). -/
mutual
def cutT (v : Val D E) (k : Nat) (pos : List Nat) (d : D) : Tree → List (List Nat × E)
  | .node i t ds cs => cutKids v k pos d (.node i t ds cs) 0 cs
def cutKids (v : Val D E) (k : Nat) (pos : List Nat) (d : D) (parent : Tree) (j : Nat) :
    List Tree → List (List Nat × E)
  | [] => (v.seg d parent j).map (fun e => (pos, e))
  | c :: cs =>
      (v.seg d parent j).map (fun e => (pos, e))
      ++ (if 1 < k then
            match v.gov d parent j with
            | some d' => cutT v (k - 1) (pos ++ [j]) d' c
            | none => []
          else [])
      ++ cutKids v k pos d parent (j + 1) cs
end

/- The elements at relative depth `k` (the chunks) in document order, each with its position path and the
   declaration that governs it in the eager run (reached through the `gov` chain; `none` = the eager run
   does not validate it). -/
mutual
def chunkPairs (v : Val D E) (k : Nat) (pos : List Nat) (d : Option D) :
    Tree → List (List Nat × Option D × Tree)
  | .node i t ds cs => match k with
    | 0 => [(pos, d, .node i t ds cs)]
    | k + 1 => chunkPairsF v k pos d (.node i t ds cs) 0 cs
def chunkPairsF (v : Val D E) (k : Nat) (pos : List Nat) (d : Option D) (parent : Tree) (j : Nat) :
    List Tree → List (List Nat × Option D × Tree)
  | [] => []
  | c :: cs =>
      chunkPairs v k (pos ++ [j]) (d.bind fun d0 => v.gov d0 parent j) c
      ++ chunkPairsF v k pos d parent (j + 1) cs
end

/-- Errors of the chunks, each validated against the declaration chosen by `pick`. -/
def chunkErrs (v : Val D E) (pick : Option D → Tree → Option D) (k : Nat) (pos : List Nat)
    (d : Option D) (t : Tree) : List (List Nat × E) :=
  (chunkPairs v k pos d t).flatMap fun p =>
    match pick p.2.1 p.2.2 with
    | some d' => eagerT v p.1 d' p.2.2
    | none => []

/-- What the lazy driver does with a chunk (schemas.py:1364-1372): the declaration is looked up
    *statically* (`get_element(tag, '/root/*…')`); without a match an element carrying xsi:type is
    validated against a freshly created xs:anyType element, any other chunk is skipped.
    The chunk is then validated by the same `XsdElement.raw_decode` as in the eager run and — since commit
    c3a1309 (schemas.py:1374-1377) — with its own namespace declarations in scope, as in the eager run where
    the parent group pushes them: this is what allows one `Val` for both runs. -/
def lazyPick (static created : Tree → Option D) : Option D → Tree → Option D :=
  fun _ c => match static c with
    | some d => some d
    | none => created c

/-- The governing declaration (what the eager run uses). -/
def govPick : Option D → Tree → Option D := fun d _ => d

/-- Lazy validation at lazy depth `k ≥ 1` (schemas.py:1334-1401): chunks in document order (selector
    `iter_depth(mode=4)`), then the pruned root with `max_depth = k`, then `_validate_references`
    (IDREFs first, then the key references that are still enabled: those of the root, which the
    depth-limited root run does not check itself, elements.py:854-866). -/
def lazyErrors (v : Val D E) (static created : Tree → Option D) (k : Nat) (d : D) (t : Tree)
    (krefs idrefs : List E) : List E :=
  ((chunkErrs v (lazyPick static created) k [] (some d) t).map Prod.snd)
  ++ ((cutT v k [] d t).map Prod.snd) ++ idrefs ++ krefs

/-- Eager validation: the whole tree; the root's key references are checked at the end of the root's
    own validation, unresolved IDREFs afterwards (`_validate_references`). -/
def eagerErrors (v : Val D E) (d : D) (t : Tree) (krefs idrefs : List E) : List E :=
  ((eagerT v [] d t).map Prod.snd) ++ krefs ++ idrefs

/-! ## 5. decoded data with a depth cut (groups.py:1051-1056) -/

/-- decoded data: own part + children data; `hole` = the value produced by `depth_filler`;
    children without governing declaration produce nothing. -/
inductive Data (A : Type) where
  | elem (own : A) (kids : List (Data A))
  | hole
  deriving Repr

structure Dec (D A : Type) where
  own : D → Tree → A
  gov : D → Tree → Nat → Option D

variable {A : Type}

mutual
def decode (v : Dec D A) (d : D) : Tree → Data A
  | .node i t ds cs => .elem (v.own d (.node i t ds cs)) (decodeKids v d (.node i t ds cs) 0 cs)
def decodeKids (v : Dec D A) (d : D) (parent : Tree) (j : Nat) : List Tree → List (Data A)
  | [] => []
  | c :: cs =>
      (match v.gov d parent j with
       | some d' => [decode v d' c]
       | none => [])
      ++ decodeKids v d parent (j + 1) cs
end

mutual
def decodeCut (v : Dec D A) (k : Nat) (d : D) : Tree → Data A
  | .node i t ds cs => .elem (v.own d (.node i t ds cs)) (decodeCutKids v k d (.node i t ds cs) 0 cs)
def decodeCutKids (v : Dec D A) (k : Nat) (d : D) (parent : Tree) (j : Nat) : List Tree → List (Data A)
  | [] => []
  | c :: cs =>
      (match v.gov d parent j with
       | some d' => [if 1 < k then decodeCut v (k - 1) d' c else Data.hole]
       | none => [])
      ++ decodeCutKids v k d parent (j + 1) cs
end

/- keep `k` levels of a decoded value, replacing what is below by holes -/
mutual
def prune : Nat → Data A → Data A
  | _, .hole => .hole
  | k, .elem a kids => .elem a (pruneKids k kids)
def pruneKids : Nat → List (Data A) → List (Data A)
  | _, [] => []
  | k, x :: xs => (if 1 < k then prune (k - 1) x else Data.hole) :: pruneKids k xs
end

end XsVerif.Lazy
