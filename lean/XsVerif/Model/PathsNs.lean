import XsVerif.Model.Paths
/-
  Error paths with namespaces (C19): the path of a validation error is computed on the tree of EXPANDED names
  (`etree_getpath`, xmlschema/utils/etree.py:75-121: `c.tag == child.tag` compares `{uri}local` tags), each step
  name is then written with a namespace map `m` (`get_prefixed_qname(child.tag, namespaces)`, the map the error
  carries when `error.path` is first read, validators/exceptions.py:171-182), and a user reads the text back with
  a map `m'` (`error.namespaces` at the moment of reading) and evaluates it on the document.

  `Model/Paths.lean` models the same algorithm on already rendered tags; here rendering and reading are part of
  the model, so that "the path was written with another map than the one the error carries" is expressible.

  No Mathlib import: linked into the native driver `drv_c19`.
-/
namespace XsVerif.PathsNs
open XsVerif.NsMapper XsVerif.Paths

/-- a document with expanded names -/
inductive QT where
  | node (q : QN) (children : List QT)
  deriving Repr

def QT.q : QT → QN | .node q _ => q
def QT.children : QT → List QT | .node _ c => c

/-- one step with an expanded name -/
structure QStep where
  name : QN
  pos : Option Nat
  deriving Repr, DecidableEq

/-- one step as written in the path text -/
structure RStep where
  name : PName
  pos : Option Nat
  deriving Repr, DecidableEq

/-- indices (from offset `k`) of the children with expanded name `name` -/
def idxOf (name : QN) : List QT → Nat → List Nat
  | [], _ => []
  | c :: cs, k => if c.q = name then k :: idxOf name cs (k + 1) else idxOf name cs (k + 1)

/-- etree.py:106-119 on expanded tags (see `Paths.stepFor`) -/
def stepFor (siblings : List QT) (i : Nat) : Option QStep :=
  match siblings[i]? with
  | none => none
  | some c =>
    let before := (idxOf c.q (siblings.take i) 0).length
    let total := (idxOf c.q siblings 0).length
    some (if total = 1 then ⟨c.q, none⟩ else ⟨c.q, some (before + 1)⟩)

def getSteps : QT → List Nat → Option (List QStep)
  | _, [] => some []
  | .node _ ch, i :: is =>
    match stepFor ch i, ch[i]? with
    | some s, some c => (getSteps c is).map (s :: ·)
    | _, _ => none

def getPath (t : QT) (pos : List Nat) : Option (QN × List QStep) :=
  (getSteps t pos).map fun s => (t.q, s)

/-- XPath `child::name` / `child::name[k]` with an expanded name test -/
def selectStep (children : List QT) (s : QStep) : List Nat :=
  match s.pos with
  | none => idxOf s.name children 0
  | some k =>
    if k = 0 then []
    else match (idxOf s.name children 0)[k - 1]? with
      | some j => [j]
      | none => []

def select : QT → List QStep → List (List Nat)
  | _, [] => [[]]
  | .node _ ch, s :: rest =>
    (selectStep ch s).flatMap fun j =>
      match ch[j]? with
      | some c => (select c rest).map (j :: ·)
      | none => []

def selectAbs (t : QT) (p : QN × List QStep) : List (List Nat) :=
  if p.1 = t.q then select t p.2 else []

/-- the path text: every step name written with the map `m` (`renderName` = `get_prefixed_qname`) -/
def renderPath (m : Map) (p : QN × List QStep) : PName × List RStep :=
  (renderName m p.1, p.2.map fun s => ⟨renderName m s.name, s.pos⟩)

/-- how a reader resolves a step name with the map `m'` (XPath 2.0, default element namespace = the map's empty
    prefix: `XMLResource.find` / elementpath; ElementTree's `findall(path, namespaces)` reads the same way).
    `none` = the name cannot be resolved (undeclared prefix: err:XPST0081). -/
def readName (m' : Map) : PName → Option QN
  | .braced u l => some ⟨u, l⟩
  | .pre p l => match m'.get p with
    | some u => if u = "" then none else some ⟨u, l⟩
    | none => none
  | .loc l => match m'.get "" with
    | some d => some ⟨d, l⟩
    | none => some ⟨"", l⟩

def readSteps (m' : Map) : List RStep → Option (List QStep)
  | [] => some []
  | s :: rest =>
    match readName m' s.name, readSteps m' rest with
    | some q, some qs => some (⟨q, s.pos⟩ :: qs)
    | _, _ => none

def readPath (m' : Map) (p : PName × List RStep) : Option (QN × List QStep) :=
  match readName m' p.1, readSteps m' p.2 with
  | some r, some ss => some (r, ss)
  | _, _ => none

/-- what the user gets: `none` = the path cannot be read with the map, `some l` = the selected positions -/
def userSelect (m' : Map) (t : QT) (p : PName × List RStep) : Option (List (List Nat)) :=
  (readPath m' p).map (selectAbs t)

/-- the whole pipeline for the element at `pos`: written with `m`, read with `m'` -/
def errorPathSelects (m m' : Map) (t : QT) (pos : List Nat) : Option (List (List Nat)) :=
  match getPath t pos with
  | none => none
  | some p => userSelect m' t (renderPath m p)

end XsVerif.PathsNs
