/-
  C06 — the partially built tree of a lazy resource: ElementTree's tree builder under `_lazy_iterparse`, the
  pruning `_clear` (thin and not thin), the size of `_nsmaps`, the loop `iter_depth` with what it yields AT THE
  MOMENT it yields it (the complete element, the siblings that are still in the tree before it), and `XMLResource.iter`
  as repaired by notes/fixes/C06-iter-document-order.patch (`yield from node.iter(tag)`).   No Mathlib.

  Ported code (/repo as it is now):
    xmlschema/resources/xml_loader.py:220-283   _lazy_iterparse  (`self._nsmaps[node] = …` at every 'start')
    xmlschema/resources/xml_loader.py:334-364   _clear           (`TB.clear`)
    xmlschema/resources/xml_resource.py:596-662 iter_depth       (`ldStep`; ancestors themselves: `idStep` in Model/Lazy)
    xmlschema/resources/xml_resource.py:542-586 iter             (`liStep`: the repaired loop; the loop as it is in
                                                                  /repo is `iterStep` in Model/Lazy)
  Abstraction (stated, tied by the correspondence run at every yield): objects are not identified by ids but by
  their place — `_clear(elem, ancestors)` is called right after the 'end' event of `elem`, `ancestors` are the
  open elements (all of them for iter_depth/iterfind — proved for the list itself by `iter_depth_spec` —, all but
  the root for `iter`), so `child is e` is reached at the open child of every outer ancestor and at the last child
  of the innermost one.
-/
import XsVerif.Model.Lazy

namespace XsVerif.Lazy

/-- an element whose 'start' event was seen and whose 'end' event was not: it has been appended to its parent at
    its 'start' (ElementTree.TreeBuilder); `kids` = its children that are closed and still in the tree -/
structure Frame where
  id : Nat
  tag : String
  decls : List (String × String)
  kids : List Tree
  deriving Repr

def Frame.close (f : Frame) : Tree := .node f.id f.tag f.decls f.kids

mutual
def size : Tree → Nat
  | .node _ _ _ cs => 1 + sizeF cs
def sizeF : List Tree → Nat
  | [] => 0
  | t :: ts => size t + sizeF ts
end

/-- `del elem[:]` -/
def stub : Tree → Tree
  | .node i t ds _ => .node i t ds []

/-- the tree under construction, innermost open element first (the root stays as the last frame after its 'end');
    `pend` = `start_ns`; `nkeys` = `len(self._nsmaps)`; `fail` = an 'end' without open element / a `_clear` of
    something that is not the last child of the innermost open element -/
structure TB where
  frames : List Frame
  pend : List (String × String)
  nkeys : Nat
  fail : Bool
  deriving Repr

def TB.init : TB := ⟨[], [], 0, false⟩

/-- one parser event seen by `_lazy_iterparse` + the tree builder -/
def TB.ev (b : TB) : Ev → TB
  | .startNs p u => { b with pend := b.pend ++ [(p, u)] }
  | .endNs => b
  | .start i t => { b with frames := ⟨i, t, b.pend, []⟩ :: b.frames, pend := [], nkeys := b.nkeys + 1 }
  | .stop _ _ =>
    match b.frames with
    | f :: p :: ps => { b with frames := { p with kids := p.kids ++ [f.close] } :: ps }
    | [_] => b
    | [] => { b with fail := true }

/-- a complete element `t` (with `n` keys in `_nsmaps` for it) becomes the last child of the innermost open element -/
def TB.attachN (b : TB) (t : Tree) (n : Nat) : TB :=
  match b.frames with
  | p :: ps => { b with frames := { p with kids := p.kids ++ [t] } :: ps, nkeys := b.nkeys + n }
  | [] => b

def TB.attach (b : TB) (t : Tree) : TB := b.attachN t (size t)

def clearKids (f : Frame) : Frame := { f with kids := [] }

def kidsTotal (fs : List Frame) : Nat := (fs.map fun f => f.kids.length).sum

/-- `_clear(elem, ancestors)` (xml_loader.py:334-364) right after the 'end' of `elem`.
    `thin` = `ancestors and self._thin_lazy`; `skipRoot` = the root is not in `ancestors` (`XMLResource.iter`).
    thin part (337-351): every ancestor loses the children that precede the next ancestor / `elem`, the `_nsmaps`
    entries of these children (not of their descendants) are deleted; then (353-359) the entries of the descendants
    of `elem` are deleted and `del elem[:]`. -/
def TB.clear (thin skipRoot : Bool) (b : TB) : TB :=
  match b.frames with
  | [] => { b with fail := true }
  | h :: fs =>
    match h.kids.getLast? with
    | none => { b with fail := true }
    | some e =>
      if thin && !(skipRoot && fs.isEmpty) then
        let outer := if skipRoot then fs.dropLast.map clearKids ++ fs.drop (fs.length - 1) else fs.map clearKids
        let del := (h.kids.length - 1) + kidsTotal (if skipRoot then fs.dropLast else fs)
        { b with frames := { h with kids := [stub e] } :: outer, nkeys := b.nkeys - del - (size e - 1) }
      else
        { b with frames := { h with kids := h.kids.dropLast ++ [stub e] } :: fs, nkeys := b.nkeys - (size e - 1) }

/-! ## iter_depth on the live tree -/

/-- what the consumer of `iter_depth` holds when an element is yielded: the element as it is in the tree at that
    moment, the ids of the children of its parent that precede it in the tree at that moment (what
    `etree_getpath` counts for the positional predicate), the size of `_nsmaps` -/
structure LYield where
  elem : Tree
  inner : List Nat
  nkeys : Nat
  deriving Repr

structure LdSt where
  level : Nat
  tb : TB
  out : List LYield
  deriving Repr

/-- `iter_depth(mode)` (xml_resource.py:634-662) at lazy depth `d`; `thinRes` = `self._thin_lazy`.
    Modes 1, 2 pass `ancestors` to `_clear` (thin when the resource is thin), modes 3-5 do not. -/
def ldStep (thinRes : Bool) (mode d : Nat) (s : LdSt) : Ev → LdSt
  | .start i t =>
      let tb := s.tb.ev (.start i t)
      { level := s.level + 1, tb := tb,
        out := if s.level == 0 && mode == 5 then s.out ++ [⟨.node i t s.tb.pend [], [], tb.nkeys⟩] else s.out }
  | .stop i t =>
      let lv := s.level - 1
      let tb := s.tb.ev (.stop i t)
      match s.tb.frames with
      | [] => { s with level := lv, tb := tb }
      | f :: rest =>
        let inner := match rest with
          | p :: _ => p.kids.map Tree.id
          | [] => []
        if lv == 0 then { level := lv, tb := tb, out := if mode > 2 then s.out ++ [⟨f.close, [], tb.nkeys⟩] else s.out }
        else if lv != d then { level := lv, tb := tb, out := s.out }
        else { level := lv, tb := tb.clear (decide (mode ≤ 2) && thinRes) false,
               out := if mode != 3 then s.out ++ [⟨f.close, inner, tb.nkeys⟩] else s.out }
  | e => { s with tb := s.tb.ev e }

def ldRun (thinRes : Bool) (mode d : Nat) (t : Tree) : LdSt :=
  (events t).foldl (ldStep thinRes mode d) ⟨0, TB.init, []⟩

/-- the root as it is in the tree when the iteration is over -/
def ldFinal (thinRes : Bool) (mode d : Nat) (t : Tree) : Option Tree :=
  (ldRun thinRes mode d t).tb.frames.getLast?.map Frame.close

/- S: the document with everything below relative depth `k` deleted -/
mutual
def cutTree : Nat → Tree → Tree
  | 0, .node i t ds _ => .node i t ds []
  | k + 1, .node i t ds cs => .node i t ds (cutTreeF k cs)
def cutTreeF : Nat → List Tree → List Tree
  | _, [] => []
  | k, t :: ts => cutTree k t :: cutTreeF k ts
end

/- S: the elements at relative depth `k`, complete, in document order, each with the ids of the preceding siblings
   that are remembered: `nxt pre i` says what is remembered after the sibling `i` (`keepAll`: all of them,
   `keepOne`: only the last one) -/
def keepAll (pre : List Nat) (i : Nat) : List Nat := pre ++ [i]
def keepOne (_ : List Nat) (i : Nat) : List Nat := [i]

mutual
def sibsAt (nxt : List Nat → Nat → List Nat) : Nat → List Nat → Tree → List (Tree × List Nat)
  | 0, pre, t => [(t, pre)]
  | k + 1, _, .node _ _ _ cs => sibsAtF nxt k [] cs
def sibsAtF (nxt : List Nat → Nat → List Nat) : Nat → List Nat → List Tree → List (Tree × List Nat)
  | _, _, [] => []
  | k, pre, c :: cs => sibsAt nxt k pre c ++ sibsAtF nxt k (nxt pre c.id) cs
end

/- S: the complete subtrees at relative depth `k`, in document order -/
mutual
def treesAt : Nat → Tree → List Tree
  | 0, t => [t]
  | k + 1, .node _ _ _ cs => treesAtF k cs
def treesAtF : Nat → List Tree → List Tree
  | _, [] => []
  | k, c :: cs => treesAt k c ++ treesAtF k cs
end

def LYield.core (y : LYield) : Tree × List Nat := (y.elem, y.inner)

/-- the positional predicate `etree_getpath` computes for an element with tag `tg` from the siblings that precede it in
    the tree: 1 + the number of them with the same tag -/
def position (tagOf : Nat → String) (tg : String) (before : List Nat) : Nat :=
  1 + (before.filter fun j => tagOf j == tg).length

/-! ## `XMLResource.iter` as repaired (document order) -/

mutual
def preSel (sel : String → Bool) : Tree → List Nat
  | .node i t _ cs => (if sel t then [i] else []) ++ preSelF sel cs
def preSelF (sel : String → Bool) : List Tree → List Nat
  | [] => []
  | t :: ts => preSel sel t ++ preSelF sel ts
end

/-- `yield from node.iter(tag)` of a complete element of the lazy depth -/
def iterElem (sel : String → Bool) : Tree → List (Nat × Kind)
  | .node i t _ cs => (if sel t then [(i, Kind.full)] else []) ++ (preSelF sel cs).map fun j => (j, Kind.sub)

structure LiSt where
  level : Nat
  tb : TB
  out : List (Nat × Kind)
  deriving Repr

/-- the repaired lazy branch of `iter` (notes/fixes/C06-iter-document-order.patch); `ancestors` = the open elements
    but the root -/
def liStep (thinRes : Bool) (d : Nat) (sel : String → Bool) (s : LiSt) : Ev → LiSt
  | .start i t =>
      { level := s.level + 1, tb := s.tb.ev (.start i t),
        out := if s.level < d && sel t then s.out ++ [(i, Kind.incomplete)] else s.out }
  | .stop i t =>
      let lv := s.level - 1
      let tb := s.tb.ev (.stop i t)
      if lv < d then { level := lv, tb := tb, out := s.out }
      else if d < lv then { level := lv, tb := tb, out := s.out }
      else match s.tb.frames with
        | [] => { level := lv, tb := tb, out := s.out }
        | f :: _ => { level := lv, tb := tb.clear thinRes true, out := s.out ++ iterElem sel f.close }
  | e => { s with tb := s.tb.ev e }

def liRun (thinRes : Bool) (d : Nat) (sel : String → Bool) (t : Tree) : LiSt :=
  (events t).foldl (liStep thinRes d sel) ⟨0, TB.init, []⟩

/- S: document order with the kinds of the lazy iterator: incomplete above the lazy depth, full at it, sub below -/
mutual
def docOrder (d lvl : Nat) : Tree → List (Nat × Kind)
  | .node i _ _ cs =>
      if lvl < d then (i, Kind.incomplete) :: docOrderF d (lvl + 1) cs
      else (i, Kind.full) :: (preorderF cs).map (fun j => (j, Kind.sub))
def docOrderF (d lvl : Nat) : List Tree → List (Nat × Kind)
  | [] => []
  | t :: ts => docOrder d lvl t ++ docOrderF d lvl ts
end

/-! ## identity-constraint tables of the two phases of lazy validation (schemas.py:1334-1401)

  Phase 1 (the chunks, `iter_depth(mode=4)`): the counters of the constraints declared above the lazy depth live in
  `identities`; every selected node inside a chunk increases them.  Phase 2 (the pruned root, `context.identities = {}`):
  the selected nodes above the lazy depth increase fresh counters.  Then (1392-1399) the phase-2 counters are merged:
  `identities[identity].counter.update(counter.counter)` when phase 1 has a counter for the constraint, else the
  phase-2 counter is taken.  Values are abstract ids of field tuples. -/

abbrev Ctr := List (Nat × Nat)        -- collections.Counter: (field tuple, count) in insertion order

def Ctr.get : Ctr → Nat → Nat
  | [], _ => 0
  | (k, n) :: c, v => if k == v then n else Ctr.get c v

/-- `self[v] += n` -/
def Ctr.add : Ctr → Nat → Nat → Ctr
  | [], v, n => [(v, n)]
  | (k, m) :: c, v, n => if k == v then (k, m + n) :: c else (k, m) :: Ctr.add c v n

/-- `IdentityCounter.increase` (identities.py:385-389) for the selected nodes of one phase in processing order:
    the counter, and the values for which "duplicated value" is raised (the count becomes 2) -/
def collectFrom (s : Ctr × List Nat) (vals : List Nat) : Ctr × List Nat :=
  vals.foldl (fun s v => let c := s.1.add v 1; (c, if c.get v == 2 then s.2 ++ [v] else s.2)) s

def collect (vals : List Nat) : Ctr × List Nat := collectFrom ([], []) vals

/-- `Counter.update(other)` -/
def Ctr.update (c o : Ctr) : Ctr := o.foldl (fun c p => c.add p.1 p.2) c

/-- the merge of schemas.py:1392-1399; `phase1 = none`: no element of the lazy depth initialised the counter -/
def mergeTables (phase1 : Option Ctr) (phase2 : Ctr) : Ctr :=
  match phase1 with
  | some c => c.update phase2
  | none => phase2

/-- a "first wins" merge (`identities.setdefault(identity, counter)`): NOT the code; the seeded regression C06-3 -/
def mergeFirstWins (phase1 : Option Ctr) (phase2 : Ctr) : Ctr :=
  match phase1 with
  | some c => c
  | none => phase2

/-- selected nodes of a constraint in document order: (validated in the root pass?, value) -/
def phaseVals (inRoot : Bool) (sel : List (Bool × Nat)) : List Nat :=
  (sel.filter fun p => p.1 == inRoot).map Prod.snd

/-- keyref values without a key: `KeyrefCounter.iter_errors` -/
def dangling (keys refs : Ctr) : List Nat := (refs.filter fun p => keys.get p.1 == 0).map Prod.fst

end XsVerif.Lazy
