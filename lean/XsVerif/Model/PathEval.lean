/-
  C20 — in-model evaluation of the generated path forms, on instance trees and on the schema graph.  No Mathlib.

  Path forms: steps `/name`, `/*`, `//name`, `//*`, each with an optional positional predicate `[k]`; absolute
  (from the document node: the first child step names the root element) or relative to the root element.

  Ported evaluation order (elementpath 5.1.4, the library that xmlschema drives):
    xpath1/_xpath1_operators.py:306-341  '/'  : for every context item in order, the results of the right step,
                                                 first occurrence kept (a set of seen nodes), NOT re-sorted
    xpath1/_xpath1_operators.py:349-395  '//' : for every context item, for every node of descendant-or-self (preorder),
                                                 the results of the right step; first occurrence kept; a LEADING '//'
                                                 collects into a set and yields it sorted in document order
    xpath_context.py:437-460             name test = the children of the context item whose name matches
    xpath1 '[' predicate                 position among the name-matched children of ONE context item
  Schema side (xmlschema/xpath/find_parser.py:38-58, SchemaFindParser): the numeric predicate also accepts a single
  match when k > 1 (`context.size == 1 and predicate > 1`); `*` yields every child node, wildcards included, without
  the global-element replacement that a name test applies to a matching wildcard.
-/
import XsVerif.Model.Lazy
import XsVerif.Model.SchemaPaths

namespace XsVerif.PathEval
open XsVerif.Lazy XsVerif.SchemaPaths

/-- one step of a generated path: `desc` = written with `//`; `name = none` is `*`; `pos = some k` is `[k]` -/
structure Step where
  desc : Bool
  name : Option String
  pos : Option Nat
  deriving DecidableEq, Repr, Inhabited

/-- XPath positional predicate on the list of matches of one context item (`[0]` selects nothing) -/
def pick {α : Type} : Option Nat → List α → List α
  | none, l => l
  | some 0, _ => []
  | some (k + 1), l => (l.drop k).take 1

/-! ## instance side -/

/-- an instance node together with the chain of tags from the root element down to it -/
abbrev CNode := List String × Tree

def nameOk (s : Step) (tag : String) : Bool :=
  match s.name with
  | none => true
  | some n => tag == n

/-- the children of a context node selected by the name test and the predicate of a step -/
def kidsSel (s : Step) (c : CNode) : List CNode :=
  (pick s.pos (c.2.cs.filter fun k => nameOk s k.tag)).map fun k => (c.1 ++ [k.tag], k)

mutual
/-- descendant-or-self in document order, with chains -/
def dosT (ch : List String) : Tree → List CNode
  | .node i tg ds cs => (ch, .node i tg ds cs) :: dosF ch cs
def dosF (ch : List String) : List Tree → List CNode
  | [] => []
  | t :: ts => dosT (ch ++ [t.tag]) t ++ dosF ch ts
end

/-- first-occurrence de-duplication by node id -/
def dedupC : List CNode → List CNode
  | [] => []
  | x :: xs => x :: (dedupC xs).filter (fun y => y.2.id != x.2.id)

/-- the context nodes visited by a step from one context item -/
def visit (s : Step) (c : CNode) : List CNode := if s.desc then dosT c.1 c.2 else [c]

def stepI (s : Step) (ctx : List CNode) : List CNode :=
  dedupC (ctx.flatMap fun c => (visit s c).flatMap (kidsSel s))

def selFrom : List CNode → List Step → List CNode
  | ctx, [] => ctx
  | ctx, s :: ss => selFrom (stepI s ctx) ss

/-- insertion of a node by id (document order = id order for preorder ids) -/
def insertC (x : CNode) : List CNode → List CNode
  | [] => [x]
  | y :: ys => if x.2.id ≤ y.2.id then x :: y :: ys else y :: insertC x ys

def sortC (l : List CNode) : List CNode := l.foldr insertC []

/-- the document node: its only child is the root element (chain `[]`); a virtual context, never selected -/
def docKids (s : Step) (t : Tree) : List CNode :=
  (pick s.pos ([t].filter fun k => nameOk s k.tag)).map fun k => ([k.tag], k)

/-- first step of an ABSOLUTE path, from the document node; a leading `//` is yielded in document order -/
def firstAbs (s : Step) (t : Tree) : List CNode :=
  if s.desc then sortC (dedupC (docKids s t ++ (dosT [t.tag] t).flatMap (kidsSel s)))
  else docKids s t

/-- `resource.iterfind(path)`: the selected elements with their tag chains, in the order elementpath yields them -/
def selC (abs : Bool) (t : Tree) : List Step → List CNode
  | [] => if abs then [] else [([t.tag], t)]
  | s :: ss => if abs then selFrom (firstAbs s t) ss else selFrom [([t.tag], t)] (s :: ss)

def selI (abs : Bool) (t : Tree) (p : List Step) : List Nat := (selC abs t p).map (·.2.id)

/-- Denotation of a path as a pattern on tag chains (root tag first): a child step consumes one tag, a
    descendant step any number of tags and then one matching tag. -/
def matchesB : List Step → List String → Bool
  | [], [] => true
  | [], _ :: _ => false
  | _ :: _, [] => false
  | s :: ss, tg :: tgs =>
    (nameOk s tg && matchesB ss tgs) || (s.desc && matchesB (s :: ss) tgs)

/-- a relative path starts below the root element: its chain pattern is `root tag` then the steps -/
def matchesRel (rootTag : String) (p : List Step) : List String → Bool
  | [] => false
  | tg :: tgs => tg == rootTag && (match p with | [] => tgs.isEmpty | _ => matchesB p tgs)

/-! ## schema side (child steps: names, `*`, positional predicates) -/

/-- SchemaFindParser's numeric predicate: the k-th match, or the only match when k > 1 -/
def pickS : Option Nat → List Decl → List Decl
  | none, l => l
  | some k, l => if l.length == 1 && decide (1 < k) then l else pick (some k) l

/-- the matches of one step among the children of declaration `d` -/
def kidsS (S : Schema) (s : Step) (d : Decl) : List Decl :=
  pickS s.pos (match s.name with
    | none => S.kids d
    | some n => step S n d)

def stepS (S : Schema) (s : Step) (cur : List Decl) : List Decl := dedup (cur.flatMap (kidsS S s))

def findFromP (S : Schema) : List Decl → List Step → List Decl
  | cur, [] => cur
  | cur, s :: ss => findFromP S (stepS S s cur) ss

/-- the first step of an absolute path on the schema selects among the global elements -/
def globalsS (S : Schema) (s : Step) : List Decl :=
  pickS s.pos (match s.name with
    | none => S.globals
    | some n => S.globals.filter fun g => matchName g n)

/-- `schema.findall(path)` for an absolute path of child steps -/
def findAllP (S : Schema) : List Step → List Decl
  | [] => []
  | s :: ss => findFromP S (dedup (globalsS S s)) ss

def findP (S : Schema) (p : List Step) : Option Decl := (findAllP S p).head?

/-- the names of a path made of plain name steps -/
def namesOf : List Step → Option (List String)
  | [] => some []
  | s :: ss => match s.name, namesOf ss with
    | some n, some ns => if s.desc then none else some (n :: ns)
    | _, _ => none

end XsVerif.PathEval
