/-
  C04: where the prefix map matters late in an element.

  `XsdElement.raw_decode` calls `converter.set_xmlns_context(obj, level)` once more at the END of the
  element (elements.py "Purge sub-contexts"), before the element data are built AND before the
  identity-constraint fields of the element are collected (`collect_key_fields`).  The call pattern
  with that call is `NsMapper.visit` (Model/NsMapper.lean, tied to the code by the C17 check).
  This file only adds the descent WITHOUT the end-of-element call — not the code; it is what a
  validation-only shortcut would do — for the counter-example theorem of Props/C04.lean.

  No Mathlib import.
-/
import XsVerif.Model.NsMapper

namespace XsVerif.NsLeak
open XsVerif.NsMapper

mutual
/-- per element (document order): the prefix map in force when the element ends, if the sub-contexts
    of its children are NOT purged there -/
def endNoPurge (v : Variant) (level : Nat) : Tree → Mapper → Mapper × List (Nat × Map)
  | .node id _ _ decl children, m =>
    let r1 := setContext v .stacked m id level decl
    let (m2, obs) := endNoPurgeList v (level + 1) children r1.m
    (m2, (id, m2.ns) :: obs)

def endNoPurgeList (v : Variant) (level : Nat) : List Tree → Mapper → Mapper × List (Nat × Map)
  | [], m => (m, [])
  | t :: ts, m =>
    let (m1, o1) := endNoPurge v level t m
    let (m2, o2) := endNoPurgeList v level ts m1
    (m2, o1 ++ o2)
end

/-- the same observation for the code as it is -/
def endPurged (v : Variant) (t : Tree) (m : Mapper) : List (Nat × Map) :=
  (visit v .stacked 0 t m).2.map fun o => (o.id, o.nsAtAttrs)

end XsVerif.NsLeak
