/-
  C05 — DataElementConverter (/repo/xmlschema/dataobjects.py:462-578): port of `element_decode`
  (dataobjects.py:535-553) and `element_encode` (dataobjects.py:555-578) over the data of
  `XsVerif/Model/Converters.lean`.

  A `DataElement` (dataobjects.py:33-90) is the constructor `J.elem tag value attrib kids tail xmlns`;
  `value`/`tail` are `J.null` for Python `None`, `xmlns = []` stands for `None` or an empty list (the
  converter only tests its truth value, namespaces.py:224-225).

  Plain Lean core, no Mathlib.
-/
import XsVerif.Model.Converters

namespace XsVerif.Conv.DE
open XsVerif.Conv

/-- `str.isdigit()` as far as names can tell: non empty and only decimal digits (a mapped element name is an
    NCName or `prefix:NCName` or `{uri}NCName`, never a digit string; cdata keys are `f'{i}'`). -/
def isDigits (s : String) : Bool := !s.toList.isEmpty && s.toList.all Char.isDigit

/-- what `element_decode` returns in the model when the real method raises (`DataElement.insert` asserts
    that the appended child is a DataElement, dataobjects.py:107-109) -/
def raised : J := .atom "!raise" "AssertionError"

/-- `data_element[-1].tail = value` (dataobjects.py:549): attribute assignment on the last child -/
def setTail (t : J) : J → J
  | .elem tag v a k _ x => .elem tag v a k t x
  | j => j

/-- `kids[-1] = f kids[-1]` -/
def modifyLast (g : J → J) : List J → List J
  | [] => []
  | [x] => [g x]
  | x :: y :: r => x :: modifyLast g (y :: r)

/-- One turn of the loop of dataobjects.py:544-551 over `map_content(data.content)` (cdata_prefix is `''`, so
    a cdata part `i` arrives under the name `str(i)`, converters/base.py:260-262).  State: the element's
    `value` and its children so far; a child value that is not a DataElement is left out
    (since fix 796bccf; `none` is no longer produced by a step, the type is kept for the lemmas). -/
def decStep (m : Mapper) (st : J × List J) : Item J → Option (J × List J)
  | .cdata _ v =>
      match st.2 with
      | [] => some (v, [])                               -- IndexError → `data_element.value = value`
      | _ :: _ => some (st.1, modifyLast (setTail v) st.2)
  | .child nm _ v =>
      if isDigits (m.mp nm) then
        match st.2 with
        | [] => some (v, [])
        | _ :: _ => some (st.1, modifyLast (setTail v) st.2)
      else
        match v with
        | .elem .. => some (st.1, st.2 ++ [v])
        | _ => some st      -- a depth filler (not a DataElement) is left out (dataobjects.py:546-549, fix 796bccf)

def decLoop (m : Mapper) : J × List J → List (Item J) → Option (J × List J)
  | st, [] => some st
  | st, it :: r =>
    match decStep m st it with
    | some st' => decLoop m st' r
    | none => none

/-- `map_attributes` with `attr_prefix = ''` then `attrib.update(...)` (dataobjects.py:538-539) -/
def decAttrs (m : Mapper) (hd : Hd) : List (String × J) :=
  dictUpdate [] (hd.attrs.map fun kv => (m.mpA kv.1, kv.2))

/-- element_decode, dataobjects.py:535-553 (`map_attribute_names=True`, the default) -/
def dec (m : Mapper) (f : Facts) (hd : Hd) (its : List (Item J)) : J :=
  let v0 : J := match hd.text with | some t => t | none => .null
  if f.hasGroup then
    match decLoop m (v0, []) its with
    | some (v, kids) => .elem hd.tag v (decAttrs m hd) kids .null hd.xmlns
    | none => raised
  else .elem hd.tag v0 (decAttrs m hd) [] .null hd.xmlns

/-- the loop of dataobjects.py:573-576: `content.append((e.tag, e))`, then the tail under the next number.
    A child that is not a DataElement: XMLSchemaTypeError (dataobjects.py:574-577, fix 40894cf of finding
    C05-F11; before it the code read `e.tag` and leaked an AttributeError that `raw_encode` does not catch). -/
def encKids : Nat → List J → Except Err (List (Item J))
  | _, [] => .ok []
  | k, e :: r =>
    match e with
    | .elem tag _ _ _ tail _ =>
      if tail.isNull then do
        let r' ← encKids k r
        pure (.child tag false e :: r')
      else do
        let r' ← encKids (k + 1) r
        pure (.child tag false e :: .cdata k tail :: r')
    | _ => .error .typeErr

/-- element_encode, dataobjects.py:555-578.  `xsd_element.is_matching(tag)` is name equality for the element
    declarations generated here (no substitution groups). -/
def enc (m : Mapper) (_f : Facts) (name : String) (obj : J) : Except Err (Hd × List (Item J)) :=
  match obj with
  | .elem tag value attrib kids _ xmlns =>
    if tag != name then .error .unmatchedTag else
    let attributes := dictUpdate [] (attrib.map fun kv => (m.umA kv.1, kv.2))
    match kids with
    | [] => .ok ({ tag, text := if value.isNull then none else some value, attrs := attributes, xmlns }, [])
    | _ :: _ =>
      if value.isNull then do
        let c ← encKids 1 kids
        pure ({ tag, text := none, attrs := attributes, xmlns }, c)
      else do
        let c ← encKids 2 kids
        pure ({ tag, text := none, attrs := attributes, xmlns }, .cdata 1 value :: c)
  | _ => .error .typeErr      -- not a DataElement: XMLSchemaTypeError (dataobjects.py:557-559)

def conv (m : Mapper) : Conv := ⟨dec m, enc m⟩

/-- get_xmlns_from_data (dataobjects.py:490-491): the `xmlns` attribute of a DataElement -/
def xmlnsOfObj : J → List (String × String)
  | .elem _ _ _ _ _ x => x
  | _ => []

/-- DataElementConverter with the name mapping `m sc` of the declarations in scope -/
def sconv (m : NsScope → Mapper) : SConv := ⟨fun sc => conv (m sc), xmlnsOfObj⟩

end XsVerif.Conv.DE
