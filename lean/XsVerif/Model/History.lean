/-
  Model of the schema-level state that survives a validation / decoding / encoding call
  (property C10), and of how a call reads and writes it:

    xmlschema/validators/elements.py:672-684   `XsdElement.xsi_types` and the widening of
                                               `XsdIdentity.elements` for the *enabled* counters
    xmlschema/validators/identities.py:213-246 `update_elements` (idempotent additions)
    xmlschema/validators/elements.py:880-900   `selected_by` / `identity.elements` gate of
                                               `collect_key_fields`
    xmlschema/caching.py:31-87                 per-schema lru caches of pure methods
    xmlschema/validators/schemas.py:909-915,
    xmlschema/validators/simple_types.py:465-483  the per-schema scratch `validation_context`
                                               (`clear()` before every use)
    xmlschema/validators/validation.py:133-177 everything else lives in a context created per call

  No Mathlib import: linked into the native driver `drv_c10`.
-/
namespace XsVerif.History

abbrev Decl := Nat
abbrev TyId := Nat
abbrev Con := Nat

/-- what is fixed once the schema is built -/
structure Sch where
  complex : TyId → Bool                      -- `xsd_type.has_complex_content()`
  widen : Con → Decl → TyId → List Decl      -- declarations `update_elements(XPathElement(d, T))` adds
  base : Con → List Decl                     -- `identity.elements` after `build()`
  pure : Nat → Nat                           -- the memoised methods, as one pure function of the key

/-- the residue -/
structure Res where
  xsi : List (Decl × TyId)                   -- (element declaration, type) ∈ `xsi_types`
  bound : List (Con × Decl)                  -- additions to `identity.elements`
  memo : List (Nat × Nat)                    -- lru cache entries
  scratch : List Nat                         -- what the last user left in the scratch context
  deriving Repr, Inhabited, DecidableEq

def Res.init : Res := ⟨[], [], [], []⟩

/-- the part of a call that touches the residue, in execution order -/
inductive Step where
  /-- an element of declaration `d` with a usable `xsi:type = t`, met while the counters of `en` are enabled -/
  | xsiType (d : Decl) (t : TyId) (en : List Con)
  /-- an element of declaration `d` finished inside an open scope of constraint `c`:
      its fields are collected only if `d` is bound to `c` -/
  | collect (d : Decl) (c : Con)
  /-- a memoised method called with key `k` -/
  | memoCall (k : Nat)
  /-- `text_decode(text)` without a context: the scratch context is cleared, used, left dirty -/
  | scratchUse (dirt : List Nat)
  deriving Repr, Inhabited, DecidableEq

/-- what the call sees -/
inductive Obs where
  | collected (b : Bool)
  | memo (v : Nat)
  | scratch (seen : List Nat)
  deriving Repr, Inhabited, DecidableEq

def isBound (sch : Sch) (r : Res) (c : Con) (d : Decl) : Bool :=
  (sch.base c).contains d || r.bound.contains (c, d)

def addBound (sch : Sch) (d : Decl) (t : TyId) (b : List (Con × Decl)) (c : Con) : List (Con × Decl) :=
  (sch.widen c d t).map (fun d' => (c, d')) ++ b

/-- one step.  `gated = true` is the code as it is (the widening runs only the first time the pair
    (declaration, type) is seen by the schema object); `gated = false` is the repaired algorithm
    (the idempotent widening runs for the enabled counters every time). -/
def step (sch : Sch) (gated : Bool) (r : Res) : Step → Res × Option Obs
  | .xsiType d t en =>
    let seen := r.xsi.contains (d, t)
    if gated && seen then (r, none)
    else
      let b := if sch.complex t then en.foldl (addBound sch d t) r.bound else r.bound
      ({ r with bound := b, xsi := if seen then r.xsi else (d, t) :: r.xsi }, none)
  | .collect d c => (r, some (.collected (isBound sch r c d)))
  | .memoCall k =>
    match r.memo.lookup k with
    | some v => (r, some (.memo v))
    | none => ({ r with memo := (k, sch.pure k) :: r.memo }, some (.memo (sch.pure k)))
  | .scratchUse dirt => ({ r with scratch := dirt }, some (.scratch []))

/-- a call = the steps of the (possibly aborted) walk over one document -/
def call (sch : Sch) (gated : Bool) : Res → List Step → Res × List Obs
  | r, [] => (r, [])
  | r, s :: ss =>
    let (r1, o) := step sch gated r s
    let (r2, os) := call sch gated r1 ss
    (r2, o.toList ++ os)

/-- the residue after a history of calls -/
def after (sch : Sch) (gated : Bool) (hist : List (List Step)) : Res :=
  hist.foldl (fun r doc => (call sch gated r doc).1) Res.init

end XsVerif.History
