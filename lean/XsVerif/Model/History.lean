/-
  Model of the schema-level state that survives a validation / decoding / encoding call
  (property C10), and of how a call reads and writes it.  Port of the code as it is NOW
  (after 962be1e / ee393a6 / 52f30cd):

    xmlschema/validators/elements.py:641-645   entering an element: the counters of its identity
                                               constraints are reset (enabled) or created, in
                                               `context.identities` (a dict: insertion order)
    xmlschema/validators/elements.py:663-697   a usable `xsi:type`: for every counter of the context,
                                               in order, `if not counter.enabled or (type, identity)
                                               in self.xsi_types: continue`; `update_elements`;
                                               `xsi_types.add((type, identity))`; at the end
                                               `xsi_types.add(type)` if absent
    xmlschema/validators/identities.py:213-246 `update_elements`: for every selected declaration
                                               `if e not in self.elements: self.elements[e] = …`
                                               then `e.selected_by.add(self)`
    xmlschema/validators/elements.py:859-860,
                                     907-914   `if self.selected_by: collect_key_fields`: fields are
                                               collected for the identities of `selected_by` whose
                                               counter is in the context and enabled
    xmlschema/validators/elements.py:873-891   leaving an element: its counters are disabled; a keyref
                                               whose referenced key has no counter gets a disabled one
    xmlschema/caching.py:31-87                 per-schema lru caches of pure methods; cached properties
    xmlschema/validators/schemas.py:909-915,
    xmlschema/validators/simple_types.py:465-483  the per-schema scratch `validation_context`
                                               (`clear()` before every use)
    xmlschema/validators/validation.py:133-177 everything else lives in a context created per call

    xmlschema/validators/wildcards.py:533-545 (element wildcard), 709-735 (attribute wildcard):
                                               `processContents="skip"` returns before any lookup; otherwise
                                               `maps.loader.load_namespace(ns)` (loaders.py:322-358): True if the
                                               namespace is loaded, else — if it has a location (`locations` or the
                                               bundled fallback ones) — the schema is registered and `maps.build()`
                                               re-creates EVERY component (xsd_globals.py:505-578: caches cleared,
                                               `schema.clear()`), else False
    xmlschema/validators/schemas.py:1320-1324, 1364  the root element is looked up in the maps as they are

  The collection of identity fields is no longer gated by `selected_by` (1e49c64): `Mode.ungated` is the code
  as it is, `Mode.gated` the code before that fix (finding C10-F2), `Mode.old` the pinned code (C10-F1).

  The state of a call is a pair: the RESIDUE `Res` (what stays on the schema object) and the
  call-local `Ctx` (`context.identities` with the `enabled` flags), which starts empty at every call.

  No Mathlib import: linked into the native driver `drv_c10`.
-/
namespace XsVerif.History

abbrev Decl := Nat
abbrev TyId := Nat
abbrev Con := Nat

/-- what is fixed once the schema is built (finite tables, read from the built components) -/
structure Sch where
  complex : List TyId                               -- types with `has_complex_content()`
  wtab : List ((Con × Decl × TyId) × List Decl)     -- declarations `update_elements(XPathElement(d, T))` selects
  base : List (Con × Decl)                          -- `selected_by` / `identity.elements` after `build()`
  pure : Nat → Nat                                  -- the memoised methods, as one pure function of the key
  declTy : List (Decl × TyId) := []                 -- the declared type of every element declaration
  nsBase : List Nat := []                           -- namespaces in `maps.namespaces` after `build()`
  loadable : List Nat := []                         -- namespaces `loader.get_locations(ns)` has a location for

def Sch.isComplex (sch : Sch) (t : TyId) : Bool := sch.complex.contains t

def Sch.declType (sch : Sch) (d : Decl) : TyId := (sch.declTy.lookup d).getD 0

def Sch.widen (sch : Sch) (c : Con) (d : Decl) (t : TyId) : List Decl :=
  (sch.wtab.filter fun e => e.1 == (c, d, t)).flatMap (·.2)

/-- an entry of the set `XsdElement.xsi_types` (shared between a declaration and its references) -/
inductive XsiEntry where
  | type (d : Decl) (t : TyId)
  | pair (d : Decl) (t : TyId) (c : Con)
  deriving Repr, Inhabited, DecidableEq

/-- the residue -/
structure Res where
  xsi : List XsiEntry                        -- `xsi_types` of every declaration
  elems : List (Con × Decl)                  -- additions to `identity.elements`
  sel : List (Con × Decl)                    -- additions to `declaration.selected_by`
  memo : List (Nat × Nat)                    -- lru cache entries / cached properties
  scratch : List Nat                         -- clearable fields of the scratch context, as last left
  loaded : List Nat := []                    -- namespaces loaded on demand (`maps.namespaces` minus `nsBase`)
  /-- call-local although it is kept here: the components this call runs on were replaced by a rebuild,
      what it writes on them is lost (reset at the start of every call) -/
  stale : Bool := false
  /-- `identity.elements` as a map: (constraint, declaration) ↦ the type the stored field selectors were built
      for (`FieldValueSelector(f, e)`, identities.py:225: `e` is the declaration itself) -/
  cache : List ((Con × Decl) × TyId) := []
  deriving Repr, Inhabited, DecidableEq

def Res.init : Res := { xsi := [], elems := [], sel := [], memo := [], scratch := [] }

/-- `context.identities`: (constraint, `counter.enabled`) in insertion order -/
abbrev Ctx := List (Con × Bool)

/-- elements.py:641-645 for one identity -/
def Ctx.reset (ctx : Ctx) (c : Con) : Ctx :=
  if ctx.any (·.1 == c) then ctx.map fun p => if p.1 == c then (c, true) else p
  else ctx ++ [(c, true)]

def Ctx.enter (ctx : Ctx) (ids : List Con) : Ctx := ids.foldl Ctx.reset ctx

def Ctx.disable (ctx : Ctx) (c : Con) : Ctx := ctx.map fun p => if p.1 == c then (c, false) else p

/-- elements.py:875-886 for one identity (`refer` = the referenced key of a keyref, eager runs only) -/
def Ctx.leave1 (ctx : Ctx) (cr : Con × Option Con) : Ctx :=
  let ctx1 := ctx.disable cr.1
  match cr.2 with
  | some k => if ctx1.any (·.1 == k) then ctx1 else ctx1 ++ [(k, false)]
  | none => ctx1

def Ctx.leave (ctx : Ctx) (ids : List (Con × Option Con)) : Ctx := ids.foldl Ctx.leave1 ctx

/-- one write on the schema object -/
inductive Write where
  | elem (c : Con) (d : Decl) (t : TyId)     -- `if e not in self.elements: self.elements[e] = [FieldValueSelector(f, e) …]`
  | sel (c : Con) (d : Decl)                 -- `e.selected_by.add(self)`
  | pair (d : Decl) (t : TyId) (c : Con)     -- `self.xsi_types.add((xsd_type, counter.identity))`
  | type (d : Decl) (t : TyId)               -- `if xsd_type not in self.xsi_types: self.xsi_types.add(xsd_type)`
  deriving Repr, Inhabited, DecidableEq

def ins {α} [BEq α] (x : α) (l : List α) : List α := if l.contains x then l else x :: l

def Res.apply (r : Res) : Write → Res
  | .elem c d t => { r with elems := ins (c, d) r.elems,
                            cache := if (r.cache.lookup (c, d)).isSome then r.cache else ((c, d), t) :: r.cache }
  | .sel c d => { r with sel := ins (c, d) r.sel }
  | .pair d t c => { r with xsi := ins (.pair d t c) r.xsi }
  | .type d t => { r with xsi := ins (.type d t) r.xsi }

def applyWrites (r : Res) (ws : List Write) : Res := ws.foldl Res.apply r

/-- identities.py:219-226: the writes of `update_elements(XPathElement(d, t))` on constraint `c` -/
def updateWrites (sch : Sch) (c : Con) (d : Decl) (t : TyId) : List Write :=
  (sch.widen c d t).flatMap fun d' => [.elem c d' (sch.declType d'), .sel c d']

/-- elements.py:684-694: the writes of the loop over the counters of the context, in order, from state `r` -/
def xsiLoop (sch : Sch) (d : Decl) (t : TyId) : Res → Ctx → List Write
  | _, [] => []
  | r, (c, en) :: cs =>
    if !en || r.xsi.contains (.pair d t c) then xsiLoop sch d t r cs
    else
      let ws := updateWrites sch c d t ++ [.pair d t c]
      ws ++ xsiLoop sch d t (applyWrites r ws) cs

/-- elements.py:682-697 -/
def xsiWrites (sch : Sch) (r : Res) (ctx : Ctx) (d : Decl) (t : TyId) : List Write :=
  (if sch.isComplex t then xsiLoop sch d t r ctx else []) ++ [.type d t]

/-- the same block as it was BEFORE 962be1e (kept for the counter-example of finding C10-F1):
    everything gated by `xsd_type not in self.xsi_types` -/
def xsiWritesOld (sch : Sch) (r : Res) (ctx : Ctx) (d : Decl) (t : TyId) : List Write :=
  if r.xsi.contains (.type d t) then []
  else (if sch.isComplex t then
          (ctx.filter (·.2)).flatMap fun p => updateWrites sch p.1 d t
        else []) ++ [.type d t]

/-- which algorithm -/
inductive Mode where
  | old          -- the pinned code: widening gated by the type alone (finding C10-F1, fixed by 962be1e)
  | gated        -- the code before 1e49c64: collection gated by `selected_by` (finding C10-F2)
  | ungated      -- THE CODE AS IT IS: collection for every open scope
  | laxAttrNoLoad  -- variant (seeded change C10-3): a non-strict ATTRIBUTE wildcard does not load a namespace
  deriving Repr, Inhabited, DecidableEq

/-- processContents -/
inductive PC where
  | skip | lax | strict
  deriving Repr, Inhabited, DecidableEq

/-- the part of a call that touches the residue or the counters, in execution order -/
inductive Step where
  /-- an element whose declaration carries the identity constraints `ids` starts -/
  | enter (ids : List Con)
  /-- the element of declaration `d` has a usable `xsi:type = t`; `budget = some k`: the call was aborted
      (KeyboardInterrupt, TypeError in strict mode) after `k` writes of the block -/
  | xsiType (d : Decl) (t : TyId) (budget : Option Nat)
  /-- the element of declaration `d` is finished: field collection -/
  | collect (d : Decl)
  /-- the element of declaration `d`, validated with type `t` (its declared type or an xsi:type), is picked by the
      selectors of the open scopes: which field selectors extract its key values (elements.py:901-904, 949-953) -/
  | fields (d : Decl) (t : TyId)
  /-- the element carrying `ids` ends (`refer` of keyrefs given for eager runs) -/
  | leave (ids : List (Con × Option Con))
  /-- lazy runs rebuild the counters outside `raw_decode` (schemas.py:1336-1362): the counters as found -/
  | setCtx (ctx : Ctx)
  /-- a wildcard (`attr`: attribute wildcard, else element wildcard) with processContents `pc` meets a name
      of namespace `n` -/
  | wild (attr : Bool) (pc : PC) (n : Nat)
  /-- a top-level element (the root; in a lazy run every depth-level element, schemas.py:1364) is looked up in the
      maps as they are, without loading, and validated by the component found there: a current one -/
  | nsRead (n : Nat)
  /-- a memoised method called with key `k` -/
  | memoCall (k : Nat)
  /-- a value that depends on call-local data — the decoded `fixed` literal under the EFFECTIVE type of the
      instance (elements.py:786-787: `xsd_type.text_decode(self.fixed)`, `xsd_type` may come from xsi:type or an
      alternative) — is recomputed at every use and stored nowhere: `v` is what this instance computes for key `k` -/
  | localValue (k : Nat) (v : Nat)
  /-- `text_decode(text)` without a context: the scratch context is cleared, used, left dirty -/
  | scratchUse (dirt : List Nat)
  deriving Repr, Inhabited, DecidableEq

/-- what the call sees -/
inductive Obs where
  /-- at the end of an element: the counters, and the constraints for which fields are collected -/
  | collected (ctx : Ctx) (gate : List Con)
  | memo (v : Nat)
  | scratch (seen : List Nat)
  /-- a wildcard lookup: is the namespace available (so that the global declaration is consulted), and
      did THIS call rebuild the components to make it so -/
  | ns (avail : Bool) (rebuilt : Bool)
  /-- a lookup without loading: is the namespace in the maps -/
  | nsSeen (b : Bool)
  /-- for every collecting constraint, the type the field selectors in use were built for -/
  | typing (l : List (Con × TyId))
  deriving Repr, Inhabited, DecidableEq

def isSel (sch : Sch) (r : Res) (c : Con) (d : Decl) : Bool :=
  sch.base.contains (c, d) || r.sel.contains (c, d)

def gate (sch : Sch) (m : Mode) (r : Res) (ctx : Ctx) (d : Decl) : List Con :=
  (ctx.filter fun p => p.2 && (match m with | .ungated => true | .laxAttrNoLoad => true | _ => isSel sch r p.1 d)).map (·.1)

/-- `identity.elements.get(declaration)`: the typing of the stored selectors (entries made by `build()` are typed
    by the declaration) -/
def cachedTy (sch : Sch) (r : Res) (c : Con) (d : Decl) : Option TyId :=
  match r.cache.lookup (c, d) with
  | some t => some t
  | none => if sch.base.contains (c, d) then some (sch.declType d) else none

/-- elements.py:901-904 + 949-953: an element validated with its declared type uses the stored selectors of its
    declaration when there are some; a retyped copy is never a key of the cache: selectors are built for it -/
def typingOf (sch : Sch) (r : Res) (ctx : Ctx) (d : Decl) (t : TyId) : List (Con × TyId) :=
  (ctx.filter (·.2)).map fun p => (p.1, if t == sch.declType d then (cachedTy sch r p.1 d).getD t else t)

def budgeted (ws : List Write) : Option Nat → List Write
  | none => ws
  | some k => ws.take k

/-- the writes of the xsi:type block for each algorithm -/
def stepWrites (sch : Sch) (m : Mode) (r : Res) (ctx : Ctx) (d : Decl) (t : TyId) : List Write :=
  match m with
  | .old => xsiWritesOld sch r ctx d t
  | _ => xsiWrites sch r ctx d t

def isLoaded (sch : Sch) (r : Res) (n : Nat) : Bool := sch.nsBase.contains n || r.loaded.contains n

/-- loaders.py:350-356 + xsd_globals.py:505-578: the namespace is registered and every component re-created:
    what was recorded on the old components is gone, the caches are cleared, the rest of the call is stale -/
def rebuild (r : Res) (n : Nat) : Res :=
  { xsi := [], elems := [], sel := [], memo := [], scratch := [], loaded := n :: r.loaded, stale := true, cache := [] }

/-- wildcards.py:533-545 / 709-735 -/
def wildStep (sch : Sch) (m : Mode) (r : Res) (attr : Bool) (pc : PC) (n : Nat) : Res × Option Obs :=
  match pc with
  | .skip => (r, none)
  | _ =>
    if isLoaded sch r n then (r, some (.ns true false))
    else if (match m, attr, pc with | .laxAttrNoLoad, true, .lax => true | _, _, _ => false) then
      (r, some (.ns false false))
    else if sch.loadable.contains n then (rebuild r n, some (.ns true true))
    else (r, some (.ns false false))

/-- one step -/
def step (sch : Sch) (m : Mode) (s : Res × Ctx) : Step → (Res × Ctx) × Option Obs
  | .enter ids => ((s.1, s.2.enter ids), none)
  | .xsiType d t b =>
    if s.1.stale then (s, none)
    else ((applyWrites s.1 (budgeted (stepWrites sch m s.1 s.2 d t) b), s.2), none)
  | .wild a pc n => (((wildStep sch m s.1 a pc n).1, s.2), (wildStep sch m s.1 a pc n).2)
  | .nsRead n => (({ s.1 with stale := false }, s.2), some (.nsSeen (isLoaded sch s.1 n)))
  | .collect d => (s, some (.collected s.2 (gate sch m s.1 s.2 d)))
  | .fields d t => (s, some (.typing (typingOf sch s.1 s.2 d t)))
  | .leave ids => ((s.1, s.2.leave ids), none)
  | .setCtx ctx => ((s.1, ctx), none)
  | .memoCall k =>
    match s.1.memo.lookup k with
    | some v => (s, some (.memo v))
    | none => (({ s.1 with memo := (k, sch.pure k) :: s.1.memo }, s.2), some (.memo (sch.pure k)))
  | .localValue _ v => (s, some (.memo v))
  | .scratchUse dirt => (({ s.1 with scratch := dirt }, s.2), some (.scratch []))

/-- the steps of the (possibly aborted) walk over one document, from a given state -/
def run (sch : Sch) (m : Mode) : Res × Ctx → List Step → (Res × Ctx) × List Obs
  | s, [] => (s, [])
  | s, x :: xs =>
    let (s1, o) := step sch m s x
    let (s2, os) := run sch m s1 xs
    (s2, o.toList ++ os)

/-- a call: the counters start empty (a new context per call); the residue is what the schema holds -/
def call (sch : Sch) (m : Mode) (r : Res) (doc : List Step) : Res × List Obs :=
  let (s, os) := run sch m ({ r with stale := false }, []) doc
  (s.1, os)

/-- the residue after a history of calls -/
def after (sch : Sch) (m : Mode) (hist : List (List Step)) : Res :=
  hist.foldl (fun r doc => (call sch m r doc).1) Res.init

/-- `d` can be bound to `c` by some xsi:type widening (decidable: the tables are finite) -/
def widenableB (sch : Sch) (c : Con) (d : Decl) : Bool :=
  sch.wtab.any fun e => e.1.1 == c && sch.isComplex e.1.2.2 && e.2.contains d

/-- every xsi block of the document ran to its end -/
def complete : List Step → Bool
  | [] => true
  | .xsiType _ _ (some _) :: _ => false
  | _ :: xs => complete xs

/-- the documents on which the code as it is cannot be influenced by a history: whenever an element
    ends while a constraint `c` is enabled and the element's declaration is reachable through SOME
    xsi:type widening of `c`, the run of a fresh schema has bound it already -/
def selfSufficient (sch : Sch) : Res × Ctx → List Step → Bool
  | _, [] => true
  | s, x :: xs =>
    (match x with
      | .collect d => s.2.all fun p => !p.2 || !widenableB sch p.1 d || isSel sch s.1 p.1 d
      | _ => true) && selfSufficient sch (step sch .gated s x).1 xs

/-- a step that runs to its end and does not look at the namespaces -/
def stepPlain : Step → Bool
  | .xsiType _ _ (some _) => false
  | .wild .. => false
  | .nsRead _ => false
  | _ => true

def plainDoc (doc : List Step) : Bool := doc.all stepPlain

def isWild : Step → Bool
  | .wild .. => true
  | _ => false

/-- the namespace can neither be loaded on demand nor found loaded by an earlier call: it is in the maps since
    the schema was built, or nothing can load it -/
def nsStable (sch : Sch) (n : Nat) : Bool := sch.nsBase.contains n || !sch.loadable.contains n

/-- the documents on which the CODE AS IT IS cannot be influenced by a history: every namespace a non-skip
    wildcard or the root lookup meets is stable -/
def stepQuiet (sch : Sch) : Step → Bool
  | .wild _ pc n => pc == .skip || nsStable sch n
  | .nsRead n => nsStable sch n
  | _ => true

def nsQuiet (sch : Sch) (doc : List Step) : Bool := doc.all (stepQuiet sch)

end XsVerif.History
