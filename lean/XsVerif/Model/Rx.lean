/-
  Counted regular expressions with interleave, over an abstract leaf type `L` matched against
  symbols `σ` by `m : L → σ → Bool`.  This is the *specification language* of XSD content
  models (`Lang`) and its verified executable oracle (`accepts`, by Brzozowski derivatives).
  No Mathlib import.
-/
namespace XsVerif

inductive Rx (L : Type) where
  | empty
  | eps
  | sym (a : L)
  | cat (r s : Rx L)
  | alt (r s : Rx L)
  | rep (r : Rx L) (lo : Nat) (hi : Option Nat)     -- r{lo,hi}; `none` = unbounded
  | shuffle (r s : Rx L)                             -- interleaving (xs:all, open content)
  deriving Repr, Inhabited, DecidableEq

namespace Rx
variable {L σ : Type}

/-- `Interleave u v w`: `w` is an interleaving of `u` and `v`. -/
inductive Interleave : List σ → List σ → List σ → Prop where
  | nil : Interleave [] [] []
  | left {u v w} (c : σ) : Interleave u v w → Interleave (c :: u) v (c :: w)
  | right {u v w} (c : σ) : Interleave u v w → Interleave u (c :: v) (c :: w)

/-- upper bound check: `n ≤ hi` with `none` = ∞ -/
def leHi (n : Nat) : Option Nat → Prop
  | none => True
  | some h => n ≤ h

instance (n : Nat) (hi : Option Nat) : Decidable (leHi n hi) := by
  cases hi <;> simp only [leHi] <;> infer_instance

/-- S: the language of a counted regular expression. -/
def Lang (m : L → σ → Bool) : Rx L → List σ → Prop
  | .empty, _ => False
  | .eps, w => w = []
  | .sym a, w => ∃ c, w = [c] ∧ m a c = true
  | .cat r s, w => ∃ u v, w = u ++ v ∧ Lang m r u ∧ Lang m s v
  | .alt r s, w => Lang m r w ∨ Lang m s w
  | .rep r lo hi, w => ∃ ws : List (List σ), w = ws.flatten ∧ lo ≤ ws.length ∧ leHi ws.length hi ∧
      ∀ x ∈ ws, Lang m r x
  | .shuffle r s, w => ∃ u v, Interleave u v w ∧ Lang m r u ∧ Lang m s v

def hiPos : Option Nat → Bool
  | none => true
  | some h => 0 < h

def hiPred : Option Nat → Option Nat
  | none => none
  | some h => some (h - 1)

def loLeHi (lo : Nat) : Option Nat → Bool
  | none => true
  | some h => lo ≤ h

/-- `ε ∈ L(r)` -/
def nullable : Rx L → Bool
  | .empty => false
  | .eps => true
  | .sym _ => false
  | .cat r s => nullable r && nullable s
  | .alt r s => nullable r || nullable s
  | .rep r lo hi => loLeHi lo hi && (lo == 0 || nullable r)
  | .shuffle r s => nullable r && nullable s

/-- Brzozowski derivative. -/
def deriv (m : L → σ → Bool) (c : σ) : Rx L → Rx L
  | .empty => .empty
  | .eps => .empty
  | .sym a => if m a c then .eps else .empty
  | .cat r s => if nullable r then .alt (.cat (deriv m c r) s) (deriv m c s) else .cat (deriv m c r) s
  | .alt r s => .alt (deriv m c r) (deriv m c s)
  | .rep r lo hi =>
      if hiPos hi && loLeHi lo hi then .cat (deriv m c r) (.rep r (lo - 1) (hiPred hi)) else .empty
  | .shuffle r s => .alt (.shuffle (deriv m c r) s) (.shuffle r (deriv m c s))

/-- cheap syntactic emptiness (sound, not complete): used only to prune derivatives. -/
def isEmpty : Rx L → Bool
  | .empty => true
  | .cat r s => isEmpty r || isEmpty s
  | .alt r s => isEmpty r && isEmpty s
  | .shuffle r s => isEmpty r || isEmpty s
  | _ => false

/-- pruning: replace syntactically empty sub-expressions of `alt` (keeps derivative sizes small) -/
def prune : Rx L → Rx L
  | .alt r s => if isEmpty r then prune s else if isEmpty s then prune r else .alt (prune r) (prune s)
  | .cat r s => if isEmpty r || isEmpty s then .empty else .cat (prune r) s
  | .shuffle r s => if isEmpty r || isEmpty s then .empty else .shuffle (prune r) (prune s)
  | r => r

def derivs (m : L → σ → Bool) : Rx L → List σ → Rx L
  | r, [] => r
  | r, c :: w => derivs m (prune (deriv m c r)) w

/-- O: the executable oracle for `Lang`. -/
def accepts (m : L → σ → Bool) (r : Rx L) (w : List σ) : Bool := nullable (derivs m r w)

end Rx
end XsVerif
