/-
  C04: the character-data check of element-only content (XsdGroup.raw_decode, groups.py:972-981) on tree
  sources that keep comment / PI nodes.

      if obj.text and obj.text.strip() or any(child.tail and child.tail.strip() for child in obj): error

  Every child counts — element or comment / PI — because in such a tree the character data that follows a
  comment is the TAIL OF THE COMMENT NODE.  A parser that drops these nodes (the text sources, the default
  ElementTree parser) appends that data to the tail of the preceding element, or to the text of the parent.
  The verdict must not depend on which of the two trees is validated.

  No Mathlib import: linked into the native driver `drv_c04`.
-/
namespace XsVerif.CharData

/-- a child node: an element or a comment / PI, with the character data that follows it -/
inductive Kid where
  | elem (tail : String)
  | node (tail : String)
  deriving Repr, DecidableEq

def Kid.tail : Kid → String
  | .elem t => t
  | .node t => t

def isSpace (c : Char) : Bool := c == ' ' || c == '\n' || c == '\t' || c == '\r'

/-- `s and s.strip()` -/
def nonBlank (s : String) : Bool := s.toList.any (fun c => !isSpace c)

/-- the check of the code: text of the element, tails of ALL children -/
def hasCdata (text : String) (kids : List Kid) : Bool :=
  nonBlank text || kids.any (fun k => nonBlank k.tail)

/-- NOT the code (counter-example only): the tails of comment / PI children are skipped -/
def hasCdataSkippingNodes (text : String) (kids : List Kid) : Bool :=
  nonBlank text || kids.any (fun k => match k with | .elem t => nonBlank t | .node _ => false)

/-- the tree a comment-dropping parser builds: `cur` is the character-data slot being extended (the text of the
    parent, then the tail of the last element); returns that slot and the tails of the following elements -/
def dropNodes : String → List Kid → String × List String
  | cur, [] => (cur, [])
  | cur, .node t :: ks => dropNodes (cur ++ t) ks
  | cur, .elem t :: ks =>
    let r := dropNodes t ks
    (cur, r.1 :: r.2)

/-- the check on the tree without comment / PI nodes -/
def hasCdataDropped (text : String) (kids : List Kid) : Bool :=
  let r := dropNodes text kids
  nonBlank r.1 || r.2.any nonBlank

end XsVerif.CharData
