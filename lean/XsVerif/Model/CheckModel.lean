/-
  C15, layer M: statement-level port of `check_model` and `distinguishable_paths`
  (xmlschema/validators/models.py:36-180, including the `max_occurs == 0` skips of commits 566492d
  (nested particles) and 3bbfd3c (root group))
  over the arena of Model/Particle, with the overlap / consistency tests of elements
  (elements.py:1205-1228 XSD 1.0, 1365-1413 XSD 1.1) and wildcards (wildcards.py:586-630, 755-805;
  wildcard pairs: `isOverlap` of Model/Wildcard).

  Python object identity is the dense id assigned by the harness.  A path is the list of group ids
  from the root of the model to the parent of a leaf (`current_path`), as in the Python code.
  `paths` is the Python dict keyed by `e.name` (`None` for every wildcard: a later wildcard
  *replaces* an earlier one; a later element replaces an earlier element of the same name) in
  insertion order.  No Mathlib import.

  `Ctx.fx : Fixes` selects the variant of the algorithm: all `false` = the pinned code; each flag = one hunk of the
  proposed repairs notes/fixes/C15-*.patch (together: C15-all-combined.patch).  The harness detects the variant of
  the tree under test by replaying one witness per repair (harness/props/c15.py:detect_fixes).
-/
import XsVerif.Model.Particle
import XsVerif.Model.Upa

namespace XsVerif.CM
open XsVerif.Wildcard

/-- what the overlap / consistency tests read from an element particle -/
structure EInfo where
  name : QN
  ty : Nat                          -- identity of `e.type`
  sgHead : Option QN := none        -- `e.substitution_group`
  direct : List QN := []            -- names of `maps.substitution_groups.get(e.name, ())`
  subs : List (QN × Nat) := []      -- `e.iter_substitutes()`: (name, type identity), in order
  headOk : Bool := true             -- `e.parent is None or e.ref is not None` (global declaration or reference)
  deriving Repr, Inhabited

/-- Which of the proposed repairs of `check_model` the tree under test contains (detected by the harness by
    replaying one witness per repair on the real code).  All `false` = the pinned algorithm. -/
structure Fixes where
  /-- notes/fixes/C15-shared-group-occurrences.patch: no `pe is e` shortcut; "same parent" = same occurrence
      of the parent (the two paths are the same objects position by position) -/
  shared : Bool := false
  /-- notes/fixes/C15-repeated-sequence.patch, models.py: the `pe.is_univocal()` shortcut only when the
      parent sequence has `maxOccurs = 1` -/
  repSeq : Bool := false
  /-- notes/fixes/C15-repeated-sequence.patch, elements.py: XSD 1.0 `is_overlap` through a substitution-group
      head only when the head side is a global declaration or a reference -/
  head10 : Bool := false
  /-- notes/fixes/C15-edc-substitution-xsd10.patch: XSD 1.0 `is_consistent` walks `iter_substitutes()` -/
  edc10 : Bool := false
  /-- notes/fixes/C15-edc-loop-variable.patch (finding C15-F4): in `is_consistent` the loop variable of the first,
      unsuccessful search (`for e1 in self.iter_substitutes()`) no longer leaks into the type comparison.
      `false` = the code as it is: when `self` has substitutes, none of them is named like `other`, and `other` has a
      substitute named like `self`, the type compared is that of the LAST substitute of `self`, not of `self`. -/
  edcLoop : Bool := false
  deriving Repr, Inhabited, DecidableEq

/-- every proposed repair applied (notes/fixes/C15-all-combined.patch) -/
def Fixes.all : Fixes := { shared := true, repSeq := true, head10 := true, edc10 := true, edcLoop := true }

structure Ctx where
  A : Arena
  einfo : Array (Option EInfo)
  defined : List QN                 -- names of `maps.elements` (for `##defined`)
  v11 : Bool
  fx : Fixes := {}
  deriving Inhabited

section
variable (M : Ctx)

def Ctx.node (i : Nat) : Node := M.A.node i
def Ctx.info (i : Nat) : EInfo := (M.einfo.getD i none).getD default
def Ctx.isAny (i : Nat) : Bool := (M.node i).kind == .any
def Ctx.isElem (i : Nat) : Bool := (M.node i).kind == .elem

/-- `e.name`: the key of the `paths` dict -/
def Ctx.key (i : Nat) : Option QN := if M.isElem i then some (M.info i).name else none

/-- `is_emptiable` (particles.py:75, groups.py:167) -/
def emptiableF : Nat → Nat → Bool
  | 0, _ => false
  | fuel + 1, i =>
    let n := M.node i
    match n.kind with
    | .elem | .any => n.lo == 0
    | .choice => n.lo == 0 || n.content.isEmpty || n.content.any (emptiableF fuel)
    | _ => n.lo == 0 || n.content.isEmpty || n.content.all (emptiableF fuel)

def Ctx.emptiable (i : Nat) : Bool := emptiableF M (M.A.size + 2) i

/-- `is_univocal` (particles.py:105): `min_occurs == max_occurs` -/
def Ctx.univocal (i : Nat) : Bool := (M.node i).hi == some (M.node i).lo

/-- wildcard `is_matching(name, default_namespace)` as called from `is_overlap` (no group, no
    occurs): XSD 1.0 wildcards.py:164-174, XSD 1.1 wildcards.py:755-799 -/
def Ctx.wcMatches (w : Nat) (q : QN) : Bool :=
  let c := (M.node w).wc
  if M.v11 then nsAllowed c q.ns && !(c.notDefined && M.defined.contains q) && !c.notQ.contains q
  else nsAllowed c q.ns

/-- element `is_overlap` with another element (elements.py:1208-1212 / 1365-1374) -/
def Ctx.overlapEE (s o : Nat) : Bool :=
  let a := M.info s
  let b := M.info o
  if M.v11 then
    a.name == b.name || b.subs.any (fun x => a.name == x.1) ||
      a.subs.any fun e => b.name == e.1 || b.subs.any fun x => x.1 == e.1
  else if M.fx.head10 then
    a.name == b.name ||
      (if b.sgHead == some a.name then a.headOk else if some b.name == a.sgHead then b.headOk else false)
  else
    a.name == b.name || b.sgHead == some a.name || some b.name == a.sgHead

/-- element `is_overlap` with a wildcard (elements.py:1213-1218 / 1375-1381) -/
def Ctx.overlapEA (s w : Nat) : Bool :=
  let a := M.info s
  M.wcMatches w a.name || a.direct.any fun n => M.wcMatches w n

/-- `pe.is_overlap(e)`; a wildcard asked about an element delegates to the element
    (wildcards.py:593-597) -/
def Ctx.overlap (pe e : Nat) : Bool :=
  if M.isElem pe then
    if M.isElem e then M.overlapEE pe e else if M.isAny e then M.overlapEA pe e else false
  else if M.isAny pe then
    if M.isElem e then M.overlapEA e pe else if M.isAny e then isOverlap (M.node pe).wc (M.node e).wc else false
  else false

/-- `e.is_consistent(pe)`.  XSD 1.0 element: elements.py:1220-1228.  XSD 1.1 element:
    elements.py:1383-1413 (no type alternatives: the wildcard clause and the non-strict clause are
    then `True`).  Wildcards: wildcards.py:628-630, 801-805 (`True` without type alternatives). -/
def Ctx.consistent (e pe : Nat) : Bool :=
  if !(M.isElem e && M.isElem pe) then true
  else
    let a := M.info e
    let b := M.info pe
    if !M.v11 && !M.fx.edc10 then a.name != b.name || a.ty == b.ty
    else if a.name == b.name then a.ty == b.ty
    else match a.subs.find? (fun x => x.1 == b.name) with
      | some e1 => e1.2 == b.ty
      | none => match b.subs.find? (fun x => x.1 == a.name) with
        | some e2 =>
          -- `e1` is `self` only if the first loop did not run: Python leaves the last substitute in `e1`
          (if M.fx.edcLoop then a.ty else (a.subs.getLast?.map (·.2)).getD a.ty) == e2.2
        | none => true

/-! ### distinguishable_paths (models.py:36-98) -/

def Ctx.indexIn (g x : Nat) : Nat := (M.node g).content.idxOf x

def Ctx.anyNonEmptiable (l : List Nat) : Bool := l.any fun e => !M.emptiable e

/-- the loop `for k in range(depth + 1, len(path) - 1)` (models.py:68-84), over the pairs
    `(path[k], path[k+1])`; state = (univocal, before, after) -/
def Ctx.walk : List (Nat × Nat) → Bool × Bool × Bool → Bool × Bool × Bool
  | [], s => s
  | (g, nxt) :: rest, (univ, before, after) =>
    let n := M.node g
    let univ := univ && M.univocal g
    let idx := M.indexIn g nxt
    if n.kind == .seq then
      Ctx.walk rest (univ, before || M.anyNonEmptiable (n.content.take idx),
        after || M.anyNonEmptiable (n.content.drop (idx + 1)))
    else if (n.content.zipIdx.any fun (e, k) => k != idx && M.emptiable e) then
      Ctx.walk rest (false, before, after)
    else Ctx.walk rest (univ, before, after)

def pairsFrom (path : List Nat) (depth : Nat) : List (Nat × Nat) :=
  let segs := path.drop (depth + 1)
  segs.zip (segs.drop 1)

def Ctx.distinguishable (path1 path2 : List Nat) : Bool :=
  match path1.findIdx? (fun e => !path2.contains e) with
  | some 0 => true
  | fd =>
    let depth := match fd with | some k => k - 1 | none => 0
    let g := path1.getD depth 0
    let n := M.node g
    if n.hi == some 0 then true
    else
      let isSeq := n.kind == .seq
      let idx1 := M.indexIn g (path1.getD (depth + 1) 0)
      let idx2 := M.indexIn g (path2.getD (depth + 1) 0)
      let before1 := isSeq && M.anyNonEmptiable (n.content.take idx1)
      let mid := isSeq && M.anyNonEmptiable ((n.content.drop (idx1 + 1)).take (idx2 - (idx1 + 1)))
      let after2 := isSeq && M.anyNonEmptiable (n.content.drop (idx2 + 1))
      let (univocal1, before1, after1) := M.walk (pairsFrom path1 depth) (true, before1, mid)
      let (univocal2, before2, after2) := M.walk (pairsFrom path2 depth) (true, mid, after2)
      let last1 := M.univocal (path1.getLast?.getD 0)
      let last2 := M.univocal (path2.getLast?.getD 0)
      if !isSeq then
        if before1 && before2 then true
        else if before1 then (univocal1 && last1) || after1 || n.hi == some 1
        else if before2 then (univocal2 && last2) || after2 || n.hi == some 1
        else false
      else if n.hi == some 1 then
        before2 || ((before1 || univocal1) && (last1 || after1))
      else
        (before2 || ((before1 || univocal1) && (last1 || after1))) &&
        (before1 || ((before2 || univocal2) && (last2 || after2)))

/-! ### check_model (models.py:101-174) -/

mutual
/-- `safe_iter_path`: the leaves in document order with their `current_path`, skipping every
    item with `max_occurs == 0` (the root group itself is tested in `Ctx.visited`) -/
def Particle.leafPaths (path : List Nat) : Particle → List (Nat × List Nat)
  | .leaf l _ _ => [(l.id, path)]
  | .group i _ _ _ ps => ps.leafPaths (path ++ [i])
def Particles.leafPaths (path : List Nat) : Particles → List (Nat × List Nat)
  | .nil => []
  | .cons p ps => (if p.maxIsZero then [] else p.leafPaths path) ++ ps.leafPaths path
def Particle.maxIsZero : Particle → Bool
  | .leaf _ _ hi => hi == some 0
  | .group _ _ _ hi _ => hi == some 0
end

inductive CMErr where
  | edc (e pe : Nat)            -- "Element Declarations Consistent violation"
  | sameGroup (pe e : Nat)      -- "overlap and are in the same choice/all group"
  | upa (pe e : Nat)            -- "Unique Particle Attribution violation"
  deriving Repr, DecidableEq, Inhabited

structure Entry where
  key : Option QN
  leaf : Nat
  path : List Nat
  deriving Repr, Inhabited

structure Acc where
  precs : List (Nat × Nat) := []             -- `add_precedence(wildcard, element)` calls, in order
  trace : List (Nat × Nat × Bool) := []      -- `distinguishable_paths` calls (pe, e, result), in order
  deriving Repr, Inhabited

/-- models.py:145-156: the same-parent shortcuts.  `.ok none` = `continue`, `.ok (some acc)` = go on
    to `distinguishable_paths`, `.error` = exception -/
def Ctx.stage1 (e : Nat) (cp : List Nat) (pe : Nat) (pp : List Nat) (acc : Acc) : Except CMErr (Option Acc) :=
  let sameParent := if M.fx.shared then pp == cp else pp.getLast? == cp.getLast? && pp.getLast?.isSome
  let parentKind := (M.node (pp.getLast?.getD 0)).kind
  if sameParent then
    if parentKind == .all || parentKind == .choice then
      if M.v11 && M.isAny pe && !M.isAny e then .ok (some { acc with precs := acc.precs ++ [(pe, e)] })
      else if M.v11 && M.isAny e && !M.isAny pe then .ok (some { acc with precs := acc.precs ++ [(e, pe)] })
      else .error (.sameGroup pe e)
    else if M.univocal pe && (!M.fx.repSeq || (M.node (pp.getLast?.getD 0)).hi == some 1) then .ok none
    else .ok (some acc)
  else .ok (some acc)

/-- models.py:158-166: the path test; `none` = no exception -/
def Ctx.stage2 (e : Nat) (cp : List Nat) (pe : Nat) (pp : List Nat) (acc : Acc) : Acc × Option CMErr :=
  let d := M.distinguishable (pp ++ [pe]) (cp ++ [e])
  let acc := { acc with trace := acc.trace ++ [(pe, e, d)] }
  if d then (acc, none)
  else if M.v11 && M.isAny pe && !M.isAny e then ({ acc with precs := acc.precs ++ [(pe, e)] }, none)
  else if M.v11 && M.isAny e && !M.isAny pe then ({ acc with precs := acc.precs ++ [(e, pe)] }, none)
  else (acc, some (.upa pe e))

/-- what happens for one `(pe, previous_path)` of the inner loop after the EDC and overlap tests;
    `none` = no exception -/
def Ctx.upaStep (e : Nat) (cp : List Nat) (pe : Nat) (pp : List Nat) (acc : Acc) : Acc × Option CMErr :=
  match M.stage1 e cp pe pp acc with
  | .error err => (acc, some err)
  | .ok none => (acc, none)
  | .ok (some acc) => M.stage2 e cp pe pp acc

/-- the inner loop `for pe, previous_path in paths.values()` -/
def Ctx.against (e : Nat) (cp : List Nat) : List Entry → Acc → Acc × Option CMErr
  | [], acc => (acc, none)
  | en :: rest, acc =>
    if !M.consistent e en.leaf then (acc, some (.edc e en.leaf))
    else if (!M.fx.shared && en.leaf == e) || !M.overlap en.leaf e then Ctx.against e cp rest acc
    else match M.upaStep e cp en.leaf en.path acc with
      | (acc, some err) => (acc, some err)
      | (acc, none) => Ctx.against e cp rest acc

/-- `paths[e.name] = e, current_path[:]` with Python dict semantics -/
def dictSet (d : List Entry) (en : Entry) : List Entry :=
  if d.any (·.key == en.key) then d.map fun x => if x.key == en.key then en else x
  else d ++ [en]

structure CMResult where
  err : Option CMErr
  precs : List (Nat × Nat)
  trace : List (Nat × Nat × Bool)
  deriving Repr, Inhabited

/-- the outer loop `for e in safe_iter_path()`; precedences and trace collected up to an
    exception are kept (the Python side effects happened before it was raised) -/
def Ctx.outer : List (Nat × List Nat) → List Entry → Acc → CMResult
  | [], _, acc => ⟨none, acc.precs, acc.trace⟩
  | (e, cp) :: rest, d, acc =>
    match M.against e cp d acc with
    | (acc, some err) => ⟨some err, acc.precs, acc.trace⟩
    | (acc, none) => Ctx.outer rest (dictSet d ⟨M.key e, e, cp⟩) acc

/-- the particles `check_model` visits, with their paths.  A root group with `maxOccurs = 0` is an
    empty content model: `check_model` returns at once (models.py:133-134, commit 3bbfd3c). -/
def Ctx.visited (_M : Ctx) (p : Particle) : List (Nat × List Nat) :=
  if p.maxIsZero then [] else p.leafPaths []

/-- M: `check_model(group)` -/
def Ctx.checkModel (p : Particle) : CMResult := M.outer (M.visited p) [] {}

/-- the tie between the two things the harness serialises for one model: the type table `T` given to the
    specification lists, for every visited element particle, the declaration the port reads for it
    (`e.name`, `e.type`) and its substitutes (`e.iter_substitutes()`).  Evaluated by the driver on every
    explored model; hypothesis of `checkModel_edc_error_sound`. -/
def Ctx.tableCovers (T : TypeTable) (p : Particle) : Bool :=
  ((M.visited p).map (·.1)).all fun i => !M.isElem i ||
    ((declsOf T p).contains ((M.info i).name, (M.info i).ty) &&
      (M.info i).subs.all fun s => (declsOf T p).contains s)

/-- verdict only -/
def Ctx.accepts (p : Particle) : Bool := (M.checkModel p).err.isNone

end

/-- the `Ctx` of a particle tree with the given per-element information -/
def mkCtx (v11 : Bool) (n : Nat) (nodes : List (Nat × Node)) (infos : List (Nat × EInfo)) (defined : List QN)
    (fx : Fixes := {}) : Ctx :=
  { A := mkArena n nodes
    einfo := infos.foldl (fun a (i, x) => a.setIfInBounds i (some x)) (Array.replicate n none)
    defined, v11, fx }

end XsVerif.CM
