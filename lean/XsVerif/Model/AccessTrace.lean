/-
  C12 — trace model of nested loads, and the rendering of remote URLs.

  Ported code:
    xmlschema/resources/xml_resource.py:287-303   get_url (strip, dict uri_mapper, normalize_url)
    xmlschema/arguments.py:257-263                BaseUrlOption.__get__: the public `base_url` of a
                                                  resource with a URL is `os.path.dirname(url)`
    xmlschema/loaders.py:88-181, 296-320          load_declared_schemas / load_schema: every
        include / redefine / override / import constructs the child resource with
        `base_url = schema.base_url` and the settings' `allow`; a blocked include aborts the build
        (XMLResourceBlocked is not an OSError), a blocked import is recorded as a missing location
    xmlschema/utils/urls.py:28-58                 get_uri
    xmlschema/utils/urls.py:140-203               is_encoded_url / is_safe_url / encode_url / decode_url
    urllib.parse.urlunsplit / quote(safe=...) / unquote (str level) (stdlib, re-implemented for
    byte strings; agreement with CPython is part of the correspondence run)
-/
import XsVerif.Model.Access
namespace XsVerif.Access

/-! ### remote URL rendering: `encode_url(get_uri(*urlsplit(url)))` -/

def isAlwaysSafe (n : Nat) : Bool :=
  isAlpha n || isDigit n || n == 95 || n == 46 || n == 45 || n == 126

/-- `quote(s, safe=...)`; values that are not bytes are passed through (see `isSafe`) -/
def quoteWith (safe : List Nat) (p : Bytes) : Bytes :=
  p.flatMap (fun n => if isAlwaysSafe n || safe.contains n || decide (256 ≤ n) then [n]
                      else [37, hex (n / 16), hex (n % 16)])

/-- one step of a strict UTF-8 decoder: (continuation bytes still needed, admissible range of the next one) -/
def utf8Step (st : Nat × Nat × Nat) (c : Nat) : Option (Nat × Nat × Nat) :=
  let (need, lo, hi) := st
  if need = 0 then
    if c < 128 then some (0, 128, 191)
    else if 194 ≤ c ∧ c ≤ 223 then some (1, 128, 191)
    else if c = 224 then some (2, 160, 191)
    else if (225 ≤ c ∧ c ≤ 236) ∨ c = 238 ∨ c = 239 then some (2, 128, 191)
    else if c = 237 then some (2, 128, 159)
    else if c = 240 then some (3, 144, 191)
    else if 241 ≤ c ∧ c ≤ 243 then some (3, 128, 191)
    else if c = 244 then some (3, 128, 143)
    else none
  else if lo ≤ c ∧ c ≤ hi then some (need - 1, 128, 191) else none

def validUtf8 (s : Bytes) : Bool :=
  match s.foldlM utf8Step (0, 128, 191) with
  | some (0, _, _) => true
  | _ => false

/-- `urllib.parse.unquote` on a `str`: percent-decoded bytes are decoded as UTF-8 with
    errors='replace'.  `none` = a replacement would happen (not modelled). -/
def unquoteStr (s : Bytes) : Option Bytes :=
  let r := unquote s
  if validUtf8 r then some r else none

def endsWith (s : Bytes) (c : Nat) : Bool := s.getLast? == some c

/-- `get_uri(scheme, authority, path, query, fragment)` (urls.py:28-58); `none` = raises ValueError -/
def getUri (scheme netloc path query fragment : Bytes) : Option Bytes :=
  if scheme = urn then
    if path = [] ∨ netloc ≠ [] ∨ query ≠ [] ∨ fragment ≠ [] then none
    else if startsWith path [58] ∨ endsWith path 58 then none
    else some (urn ++ 58 :: path)
  else
    let url :=
      if netloc ≠ [] then
        let path := if path ≠ [] ∧ ¬ startsWith path [47] then 47 :: path else path
        [47, 47] ++ netloc ++ path
      else if (match scheme with | [c] => isAlpha c | _ => false) then path
      else if (scheme ≠ [] ∧ (startsWith path [47] ∨ startsWith path [92])) ∨
              (scheme = [] ∧ startsWith path [47, 47]) then [47, 47] ++ path
      else path
    let url := if scheme ≠ [] then scheme ++ 58 :: url else url
    let url := if query ≠ [] then url ++ 63 :: query else url
    let url := if fragment ≠ [] then url ++ 35 :: fragment else url
    some url

/-- `urllib.parse.uses_netloc` (CPython 3.12), as byte strings -/
def usesNetloc : List Bytes :=
  ["", "ftp", "http", "gopher", "nntp", "telnet", "imap", "wais", "file", "mms", "https", "shttp",
   "snews", "prospero", "rtsp", "rtsps", "rtspu", "rsync", "svn", "svn+ssh", "sftp", "nfs", "git",
   "git+ssh", "ws", "wss", "itms-services"].map (fun (s : String) => s.toList.map Char.toNat)

/-- `urllib.parse.urlunsplit` (CPython 3.12.1) -/
def urlunsplit (scheme netloc path query fragment : Bytes) : Bytes :=
  let url :=
    if netloc ≠ [] ∨ (scheme ≠ [] ∧ usesNetloc.contains scheme ∧ ¬ startsWith path [47, 47]) then
      let path := if path ≠ [] ∧ ¬ startsWith path [47] then 47 :: path else path
      [47, 47] ++ netloc ++ path
    else path
  let url := if scheme ≠ [] then scheme ++ 58 :: url else url
  let url := if query ≠ [] then url ++ 63 :: query else url
  if fragment ≠ [] then url ++ 35 :: fragment else url

def querySafe : List Nat := [59, 47, 63, 58, 64, 61, 38]      -- ';/?:@=&'
def pathSafeOf (scheme : Bytes) : List Nat := if isLocalScheme scheme then [58, 47, 92] else [47]

/-- `is_safe_url(url)` (urls.py:152-163, method='xml') -/
def isSafeUrl (url : Bytes) : Option Bool := do
  let parts := urlsplit url
  let n ← unquoteStr parts.netloc
  let p ← unquoteStr parts.path
  let q ← unquoteStr parts.query
  let f ← unquoteStr parts.fragment
  pure (parts.netloc == quoteWith [64, 58] n && parts.path == quoteWith (pathSafeOf parts.scheme) p &&
        parts.query == quoteWith querySafe q && parts.fragment == quoteWith querySafe f)

/-- `is_encoded_url(url)` (urls.py:140-149) -/
def isEncodedUrl (url : Bytes) : Option Bool := do
  let r ← unquoteStr url
  let url' := url.map (fun c => if c = 43 then 36 else c)
  pure (r != url || (url.contains 43 && !url.contains 32 && unquote url' != url'))

/-- `decode_url(url)` (urls.py:188-203) -/
def decodeUrl (url : Bytes) : Option Bytes := do
  if !(← isEncodedUrl url) then pure url
  else
    let parts := urlsplit url
    pure (urlunsplit parts.scheme (← unquoteStr parts.netloc) (← unquoteStr parts.path)
      (← unquoteStr parts.query) (← unquoteStr parts.fragment))

/-- `encode_url(url)` (urls.py:166-185) -/
def encodeUrl (url : Bytes) : Option Bytes := do
  if ← isSafeUrl url then pure url
  else
    let url ← (do if ← isEncodedUrl url then decodeUrl url else pure url)
    let parts := urlsplit url
    pure (urlunsplit parts.scheme (quoteWith [64, 58] parts.netloc)
      (quoteWith (pathSafeOf parts.scheme) parts.path) (quoteWith querySafe parts.query)
      (quoteWith querySafe parts.fragment))

/-- The URL string that `normalize_url` returns when its result is not a local file
    (urls.py:222-224 and 255-261); `none` = raises, or needs a UTF-8 replacement (not modelled). -/
def remoteUrl (cwd : Bytes) (base : Option Bytes) (url0 : Bytes) : Option Bytes :=
  match normalizeUrl cwd base url0 with
  | .remote _ _ none =>
    let parts := urlsplit (lstrip url0)
    getUri parts.scheme parts.netloc parts.path parts.query parts.fragment >>= encodeUrl
  | .remote s n (some j) => getUri s n j [] [] >>= encodeUrl
  | _ => none

/-! ### the trace of a nested load -/

abbrev Mapper := List (Bytes × Bytes)

/-- dict `uri_mapper` (xml_resource.py:297-299) -/
def applyMapper (m : Mapper) (uri : Bytes) : Bytes :=
  match m.lookup uri with
  | some v => v
  | none => uri

/-- The reference structure of the documents: the document found at `loc` (as spelled in its
    parent) contains the references `refs`.
    `strict = true`  (xs:include / xs:redefine / xs:override, and the main source): the resource is
       constructed from the location as spelled; a blocked location aborts the whole load
       (XMLResourceBlocked is not an OSError, loaders.py:121-139);
    `strict = false` (xs:import, loaders.py:111-113 and 183-200): the location is first normalised
       against the base (`url = normalize_url(location, base_url)`), the resource is constructed
       from that URL; a blocked location is skipped as a missing location, and so is an imported
       schema whose own load was aborted by a blocked include (loaders.py:190 catches
       XMLResourceBlocked for the whole import). -/
inductive LoadTree where
  | node (loc : Bytes) (strict : Bool) (refs : List LoadTree)

/-- `normalize_url(location, base_url)` as a string (the import branch normalises before loading) -/
def preNormalize (cwd : Bytes) (b : Option Bytes) (loc : Bytes) : Bytes :=
  match normalizeUrl cwd b loc with
  | .file _ u => u
  | .remote .. => (remoteUrl cwd b loc).getD loc
  | _ => loc

/-- the `source` argument the child resource is constructed with -/
def sourceOf (cwd : Bytes) (b : Option Bytes) (strict : Bool) (loc : Bytes) : Bytes :=
  if strict then loc else preNormalize cwd b loc

inductive Event where
  /-- a resource was constructed with `source = loc`, `base_url = base`, passed the access check, was fetched -/
  | opened (base : Option Bytes) (loc : Bytes) (n : Norm)
  /-- the resource constructor raised XMLResourceBlocked -/
  | blocked (base : Option Bytes) (loc : Bytes) (d : Decision)
  /-- not decided by the model (Windows / UNC form, URN, remote URL that is not rendered) -/
  | undecided (base : Option Bytes) (loc : Bytes)
  deriving DecidableEq, Repr

def Event.isOpened : Event → Bool
  | .opened .. => true
  | _ => false

/-- `resource.base_url` of a fetched resource: `os.path.dirname(url)` -/
def childBase (cwd : Bytes) (b : Option Bytes) (loc : Bytes) : Norm → Option Bytes
  | .file _ u => some (dirname u)
  | .remote .. => (remoteUrl cwd b loc).map dirname
  | _ => none

mutual
/-- events of loading one reference under the base `b` and `allow = a` (inherited unchanged from
    the root: settings.py:259-285), and whether the load was aborted by a blocked strict reference.
    `readable n`: the fetched location yields a parseable document (its references are followed). -/
def loadNode (a : Allow) (cwd : Bytes) (m : Mapper) (readable : Norm → Bool) (b : Option Bytes) :
    LoadTree → List Event × Bool
  | .node loc strict refs =>
    let src := sourceOf cwd b strict loc
    let loc' := applyMapper m (strip src)
    let r := resolveWith a cwd b loc'
    match r.decision with
    | some .ok =>
      if readable r.norm then
        match childBase cwd b loc' r.norm with
        | some cb =>
          let rest := loadList a cwd m readable (some cb) refs
          (.opened b src r.norm :: rest.1, strict && rest.2)
        | none => ([.opened b src r.norm, .undecided b src], false)
      else ([.opened b src r.norm], false)
    | some d => ([.blocked b src d], strict)
    | none => ([.undecided b src], false)

def loadList (a : Allow) (cwd : Bytes) (m : Mapper) (readable : Norm → Bool) (b : Option Bytes) :
    List LoadTree → List Event × Bool
  | [] => ([], false)
  | t :: ts =>
    let r1 := loadNode a cwd m readable b t
    if r1.2 then r1
    else
      let r2 := loadList a cwd m readable b ts
      (r1.1 ++ r2.1, r2.2)
end

/-- the root resource: `XMLResource(source=loc, base_url=base, allow=a)`; in sandbox mode without a
    base URL the base is derived from the (unmapped) source itself (xml_resource.py:166-172) -/
def loadRoot (a : Allow) (cwd : Bytes) (m : Mapper) (readable : Norm → Bool) (base : Option Bytes)
    (t : LoadTree) : List Event × Bool :=
  match t with
  | .node loc _ _ =>
    match effectiveBase a cwd base loc with
    | none => ([.undecided base loc], false)
    | some b => loadNode a cwd m readable b t

end XsVerif.Access
