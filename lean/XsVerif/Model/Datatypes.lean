/-
  Model of simple-type decoding / validation of xmlschema (property C02):

    xmlschema/validators/simple_types.py   normalize (447-463), XsdAtomicBuiltin.raw_decode (705-790),
                                           XsdList.raw_decode (991-1019), XsdUnion.raw_decode (1178-1211),
                                           XsdAtomicRestriction.raw_decode (1449-1485)
    xmlschema/validators/facets.py         facet validators (171-610, 605-713)
    xmlschema/validators/helpers.py        range validators (168-237), integer/decimal/boolean
                                           converters (273-298)
    xmlschema/utils/decoding.py            count_digits (32-64)

  No Mathlib import: this file is linked into the native driver `drv_c02`.

  Texts are `List Char` (Python `str` = sequence of code points).  The class of characters that
  counts as white space is a parameter `W`: XSD says {#x20,#x9,#xA,#xD} (`isXmlWs`); the pinned code
  uses Python's `\s` / `str.strip()` / `str.split()` (`isPyWs`, finding C02-F4).  `pattern` facets
  and the float value space have no semantics here: a pattern is an oracle `P id text`.
-/
namespace XsVerif.Datatypes

abbrev Str := List Char

/-! ## white space (simple_types.py:447-463) -/

/-- XSD white space: #x20 | #x9 | #xA | #xD -/
def isXmlWs (c : Char) : Bool := c == ' ' || c == '\t' || c == '\n' || c == '\r'

/-- Python `str.isspace()` / `re` `\s` on `str` / default `str.strip()`, `str.split()`. -/
def isPyWs (c : Char) : Bool :=
  let n := c.toNat
  (9 ≤ n && n ≤ 13) || (28 ≤ n && n ≤ 32) || n == 0x85 || n == 0xA0 || n == 0x1680 ||
  (0x2000 ≤ n && n ≤ 0x200A) || n == 0x2028 || n == 0x2029 || n == 0x202F || n == 0x205F ||
  n == 0x3000

inductive WsMode where
  | preserve | replace | collapse
  deriving DecidableEq, Repr, Inhabited

/-- `_REGEX_SPACE.sub(' ', text)` -/
def wsReplace (W : Char → Bool) (s : Str) : Str := s.map fun c => if W c then ' ' else c

/-- `_REGEX_SPACES.sub(' ', text)`: every maximal run of white space becomes one blank.
    `inRun` = the previous character belonged to a run that was already replaced. -/
def squeeze (W : Char → Bool) : Bool → Str → Str
  | _, [] => []
  | inRun, c :: cs =>
    if W c then (if inRun then squeeze W true cs else ' ' :: squeeze W true cs)
    else c :: squeeze W false cs

/-- `str.lstrip` for the class `W` -/
def lstrip (W : Char → Bool) (s : Str) : Str := s.dropWhile W
/-- `str.rstrip` for the class `W`: a character is dropped iff it is white and everything after it
    was dropped -/
def rstrip (W : Char → Bool) : Str → Str
  | [] => []
  | c :: cs => match rstrip W cs with
    | [] => if W c then [] else [c]
    | r => c :: r
/-- `str.strip` for the class `W` -/
def strip (W : Char → Bool) (s : Str) : Str := rstrip W (lstrip W s)

/-- `_REGEX_SPACES.sub(' ', text).strip()` -/
def wsCollapse (W : Char → Bool) (s : Str) : Str := strip W (squeeze W false s)

def normalize (W : Char → Bool) : WsMode → Str → Str
  | .preserve, s => s
  | .replace, s => wsReplace W s
  | .collapse, s => wsCollapse W s

/-- `str.split()` for the class `W`: maximal runs of non-white characters.
    `cur` = the word being read (reversed). -/
def splitWs (W : Char → Bool) : Str → Str → List Str
  | cur, [] => if cur.isEmpty then [] else [cur.reverse]
  | cur, c :: cs =>
    if W c then (if cur.isEmpty then splitWs W [] cs else cur.reverse :: splitWs W [] cs)
    else splitWs W (c :: cur) cs

def words (W : Char → Bool) (s : Str) : List Str := splitWs W [] s

/-! ## digits, integers (helpers.py:27, 273-276) -/

def isDig (c : Char) : Bool := '0' ≤ c && c ≤ '9'
def digVal (c : Char) : Nat := c.toNat - 48

/-- Python `int()` of an ASCII digit string (Horner). -/
def natOfDigits (s : Str) : Nat := s.foldl (fun a c => 10 * a + digVal c) 0

/-- optional sign of `[+-]?` : (negative?, rest) -/
def splitSign : Str → Bool × Str
  | '-' :: r => (true, r)
  | '+' :: r => (false, r)
  | r => (false, r)

def allDigits (s : Str) : Bool := s.all isDig

/-- `integer_to_python`: `XSD_INTEGER_PATTERN.fullmatch` (`[+-]?[0-9]+`) then `int(value)`;
    `none` = ValueError. -/
def parseInt (s : Str) : Option Int :=
  let (neg, ds) := splitSign s
  if !ds.isEmpty && allDigits ds then
    some (if neg then - (natOfDigits ds : Int) else (natOfDigits ds : Int))
  else none

/-! ## decimals (helpers.py:28, 279-282; decimal.Decimal construction from a string) -/

/-- A `decimal.Decimal` built from an xs:decimal literal: sign, coefficient, `-exponent`. -/
structure Dec where
  neg : Bool
  coef : Nat
  scale : Nat
  deriving DecidableEq, Repr, Inhabited

/-- `decimal_to_python`: fullmatch of `[+-]?(?:[0-9]+(?:\.[0-9]*)?|\.[0-9]+)`, then `Decimal(value)`. -/
def parseDec (s : Str) : Option Dec :=
  let (neg, r) := splitSign s
  let ip := r.takeWhile isDig
  match r.dropWhile isDig with
  | [] => if ip.isEmpty then none else some ⟨neg, natOfDigits ip, 0⟩
  | '.' :: fp =>
    if allDigits fp && !(ip.isEmpty && fp.isEmpty) then some ⟨neg, natOfDigits (ip ++ fp), fp.length⟩
    else none
  | _ => none

def Dec.toInt (d : Dec) : Int := if d.neg then - (d.coef : Int) else d.coef

/-- numeric order of two Decimals (Python compares exactly) -/
def Dec.le (a b : Dec) : Bool := a.toInt * (10 : Int) ^ b.scale ≤ b.toInt * (10 : Int) ^ a.scale
def Dec.lt (a b : Dec) : Bool := a.toInt * (10 : Int) ^ b.scale < b.toInt * (10 : Int) ^ a.scale
def Dec.eqv (a b : Dec) : Bool := a.toInt * (10 : Int) ^ b.scale == b.toInt * (10 : Int) ^ a.scale
def Dec.ofInt (i : Int) : Dec := ⟨i < 0, i.natAbs, 0⟩

/-- digits of a natural number, most significant first (Python `str(int)`), with fuel. -/
def natDigitsAux : Nat → Nat → Str → Str
  | 0, _, acc => acc
  | fuel + 1, n, acc =>
    let acc' := Char.ofNat (48 + n % 10) :: acc
    if n / 10 = 0 then acc' else natDigitsAux fuel (n / 10) acc'

def natDigits (n : Nat) : Str := natDigitsAux (n + 1) n []

/-- `python_to_int` / `str(int)` -/
def intToStr (i : Int) : Str := if i < 0 then '-' :: natDigits i.natAbs else natDigits i.natAbs

/-! ### `str(Decimal)` (CPython `Decimal.__str__`) and `count_digits` (utils/decoding.py:32-64) -/

/-- The three shapes `str(Decimal)` takes for a finite number. -/
inductive DecRepr where
  /-- no '.' and no 'E' -/
  | plain (digits : Str)
  /-- `ip.fp` -/
  | point (ip fp : Str)
  /-- scientific: significand `d[.ddd]`, exponent (always negative here: value `E-n`) -/
  | sci (lead : Char) (rest : Str) (negExp : Nat)
  deriving DecidableEq, Repr

/-- CPython `Decimal.__str__` for coefficient digits `c` (no leading zeros, "0" for zero) and
    exponent `-scale ≤ 0`:  leftdigits = len(c) - scale; non-scientific iff leftdigits > -6. -/
def decRepr (c : Str) (scale : Nat) : DecRepr :=
  if scale = 0 then .plain c
  else if c.length + 6 > scale then
    -- dotplace = len(c) - scale
    if c.length > scale then .point (c.take (c.length - scale)) (c.drop (c.length - scale))
    else .point ['0'] (List.replicate (scale - c.length) '0' ++ c)
  else
    match c with
    | [] => .plain []      -- unreachable: a coefficient has at least one digit
    | d :: r => .sci d r (scale - c.length + 1)   -- 'E-%d' % (scale - len(c) + 1)

def dropTrailing (p : Char → Bool) (s : Str) : Str := (s.reverse.dropWhile p).reverse

/-- `count_digits` on the text produced by `str(Decimal)` (sign already stripped).
    `fix` = the repair of finding C02-F5 (a zero written in scientific notation, e.g. `0E-7`, has no
    digits); `fix = false` is the pinned code. -/
def countDigitsRepr (fix : Bool) : DecRepr → Nat × Nat
  | .plain ds => ((ds.dropWhile (· == '0')).length, 0)
  | .point ip fp => ((ip.dropWhile (· == '0')).length, (dropTrailing (· == '0') fp).length)
  | .sci d r e =>
    -- significand = (d ++ '.' ++ r if r else d).strip('0'); num_digits = len - ('.' in it)
    let numDigits :=
      if r.isEmpty then (if d == '0' then 0 else 1)
      else
        -- "d.r".strip('0'): leading d stripped when '0' (then the '.' stops the strip), trailing
        -- zeros of r stripped (the '.' stops that too); the '.' is not counted
        (if d == '0' then 0 else 1) + (dropTrailing (· == '0') r).length
    -- exponent = -e < 0  →  (0, num_digits - exponent - 1)
    if fix && numDigits == 0 then (0, 0) else (0, numDigits + e - 1)

/-- `count_digits(Decimal)` -/
def countDigitsDec (fix : Bool) (d : Dec) : Nat × Nat :=
  countDigitsRepr fix (decRepr (natDigits d.coef) d.scale)

/-- `count_digits(int)`: `len(str(abs(n)).lstrip('0'))` -/
def countDigitsInt (i : Int) : Nat × Nat := (((natDigits i.natAbs).dropWhile (· == '0')).length, 0)

/-! ## values -/

/-- time-zone offset in minutes (|offset| ≤ 840) -/
abbrev Tz := Option Int

/-- which of the nine date/time types -/
inductive DtKind where
  | dateTime | date | time | gYear | gYearMonth | gMonth | gMonthDay | gDay
  deriving DecidableEq, Repr, Inhabited

/-- an `AbstractDateTime` after construction: `_year` and the fields of `_dt` -/
structure DtVal where
  kind : DtKind
  year : Int
  month : Nat
  day : Nat
  hour : Nat
  minute : Nat
  second : Nat
  micro : Nat
  tz : Tz
  deriving DecidableEq, Repr, Inhabited

/-- a `Duration`: months and microseconds (seconds are quantised to 6 places) -/
structure DurVal where
  months : Int
  micros : Int
  deriving DecidableEq, Repr, Inhabited

inductive AVal where
  | str (s : Str)
  | bool (b : Bool)
  | int (i : Int)
  | dec (d : Dec)
  /-- float/double: no value semantics, only the normalised literal is carried -/
  | flt (lit : Str)
  | dt (v : DtVal)
  | dur (v : DurVal)
  /-- hexBinary: the literal; `len()` = octets -/
  | hex (s : Str)
  /-- base64Binary: the literal without blanks -/
  | b64 (s : Str)
  deriving DecidableEq, Repr, Inhabited

inductive Val where
  | none
  | atom (a : AVal)
  | list (l : List (Option AVal))
  deriving DecidableEq, Repr, Inhabited

/-- Python `==` between decoded atomic values (bool is an int; int and Decimal compare numerically;
    binaries compare their octets — modelled on equal literals only, see `binEq`). -/
def boolInt (b : Bool) : Int := if b then 1 else 0

def hexUp (s : Str) : Str := s.map Char.toUpper

/-- `de` = `==` of two date/time objects (AbstractDateTime._compare with operator.eq) -/
def AVal.pyEq (de : DtVal → DtVal → Bool) : AVal → AVal → Bool
  | .str a, .str b => a == b
  | .bool a, .bool b => a == b
  | .bool a, .int b => boolInt a == b
  | .int a, .bool b => a == boolInt b
  | .bool a, .dec b => (Dec.ofInt (boolInt a)).eqv b
  | .dec a, .bool b => a.eqv (Dec.ofInt (boolInt b))
  | .int a, .int b => a == b
  | .int a, .dec b => (Dec.ofInt a).eqv b
  | .dec a, .int b => a.eqv (Dec.ofInt b)
  | .dec a, .dec b => a.eqv b
  | .flt a, .flt b => a == b
  | .dt a, .dt b => de a b
  | .dur a, .dur b => a == b
  | .hex a, .hex b => hexUp a == hexUp b
  | .b64 a, .b64 b => a == b
  | _, _ => false

def optEq (de : DtVal → DtVal → Bool) : Option AVal → Option AVal → Bool
  | some a, some b => a.pyEq de b
  | Option.none, Option.none => true
  | _, _ => false

def listEq (de : DtVal → DtVal → Bool) : List (Option AVal) → List (Option AVal) → Bool
  | [], [] => true
  | a :: as, b :: bs => optEq de a b && listEq de as bs
  | _, _ => false

def Val.pyEq (de : DtVal → DtVal → Bool) : Val → Val → Bool
  | .none, .none => true
  | .atom a, .atom b => a.pyEq de b
  | .list a, .list b => listEq de a b
  | _, _ => false

/-- Python `<` / `<=` on numbers; `none` = TypeError (→ `invalid_type_error`). -/
def AVal.num? : AVal → Option Dec
  | .int i => some (Dec.ofInt i)
  | .dec d => some d
  | .bool b => some (Dec.ofInt (boolInt b))
  | _ => Option.none

/-! ## validators -/

inductive Err where
  | decode        -- XMLSchemaDecodeError
  | validation    -- XMLSchemaValidationError (facet / validator function)
  | oracleMiss    -- the model needed a pattern verdict the implementation never computed
  | unsupported   -- construct outside the model
  deriving DecidableEq, Repr, Inhabited

/-- validator *functions* of built-in types (helpers.py:151-270), by name -/
inductive FnV where
  | byte | short | int | long | ubyte | ushort | uint | ulong
  | negative | positive | nonPositive | nonNegative
  | decimal | qname | hexBinary | base64Binary | error
  deriving DecidableEq, Repr, Inhabited

/-- the comparisons exactly as written in helpers.py:168-237 -/
def FnV.intOk : FnV → Int → Bool
  | .byte, v => -(2:Int)^7 ≤ v && v < (2:Int)^7
  | .short, v => -(2:Int)^15 ≤ v && v < (2:Int)^15
  | .int, v => -(2:Int)^31 ≤ v && v < (2:Int)^31
  | .long, v => -(2:Int)^63 ≤ v && v < (2:Int)^63
  | .ubyte, v => 0 ≤ v && v < (2:Int)^8
  | .ushort, v => 0 ≤ v && v < (2:Int)^16
  | .uint, v => 0 ≤ v && v < (2:Int)^32
  | .ulong, v => 0 ≤ v && v < (2:Int)^64
  | .negative, v => !(v ≥ 0)
  | .positive, v => !(v ≤ 0)
  | .nonPositive, v => !(v > 0)
  | .nonNegative, v => !(v < 0)
  | _, _ => true

inductive TzReq where
  | required | prohibited | optional
  deriving DecidableEq, Repr, Inhabited

inductive Facet where
  | length (n : Nat) | minLength (n : Nat) | maxLength (n : Nat)
  | minInclusive (b : AVal) | minExclusive (b : AVal)
  | maxInclusive (b : AVal) | maxExclusive (b : AVal)
  | totalDigits (n : Nat) | fractionDigits (n : Nat)
  | enumeration (vs : List Val)
  | explicitTimezone (r : TzReq)
  /-- a facet whose `validate` is `skip_validation` (length family on QName/NOTATION) -/
  | skip
  deriving Repr, Inhabited

/-- Python `len(value)`; `none` = TypeError -/
def b64Len (s : Str) : Nat :=
  let n := s.length
  if n = 0 then 0
  else if s.reverse.drop 1 |>.head? |>.map (· == '=') |>.getD false then n / 4 * 3 - 2
  else if s.reverse.head? |>.map (· == '=') |>.getD false then n / 4 * 3 - 1
  else n / 4 * 3

def Val.len? : Val → Option Nat
  | .atom (.str s) => some s.length
  | .atom (.hex s) => some (s.length / 2)
  | .atom (.b64 s) => some (b64Len s)
  | .list l => some l.length
  | _ => Option.none

def Val.num? : Val → Option Dec
  | .atom a => a.num?
  | _ => Option.none

/-- `count_digits(value)`; `none` = TypeError/ValueError → validation error -/
def Val.digits? (fix : Bool) : Val → Option (Nat × Nat)
  | .atom (.int i) => some (countDigitsInt i)
  | .atom (.dec d) => some (countDigitsDec fix d)
  | .atom (.bool b) => some (if b then 4 else 5, 0)   -- str(True)/str(False) has no '.', no 'E'
  | _ => Option.none

def Val.tz? : Val → Option Tz
  | .atom (.dt v) => some v.tz
  | _ => Option.none

/-- ordering of date/time values (AbstractDateTime._compare): supplied by `Model/DatatypesDate`
    through this hook so that the facet code is written once. `cmp a b = some o`. -/
abbrev DtCmp := DtVal → DtVal → Option Ordering
abbrev DurCmp := DurVal → DurVal → Option (Bool × Bool)   -- (a < b, a <= b)

structure Env where
  W : Char → Bool
  /-- repair of C02-F5 applied to `count_digits` -/
  cdFix : Bool
  /-- pattern oracle: `P id text` = the implementation's verdict of pattern group `id` on `text` -/
  P : Nat → Str → Option Bool
  dtCmp : DtCmp
  durLtLe : DurCmp

/-- `value < bound`, `value <= bound` as Python evaluates them; `none` = TypeError -/
def ltLe (E : Env) (v : Val) (b : AVal) : Option (Bool × Bool) :=
  match v, b with
  | .atom (.dt x), .dt y =>
    match E.dtCmp x y with
    | some .lt => some (true, true)
    | some .eq => some (false, true)
    | some .gt => some (false, false)
    | Option.none => Option.none
  | .atom (.dur x), .dur y => E.durLtLe x y
  | _, _ =>
    match v.num?, b.num? with
    | some x, some y => some (x.lt y, x.le y)
    | _, _ => Option.none

/-- one facet validator (facets.py); `true` = no error raised -/
def Facet.ok (E : Env) (f : Facet) (v : Val) : Bool :=
  match f with
  | .length n => match v.len? with | some k => k == n | Option.none => false
  | .minLength n => match v.len? with | some k => !(k < n) | Option.none => false
  | .maxLength n => match v.len? with | some k => !(k > n) | Option.none => false
  | .minInclusive b => match ltLe E v b with | some (lt, _) => !lt | Option.none => false
  | .minExclusive b => match ltLe E v b with | some (_, le) => !le | Option.none => false
  | .maxInclusive b => match ltLe E v b with | some (_, le) => le | Option.none => false
  | .maxExclusive b => match ltLe E v b with | some (lt, _) => lt | Option.none => false
  | .totalDigits n => match v.digits? E.cdFix with | some (a, b) => a + b ≤ n | Option.none => false
  | .fractionDigits n => match v.digits? E.cdFix with | some (_, b) => b ≤ n | Option.none => false
  | .enumeration vs => vs.any (fun x => v.pyEq (fun a b => E.dtCmp a b == some .eq) x)
  | .explicitTimezone .required => match v.tz? with | some tz => tz.isSome | Option.none => false
  | .explicitTimezone .prohibited => match v.tz? with | some tz => tz.isNone | Option.none => true
  | .explicitTimezone .optional => true
  | .skip => true

/-- `for validator in self.validators: … context.validation_error` : one error per failing facet -/
def facetErrs (E : Env) (fs : List Facet) (v : Val) : List Err :=
  (fs.filter fun f => !f.ok E v).map fun _ => Err.validation

/-! ## types -/

/-- how a built-in converts text (`to_python`) -/
inductive Prim where
  | string            -- `str`
  | boolean           -- boolean_to_python
  | decimal           -- decimal_to_python
  | integer           -- integer_to_python
  | float             -- `float` (value space not modelled)
  | hexBinary | base64Binary
  | dt (k : DtKind) (v11 : Bool)
  | duration | dayTimeDuration | yearMonthDuration
  | error             -- xs:error: to_python = NoneType → TypeError
  deriving DecidableEq, Repr, Inhabited

structure Builtin where
  prim : Prim
  ws : WsMode
  /-- `self.patterns` (built-in pattern facet), an oracle id -/
  pat : Option Nat := Option.none
  /-- `validators == [func]` when the built-in has a validator function … -/
  fn : Option FnV := Option.none
  /-- … otherwise its facets other than whiteSpace / pattern -/
  facets : List Facet := []
  /-- the built-in is xs:QName or xs:NOTATION (`name in QNAME_TAGS`): the length family is not checked on the ATOMIC
      types derived from it (facets.py:194-197, W3C bug 4009); see `Model/DatatypesPat.applyExempt` -/
  lenExempt : Bool := false
  deriving Repr, Inhabited

mutual
inductive SType where
  | builtin (b : Builtin)
  | restr (base : SType) (ws : WsMode) (pat : Option Nat) (facets : List Facet)
  | list (item : SType)
  | union (members : STypes)
  deriving Repr
inductive STypes where
  | nil
  | cons (t : SType) (ts : STypes)
  deriving Repr
end

instance : Inhabited SType := ⟨.builtin default⟩

def STypes.toList : STypes → List SType
  | .nil => []
  | .cons t ts => t :: ts.toList

def STypes.ofList : List SType → STypes
  | [] => .nil
  | t :: ts => .cons t (STypes.ofList ts)

/-- outcome of a lax `raw_decode`: the value returned and the errors collected, in order -/
structure Res where
  val : Val
  errs : List Err
  deriving Repr, Inhabited

def Res.valid (r : Res) : Bool := r.errs.isEmpty

def patErrs (E : Env) (pat : Option Nat) (t : Str) : List Err :=
  match pat with
  | Option.none => []
  | some id => match E.P id t with
    | some true => []
    | some false => [Err.validation]
    | Option.none => [Err.oracleMiss]

/-- text → value of a built-in (`to_python`); supplied for the date/time/duration/binary kinds by
    `Model/DatatypesDate` through `Conv`. -/
structure Conv where
  dt : DtKind → Bool → Str → Option DtVal
  dur : Prim → Str → Option DurVal
  hex : Str → Bool
  b64 : Str → Option Str
  fltOk : Str → Bool
  bool : Str → Option Bool

inductive PyRes where
  | ok (a : AVal)
  | valueError    -- ValueError / ArithmeticError → decode error
  | typeError     -- TypeError → validation error (xs:error)

/-- elementpath `Patterns.whitespaces` = `[^\S\xa0]+` (helpers.py:131): Python's white-space class without NBSP -/
def isEpWs (c : Char) : Bool := isPyWs c && c.toNat != 0xA0

/-- elementpath `collapse_white_spaces` (helpers.py:164-165): `whitespaces.sub(' ', s).strip(' ')`, applied by
    `AbstractBinary.__init__` (binary.py:56-61) to the text that xmlschema has already normalised -/
def epCollapse (s : Str) : Str := strip (· == ' ') (squeeze isEpWs false s)

def toPython (C : Conv) (p : Prim) (t : Str) : PyRes :=
  match p with
  | .string => .ok (.str t)
  | .boolean => match C.bool t with | some b => .ok (.bool b) | Option.none => .valueError
  | .decimal => match parseDec t with | some d => .ok (.dec d) | Option.none => .valueError
  | .integer => match parseInt t with | some i => .ok (.int i) | Option.none => .valueError
  | .float => if C.fltOk t then .ok (.flt t) else .valueError
  -- HexBinary(value): collapse_white_spaces, validate, `value.replace(' ', '').encode('ascii')`
  -- (a valid literal contains no blank, so the stored value is the collapsed text)
  | .hexBinary => if C.hex (epCollapse t) then .ok (.hex (epCollapse t)) else .valueError
  | .base64Binary => match C.b64 (epCollapse t) with | some s => .ok (.b64 s) | Option.none => .valueError
  -- elementpath `fromstring` starts with `text.strip()` (Python's white-space class, whatever `W` is)
  | .dt k v11 => match C.dt k v11 (strip isPyWs t) with | some v => .ok (.dt v) | Option.none => .valueError
  | .duration | .dayTimeDuration | .yearMonthDuration =>
    match C.dur p (strip isPyWs t) with | some v => .ok (.dur v) | Option.none => .valueError
  | .error => .typeError

def fnOk (f : FnV) (a : AVal) : Bool :=
  match f, a with
  | .error, _ => false
  | .decimal, _ => true          -- Decimal from a literal is never inf/nan
  | .qname, _ => true            -- handled by the pattern oracle (see driver)
  | .hexBinary, _ => true        -- isinstance(value, HexBinary)
  | .base64Binary, _ => true
  | f, .int v => f.intOk v
  | _, _ => true

/-- XsdAtomicBuiltin.raw_decode, validation ≠ 'skip' (simple_types.py:705-744) -/
def decodeBuiltin (E : Env) (C : Conv) (b : Builtin) (s : Str) : Res :=
  let t := normalize E.W b.ws s
  let e1 := patErrs E b.pat t
  match toPython C b.prim t with
  | .valueError => ⟨.none, e1 ++ [Err.decode]⟩
  | .typeError => ⟨.none, e1 ++ [Err.validation]⟩
  | .ok a =>
    let e2 := match b.fn with
      | some f => if fnOk f a then [] else [Err.validation]
      | Option.none => facetErrs E b.facets (.atom a)
    ⟨.atom a, e1 ++ e2⟩

/-- first member whose strict decode raises nothing (simple_types.py:1184-1196) -/
def firstValid : List Res → Option Res
  | [] => Option.none
  | r :: rs => if r.valid then some r else firstValid rs

/-- first member that failed with a non-decode validation error (simple_types.py:1188-1190):
    in strict mode the *first* error is the one raised -/
def firstNonDecode : List Res → Option Res
  | [] => Option.none
  | r :: rs => match r.errs with
    | Err.decode :: _ => firstNonDecode rs
    | [] => firstNonDecode rs
    | _ => some r

/-- XsdUnion.raw_decode in lax mode, given the members' lax outcomes -/
def unionRes (rs : List Res) : Res :=
  match firstValid rs with
  | some r => r
  | Option.none =>
    match firstNonDecode rs with
    | some r => r                      -- lax: re-decode with that member, its errors are collected
    | Option.none => ⟨.none, [Err.decode]⟩

/-- list items: an item that is itself a list is an error ("unexpected nested list item") -/
def itemOf (r : Res) : Option (Option AVal) :=
  match r.val with
  | .none => some Option.none
  | .atom a => some (some a)
  | .list _ => Option.none

def listRes (rs : List Res) : Res :=
  if rs.all (fun r => (itemOf r).isSome) then
    ⟨.list (rs.filterMap itemOf), (rs.map Res.errs).flatten⟩
  else ⟨.none, [Err.unsupported]⟩

mutual
/-- lax `raw_decode` of a simple type on a text -/
def decode (E : Env) (C : Conv) : SType → Str → Res
  | .builtin b, s => decodeBuiltin E C b s
  | .restr base ws pat facets, s =>
    -- XsdAtomicRestriction.raw_decode (simple_types.py:1449-1485)
    let t := normalize E.W ws s
    let e1 := patErrs E pat t
    let r := decode E C base t
    let e2 := match r.val with
      | .none => []
      | v => facetErrs E facets v
    ⟨r.val, e1 ++ r.errs ++ e2⟩
  | .list item, s =>
    -- XsdList.raw_decode (simple_types.py:991-1019); white space of a list is collapse
    listRes ((words E.W (normalize E.W .collapse s)).map (decode E C item))
  | .union ms, s =>
    unionRes (decodeAll E C ms s)
def decodeAll (E : Env) (C : Conv) : STypes → Str → List Res
  | .nil, _ => []
  | .cons t ts, s => decode E C t s :: decodeAll E C ts s
end

end XsVerif.Datatypes
