/-
  How the attribute group of a complex type is COMPUTED (XsdAttributeGroup._parse,
  xmlschema/validators/attributes.py:396-629) — the step before Model/Attributes.lean validates an
  attribute set against it:

    408-503  `attributes`: the declarations of the element's children, in document order:
             <attribute> (a prohibited one is dropped inside an <attributeGroup> definition), the entries
             of every referenced <attributeGroup> (first occurrence of a name wins; the wildcards are
             intersected, keeping the processContents of the first), a local <anyAttribute>
             (intersected with the wildcard collected so far; keeps its OWN processContents — fix 365354e,
             finding C03-F2; `oldPc = true` is the step as it was before, kept for the counter-example)
    508-565  derivation: an extension unions its wildcard with the base wildcard (522-526);
             (the restriction CHECKS are property C14: Model/AttrRestriction.lean)
    567-611  the resulting dict: base entries, overridden in place / extended by the declared ones; a base
             wildcard that a restriction does not repeat is replaced by one that admits no namespace
             (`updateDecls`, `emptied` of Model/AttrRestriction.lean — imported, not copied)
    613-622  XSD 1.0: at most one attribute whose type is (derived from) xs:ID
  and, for XSD 1.1, complex_types.py:874-891: the entries of the schema's default attribute group are
  added to the type's attributes (a name that is already there is a parse error).

  Wildcard operations: Model/Wildcard.lean (C16).  Python dict order is kept for the declarations of the
  element itself; the entries taken from a referenced group or from the base type arrive in the order of
  `XsdAttributeGroup.__iter__` (sorted by name when the group has a wildcard) — the harness compares the
  computed group with the built one as a finite map, and validity does not depend on the order
  (`Props.C03Deriv.valid_perm`).
  No Mathlib import: linked into `drv_c03`.
-/
import XsVerif.Model.AttrRestriction

namespace XsVerif.AttrDeriv
open XsVerif.Wildcard XsVerif.Attributes XsVerif.AttrRestr

/-- a child of <complexType> / <extension> / <restriction> / <attributeGroup>, after the anyAttribute -/
inductive Child where
  | attr (d : Decl)          -- <xs:attribute .../>
  | group (g : Group)        -- <xs:attributeGroup ref="..."/>: the built group it refers to
  deriving Repr, Inhabited

structure Content where
  children : List Child
  any : Option AnyAttr := none       -- the local <xs:anyAttribute>
  /-- the element is an <xs:attributeGroup> definition (prohibited declarations are dropped) -/
  inGroupDef : Bool := false
  deriving Repr, Inhabited

inductive BuildErr where
  | duplicate (n : QN)        -- "multiple declaration for attribute"
  | unionNotExpressible       -- XSD 1.0: `attr.union(base_attr)` raises ValueError
  | defaultClash (n : QN)     -- "default attribute … is already declared in the complex type"
  | defaultWildcardClash      -- the same message for the key None
  | multipleIds               -- "multiple ID attributes not allowed for XSD 1.0"
  deriving DecidableEq, Repr, Inhabited

/-- wildcard met while walking the children: `attributes[None]` -/
def meetGroupAny (cur : Option AnyAttr) (g : Option AnyAttr) : Option AnyAttr :=
  match cur, g with
  | none, g => g                                                   -- `attributes[None] = base_attr`
  | some c, none => some c
  | some c, some w => some { wc := intersection c.wc w.wc, pc := c.pc }   -- copy(cur).intersection(w)

/-- names of `ds` not yet in `acc` are appended (`if name not in attributes: attributes[name] = …`);
    a second entry for a name is a parse error -/
def addDecls (acc : List Decl) : List Decl → List Decl × List BuildErr
  | [] => (acc, [])
  | d :: ds =>
    if (lookup acc d.name).isSome then
      let r := addDecls acc ds
      (r.1, BuildErr.duplicate d.name :: r.2)
    else addDecls (acc ++ [d]) ds

/-- the loop over the children (attributes.py:412-503) -/
def walk (inGroupDef : Bool) : List Child → List Decl × Option AnyAttr → List BuildErr →
    (List Decl × Option AnyAttr) × List BuildErr
  | [], st, es => (st, es)
  | .attr d :: cs, (ds, w), es =>
    if (lookup ds d.name).isSome then walk inGroupDef cs (ds, w) (es ++ [BuildErr.duplicate d.name])
    else if d.use != .prohibited || !inGroupDef then walk inGroupDef cs (ds ++ [d], w) es
    else walk inGroupDef cs (ds, w) es
  | .group g :: cs, (ds, w), es =>
    let r := addDecls ds g.decls
    walk inGroupDef cs (r.1, meetGroupAny w g.any) (es ++ r.2)

/-- the local <anyAttribute> (attributes.py:423-432); `oldPc` = the step before fix 365354e -/
def meetLocalAny (oldPc : Bool) (cur : Option AnyAttr) (loc : Option AnyAttr) : Option AnyAttr :=
  match cur, loc with
  | c, none => c
  | none, some l => some l
  | some c, some l =>
    if oldPc then some { wc := intersection c.wc l.wc, pc := c.pc }
    else some { wc := intersection l.wc c.wc, pc := l.pc }

/-- `attributes` of attributes.py:408-503 -/
def collect (oldPc : Bool) (c : Content) : Group × List BuildErr :=
  let r := walk c.inGroupDef c.children ([], none) []
  ({ decls := r.1.1, any := meetLocalAny oldPc r.1.2 c.any }, r.2)

inductive Deriv where | none | extension | restriction
  deriving DecidableEq, Repr, Inhabited

/-- the wildcard of the resulting group (attributes.py:519-531, 567-611) -/
def derivedAny (v11 : Bool) (k : Deriv) (B : Option AnyAttr) (D : Option AnyAttr) :
    Except BuildErr (Option AnyAttr) :=
  match k, D, B with
  | .none, d, _ => .ok d
  | .extension, some w, some bw =>
    match union v11 w.wc bw.wc with
    | some u => .ok (some { wc := u, pc := w.pc })
    | none => .error .unionNotExpressible
  | .extension, some w, none => .ok (some w)
  | .extension, none, b => .ok b
  | .restriction, some w, _ => .ok (some w)
  | .restriction, none, b => .ok (b.map emptied)

/-- the attribute group of a type derived from a type with group `B`, given the collected declarations
    `D` of the derivation element -/
def derive (v11 : Bool) (k : Deriv) (B D : Group) : Except BuildErr Group :=
  match derivedAny v11 k B.any D.any with
  | .error e => .error e
  | .ok w => .ok { decls := if k = .none then D.decls else updateDecls B.decls D.decls, any := w }

/-- XSD 1.0: "multiple ID attributes not allowed" (attributes.py:613-622); `isId ty` = `type.is_key()` -/
def idErrs (v11 : Bool) (isId : Nat → Bool) (G : Group) : List BuildErr :=
  if !v11 && decide (1 < (G.decls.filter fun d => isId d.ty).length) then [.multipleIds] else []

/-- XSD 1.1 default attribute group (complex_types.py:881-891): clashes are parse errors, then
    `self.attributes.update(default_attributes.items())` -/
def applyDefaults (G : Group) (dflt : Option Group) : Group × List BuildErr :=
  match dflt with
  | none => (G, [])
  | some da =>
    let clashes := (da.decls.filter fun d => (lookup G.decls d.name).isSome).map fun d => BuildErr.defaultClash d.name
    let wclash := if G.any.isSome && da.any.isSome then [BuildErr.defaultWildcardClash] else []
    ({ decls := updateDecls G.decls da.decls, any := match da.any with | some w => some w | none => G.any },
     clashes ++ wclash)

end XsVerif.AttrDeriv
