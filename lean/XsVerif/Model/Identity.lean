/-
  Model of the identity-constraint machinery of xmlschema (property C08):

    xmlschema/validators/identities.py   IdentityCounter / KeyrefCounter (385-418),
                                         FieldValueSelector.get_value (461-544)
    xmlschema/validators/elements.py     XsdElement.raw_decode: counters created / reset on entry
                                         (637-641), disabled + keyrefs checked on exit (869-887),
                                         collect_key_fields (891-946)
    xmlschema/validators/simple_types.py XsdAtomicBuiltin.raw_decode, ID / IDREF bookkeeping (763-783)
    xmlschema/validators/schemas.py      _validate_references (1401-1414)

  No Mathlib import: this file is linked into the native driver `drv_c08`.

  Layers (DESIGN.md §0):
    M  `step` / `run` / `Node.events`     faithful port of the algorithm of the CURRENT tree (one shared
                                          map constraint ↦ counter, reset on scope entry, `enabled`
                                          flag), i.e. including the `fix:` commits
                                            3a2eb1a  keyref: a node lacking a field is skipped
                                            cc593f3  unique: a node lacking some (not all) fields is skipped
                                            b32146f  keyref checked at the end of its scope while the
                                                     referenced constraint has no counter: an empty
                                                     disabled counter is installed (was: KeyError)
                                          Only the fully-loaded walk (`context.max_depth is None`) is
                                          modelled.  The lazy walk defers the keyref check to
                                          `XMLSchemaBase._validate_references` (schemas.py:1410-1414),
                                          which still indexes `identities[self.refer]` directly: b32146f
                                          did NOT touch that path and nothing here speaks about it.
       `St.order` / `.collectOpen`        `collect_key_fields` since 1e49c64: the loop runs over ALL counters of
                                          `context.identities` in dict (insertion) order, skips the disabled ones
                                          and the nodes the instance selector does not pick, and a node outside
                                          the qualified node set of a keyref / unique `continue`s — the other
                                          open constraints still see the node (`collectOpen_spec`)
       `setCtx` / `nsWalk` / `nsAt`       the namespace map `collect_key_fields` reads (§2b): the stack of
                                          xmlns contexts of namespaces.py:193-236 driven by the call sites
                                          groups.py:1008, elements.py:645, 833 — QName fields are resolved
                                          with the map held at the collect of the SELECTED node (`codeConv`;
                                          `fscope` = the repaired variant, finding C08-F8)
    S  `Node.scopes` / `specConv`         declarations in scope of the element that carries the value
    S  `UniqueOk` / `KeyOk` / `KeyrefOk`  the XSD reading (qualified node sets), Prop-valued
    O  `specClauses`                      executable evaluation of S on a document, scope by scope
-/
namespace XsVerif.Identity

/-! ## 1. Field values (identities.py:461-544) -/

/-- declared simple type of a field node, by primitive family -/
inductive Ty where
  | integer | decimal | boolean | string | qname
  deriving DecidableEq, Repr, Inhabited

/-- Python-equality class of what `FieldValueSelector.get_value` returns:
    * `int` and `Decimal` compare (and hash) equal when numerically equal → one constructor with
      a canonical (trailing-zero free) mantissa / scale pair;
    * booleans are returned tagged `(value, bool)` so that `True != 1`;
    * strings *and expanded QNames* (`'{ns}local'`) are both plain `str`. -/
inductive Val where
  | num (m : Int) (s : Nat)
  | bool (b : Bool)
  | str (s : String)
  deriving DecidableEq, Repr, Inhabited

/-- canonical form of the decimal `m · 10^-s`: strip trailing zeros of the fraction -/
def normDec : Nat → Int → Val
  | 0, m => .num m 0
  | s + 1, m => if m % 10 = 0 then normDec s (m / 10) else .num m (s + 1)

def isWs (c : Char) : Bool := c == ' ' || c == '\t' || c == '\n' || c == '\r'
def isDigit (c : Char) : Bool := '0' ≤ c && c ≤ '9'

/-- whiteSpace = collapse restricted to what matters for the atomic types used here: strip -/
def strip (l : List Char) : List Char := ((l.dropWhile isWs).reverse.dropWhile isWs).reverse

def natOf (l : List Char) : Nat := l.foldl (fun a c => a * 10 + (c.toNat - 48)) 0

def splitSign : List Char → Bool × List Char
  | '-' :: r => (true, r)
  | '+' :: r => (false, r)
  | r => (false, r)

def signed (neg : Bool) (n : Nat) : Int := if neg then -(n : Int) else (n : Int)

/-- xs:integer lexical space `[+-]?[0-9]+` (after the `fix:` commit dcce447) -/
def parseInteger (l : List Char) : Option Val :=
  let (neg, r) := splitSign (strip l)
  if !r.isEmpty && r.all isDigit then some (.num (signed neg (natOf r)) 0) else none

/-- xs:decimal lexical space `[+-]?([0-9]+(\.[0-9]*)?|\.[0-9]+)` -/
def parseDecimal (l : List Char) : Option Val :=
  let (neg, r) := splitSign (strip l)
  let ip := r.takeWhile isDigit
  match r.dropWhile isDigit with
  | [] => if ip.isEmpty then none else some (.num (signed neg (natOf ip)) 0)
  | '.' :: fp =>
    if fp.all isDigit && !(ip.isEmpty && fp.isEmpty) then
      some (normDec fp.length (signed neg (natOf (ip ++ fp))))
    else none
  | _ => none

def parseBoolean (l : List Char) : Option Val :=
  let s := String.ofList (strip l)
  if s == "true" || s == "1" then some (.bool true)
  else if s == "false" || s == "0" then some (.bool false)
  else none

abbrev NsMap := List (String × String)

/-- `get_extended_qname(value.strip(), namespaces)` (utils/qnames.py:124-154), every branch:
    an empty map returns the name as it is, as does an extended name `{…}…`, an unprefixed name
    without a (non-empty) default namespace, and a name whose prefix is not in the map; a prefix
    mapped to the empty URI gives the local part -/
def parseQName (ns : NsMap) (l : List Char) : Option Val :=
  let r := strip l
  if ns.isEmpty || r.isEmpty then some (.str (String.ofList r))
  else if r.head? = some '{' then some (.str (String.ofList r))
  else
    let pre := r.takeWhile (· != ':')
    match r.dropWhile (· != ':') with
    | [] => match ns.lookup "" with
      | some u => if u.isEmpty then some (.str (String.ofList r)) else some (.str ("{" ++ u ++ "}" ++ String.ofList r))
      | none => some (.str (String.ofList r))
    | _ :: loc => match ns.lookup (String.ofList pre) with
      | some u => if u.isEmpty then some (.str (String.ofList loc))
                  else some (.str ("{" ++ u ++ "}" ++ String.ofList loc))
      | none => some (.str (String.ofList r))

def valOf (ns : NsMap) (t : Ty) (lex : String) : Option Val :=
  match t with
  | .integer => parseInteger lex.toList
  | .decimal => parseDecimal lex.toList
  | .boolean => parseBoolean lex.toList
  | .string => some (.str lex)
  | .qname => parseQName ns lex.toList

/-- XSD primitive family of a declared type (xs:integer is derived from xs:decimal) -/
inductive Prim where
  | decimal | boolean | string | qname
  deriving DecidableEq, Repr, Inhabited

def Ty.prim : Ty → Prim
  | .integer => .decimal | .decimal => .decimal | .boolean => .boolean
  | .string => .string | .qname => .qname

/-! ## 2. Documents and the restricted XPath of selectors / fields -/

structure Attr where
  name : String
  lex : String
  ty : Option Ty          -- `none`: not one of the modelled field types (ID, IDREF, …)
  idk : Nat := 0          -- 1: declared xs:ID, 2: declared xs:IDREF, 0: neither
  deriving Repr, Inhabited

/-- `xmlns`: the namespace declarations written on the element itself (what
    `XMLResource.get_xmlns(elem)` returns; `[]` for `None`) -/
inductive Node where
  | mk (id decl : Nat) (name : String) (attrs : List Attr) (ety : Option Ty) (text : String)
       (ck : Nat)      -- declared type of the element CONTENT: 1 xs:ID, 2 xs:IDREF, 3 xs:IDREFS, 0 none of them
       (xmlns : List (String × String)) (kids : List Node)
  deriving Repr, Inhabited

def Node.id : Node → Nat | .mk i _ _ _ _ _ _ _ _ => i
def Node.decl : Node → Nat | .mk _ d _ _ _ _ _ _ _ => d
def Node.name : Node → String | .mk _ _ n _ _ _ _ _ _ => n
def Node.attrs : Node → List Attr | .mk _ _ _ a _ _ _ _ _ => a
def Node.ety : Node → Option Ty | .mk _ _ _ _ t _ _ _ _ => t
def Node.text : Node → String | .mk _ _ _ _ _ t _ _ _ => t
def Node.ck : Node → Nat | .mk _ _ _ _ _ _ c _ _ => c
def Node.xmlns : Node → List (String × String) | .mk _ _ _ _ _ _ _ x _ => x
def Node.kids : Node → List Node | .mk _ _ _ _ _ _ _ _ k => k

mutual
/-- descendant-or-self, document order -/
def Node.dos : Node → List Node
  | .mk i d n a t x c ns kids => .mk i d n a t x c ns kids :: dosList kids
def dosList : List Node → List Node
  | [] => []
  | k :: ks => k.dos ++ dosList ks
end

inductive Step where
  | child (name : String)
  | any
  | self
  deriving Repr, Inhabited

def stepNode (st : Step) (n : Node) : List Node :=
  match st with
  | .self => [n]
  | .any => n.kids
  | .child nm => n.kids.filter (·.name == nm)

def evalSteps : List Step → List Node → List Node
  | [], ns => ns
  | st :: r, ns => evalSteps r (ns.flatMap (stepNode st))

/-- one alternative of a selector / field xpath: optional `.//`, child steps, optional `@name` -/
structure Path where
  desc : Bool
  steps : List Step
  attr : Option String
  deriving Repr, Inhabited

def Path.elems (p : Path) (n : Node) : List Node :=
  evalSteps p.steps (if p.desc then n.dos else [n])

/-- ids of the nodes selected from scope node `s` (alternatives joined by `|`) -/
def selectedIds (sel : List Path) (s : Node) : List Nat :=
  ((sel.flatMap (·.elems s)).map (·.id)).eraseDups

/-- result of evaluating one xs:field on a selected node -/
inductive FRes (α : Type) where
  | absent
  | val (v : α)
  | multi                 -- "field selects multiple values"
  deriving DecidableEq, Repr, Inhabited

/-- (owner element, declared type, lexical value) of every node an xs:field alternative reaches;
    the owner is the element whose in-scope namespaces govern the value: the element itself, or
    the element carrying the attribute -/
def Path.items (p : Path) (n : Node) : List (Nat × Option Ty × String) :=
  match p.attr with
  | none => (p.elems n).map fun e => (e.id, e.ety, e.text)
  | some a => (p.elems n).flatMap fun e =>
      (e.attrs.filter (·.name == a)).map fun x => (e.id, x.ty, x.lex)

/-- field evaluation, generic in how an (owner, declared type, lexical form) triple becomes a value:
    `conv = codeConv …` is what the code does, `conv = specConv …` is the XSD value space.
    `none` = a lexical form outside the modelled lexical spaces (the driver reports it, it is
    never turned into a verdict) -/
def fieldResG {α : Type} (conv : Nat → Option Ty → String → Option α) (f : List Path) (n : Node) :
    Option (FRes α) :=
  match f.flatMap (·.items n) with
  | [] => some .absent
  | [(o, t, lex)] => (conv o t lex).map .val
  | _ => some .multi

/-- the value as the code keys it (untyped nodes give their string value) -/
def untagged (ns : NsMap) : Option Ty → String → Option Val
  | none, lex => some (.str lex)
  | some t, lex => valOf ns t lex

/-- spec-level value: the primitive family is part of the value (a string never equals a QName) -/
abbrev SVal := Prim × Val

def tagged (ns : NsMap) : Option Ty → String → Option SVal
  | none, lex => some (.string, .str lex)
  | some t, lex => (valOf ns t lex).map fun v => (t.prim, v)

/-! ## 2b. Namespace declarations in scope

  The map a QName field is resolved with is `context.namespaces`, the dictionary of the converter's
  `NamespaceMapper`, *at the moment `collect_key_fields` runs*.  In 'stacked' xmlns processing (the
  mode of an `XMLResource` source) that dictionary is mutated along the walk by
  `set_xmlns_context(obj, level)` (namespaces.py:193-236):

    groups.py:1008      for every child, before it is decoded      (level = parent level + 1)
    elements.py:645     for the root                                (level 0)
    elements.py:833     after the content of an element, "purge sub-contexts"  (its own level)
    elements.py:855     collect_key_fields(...)                     ← reads the map here

  `NsSt` / `setCtx` / `nsWalk` port exactly that (the reverse map, which plays no role in the
  resolution of field values, is left to C17).  With an ElementTree source the mode is 'none': no
  element has declarations (`xmlns = []` everywhere) and the map stays the `namespaces` argument. -/

/-- `NamespaceMapperContext`: (obj, level, xmlns, namespaces, reverse) — the saved map only -/
structure NsCtx where
  obj : Nat
  level : Nat
  saved : NsMap
  deriving Repr, Inhabited

structure NsSt where
  cur : NsMap
  stack : List NsCtx      -- `_xmlns_contexts`, innermost first
  deriving Repr, Inhabited

/-- `self.namespaces.update(xmlns)` on an association list read with `List.lookup` -/
def nsUpdate (m : NsMap) (xmlns : NsMap) : NsMap := xmlns.reverse ++ m

/-- the loop 204-213: pops the contexts of siblings / descendants; result: remaining stack, the map
    saved in the LAST popped context, whether a context for `(obj, level)` already exists -/
def popCtx (obj level : Nat) : List NsCtx → Option NsMap → List NsCtx × Option NsMap × Bool
  | [], r => ([], r, false)
  | c :: cs, r =>
    if level > c.level then (c :: cs, r, false)
    else if level = c.level ∧ c.obj = obj then (c :: cs, r, true)
    else popCtx obj level cs (some c.saved)

/-- `set_xmlns_context(obj, level)`, stacked mode; `xmlns` = `_xmlns_getter(obj)` -/
def setCtx (obj level : Nat) (xmlns : NsMap) (st : NsSt) : NsSt :=
  match popCtx obj level st.stack none with
  | (stack, restore, found) =>
    let cur := restore.getD st.cur
    if found || xmlns.isEmpty then ⟨cur, stack⟩
    else ⟨nsUpdate cur xmlns, ⟨obj, level, cur⟩ :: stack⟩

mutual
/-- the walk of `XsdElement.raw_decode` over an element whose context was set by its caller: the
    children one by one (each after `set_xmlns_context(child, level+1)`), then the purge, then
    `collect_key_fields` reads the map.  Output: (element, map read at its collect) in the order
    of the collects, and the state left behind. -/
def Node.nsWalk (level : Nat) : Node → NsSt → List (Nat × NsMap) × NsSt
  | .mk i _ _ _ _ _ _ xm kids, st =>
    match nsWalkList (level + 1) kids st with
    | (out, st1) =>
      let st2 := setCtx i level xm st1              -- elements.py:833
      (out ++ [(i, st2.cur)], st2)                  -- elements.py:855
def nsWalkList (level : Nat) : List Node → NsSt → List (Nat × NsMap) × NsSt
  | [], st => ([], st)
  | k :: ks, st =>
    match k.nsWalk level (setCtx k.id level k.xmlns st) with      -- groups.py:1008
    | (o1, st1) =>
      match nsWalkList level ks st1 with
      | (o2, st2) => (o1 ++ o2, st2)
end

/-- whole document from the initial map `ns0` (`NamespaceMapper(namespaces, source=…).namespaces`) -/
def nsCollects (ns0 : NsMap) (root : Node) : List (Nat × NsMap) :=
  (root.nsWalk 0 (setCtx root.id 0 root.xmlns ⟨ns0, []⟩)).1

mutual
/-- S: the namespace declarations in scope of every element: its own declarations over those in
    scope of its parent (Namespaces in XML §6.1) -/
def Node.scopes (m : NsMap) : Node → List (Nat × NsMap)
  | .mk i _ _ _ _ _ _ xm kids => scopesList (nsUpdate m xm) kids ++ [(i, nsUpdate m xm)]
def scopesList (m : NsMap) : List Node → List (Nat × NsMap)
  | [] => []
  | k :: ks => k.scopes m ++ scopesList m ks
end

/-- the map the code resolves the fields of selected node `i` with -/
def nsAt (ns0 : NsMap) (root : Node) (i : Nat) : NsMap := ((nsCollects ns0 root).lookup i).getD ns0
/-- the declarations in scope of element `i` -/
def scopeAt (ns0 : NsMap) (root : Node) (i : Nat) : NsMap := ((root.scopes ns0).lookup i).getD ns0

/-- what the code does with one field item of selected node `n`: resolved with the map held at the
    collect of `n`.  `fscope` = the repaired tree (notes/fixes/C08-qname-field-node-scope.patch):
    the in-scope declarations of the node the field selects are laid over that map. -/
def codeConv (fscope : Bool) (ns0 : NsMap) (root : Node) (n : Nat) : Nat → Option Ty → String → Option Val :=
  fun o t lex => untagged (if fscope then scopeAt ns0 root o else nsAt ns0 root n) t lex

/-- S: a field value is a value of its declared type, a QName being resolved with the
    declarations in scope of the element that carries it -/
def specConv (ns0 : NsMap) (root : Node) : Nat → Option Ty → String → Option SVal :=
  fun o t lex => tagged (scopeAt ns0 root o) t lex

def fieldRes (fscope : Bool) (ns0 : NsMap) (root : Node) (f : List Path) (n : Node) : Option (FRes Val) :=
  fieldResG (codeConv fscope ns0 root n.id) f n

/-! ## 3. Counters (identities.py:385-418) and the per-document machine (elements.py) -/

inductive Kind where
  | unique | key | keyref
  deriving DecidableEq, Repr, Inhabited

abbrev Tuple := List (Option Val)

/-- `IdentityCounter`: scope element, `enabled`, and the `Counter` as the list of inserted tuples
    (newest first; the multiplicity of a tuple is its number of occurrences) -/
structure Ctr where
  scope : Nat
  enabled : Bool
  table : List Tuple
  deriving Repr, Inhabited

inductive Err where
  | dup (c n : Nat)                     -- "duplicated value … for …"         (reported on the node)
  | missing (c n field : Nat)           -- "missing key field …"               (reported on the node)
  | multi (c n field : Nat)             -- "field selects multiple values!"    (reported on the node)
  | notfound (c scope times : Nat)      -- "value … not found for … (k times)" (reported on the scope)
  deriving DecidableEq, Repr, Inhabited

/-- `tuple(s.get_value(...) for s in selectors)`: the first failing field raises -/
def tupleOf (kind : Kind) : List (FRes Val) → Nat → Except (Bool × Nat) Tuple
  | [], _ => .ok []
  | .absent :: r, i =>
    if kind = .key then .error (false, i) else (tupleOf kind r (i + 1)).map (none :: ·)
  | .val v :: r, i => (tupleOf kind r (i + 1)).map (some v :: ·)
  | .multi :: _, i => .error (true, i)

inductive RowErr where
  | dup | missing (field : Nat) | multi (field : Nat)
  deriving DecidableEq, Repr, Inhabited

/-- what one selected node does to a counter (elements.py:930-946 + `increase`):
    new table and the error raised, if any -/
def offer (kind : Kind) (table : List Tuple) (row : List (FRes Val)) : List Tuple × Option RowErr :=
  match tupleOf kind row 0 with
  | .error (false, i) => (table, some (.missing i))
  | .error (true, i) => (table, some (.multi i))
  | .ok t =>
    if kind = .keyref then
      (if t.any Option.isNone then table else t :: table, none)   -- 937-938: not in the qualified node set
    else if kind = .unique && t.any Option.isNone && t.any Option.isSome then
      (table, none)                                               -- 939-941: idem, unique (cc593f3)
    else if t.any Option.isSome then
      (t :: table, if table.count t = 1 then some .dup else none) -- counter[fields] == 2 after += 1
    else (table, none)

/-- a whole scope: the selected nodes' rows offered in document order -/
def offerAll (kind : Kind) : List (List (FRes Val)) → List Tuple → List Tuple × List RowErr
  | [], table => (table, [])
  | r :: rs, table =>
    let (t1, e) := offer kind table r
    let (t2, es) := offerAll kind rs t1
    (t2, e.toList ++ es)

structure Env where
  kind : Nat → Kind
  refer : Nat → Option Nat              -- built `refer` of a keyref
  sel : Nat → Nat → Nat → Bool          -- constraint, scope node, node: node ∈ counter.elements
  fields : Nat → Nat → List (FRes Val)  -- constraint, node: the field results

/-- No exception escapes the fully-loaded walk any more: `context.identities[identity]` at the end of
    an element (872) finds the counter installed at its start (637-641), and `identities[self.refer]`
    (identities.py:408) finds the one installed by 876-882.  Hence no crash component. -/
structure St where
  ctrs : Nat → Option Ctr
  order : List Nat                      -- the keys of the dict `context.identities` in insertion order
  errs : List Err                       -- newest first
  nested : List Nat                     -- constraints whose *enabled* counter was reset by a nested scope
  deriving Inhabited

def St.init : St := ⟨fun _ => none, [], [], []⟩

/-- `context.identities[c] = k`: a new key goes to the end of the dict, an existing key keeps its place -/
def St.put (st : St) (c : Nat) (k : Ctr) : St :=
  { st with ctrs := fun x => if x = c then some k else st.ctrs x,
            order := if (st.ctrs c).isSome then st.order else st.order ++ [c] }

def St.err (st : St) (e : Err) : St := { st with errs := e :: st.errs }

/-- elements.py:637-641 for one identity of the element being entered -/
def enterOne (n : Nat) (st : St) (c : Nat) : St :=
  let st' := st.put c ⟨n, true, []⟩
  match st.ctrs c with
  | some k => if k.enabled then { st' with nested := c :: st'.nested } else st'
  | none => st'

/-- elements.py:912-950, the body of the loop for one (identity, counter) item of `context.identities`:
    a disabled counter and a node the instance selector does not pick are skipped (913-926); the
    tuple is offered to the counter; `continue` for a node outside the qualified node set of a
    keyref / unique (941-945) ends THIS item only -/
def collectOne (env : Env) (n : Nat) (st : St) (c : Nat) : St :=
  match st.ctrs c with
  | none => st
  | some k =>
    if !k.enabled || !env.sel c k.scope n then st
    else
      let (table, e) := offer (env.kind c) k.table (env.fields c n)
      let st' := st.put c { k with table := table }
      match e with
      | none => st'
      | some .dup => st'.err (.dup c n)
      | some (.missing i) => st'.err (.missing c n i)
      | some (.multi i) => st'.err (.multi c n i)

/-- `KeyrefCounter.iter_errors`: distinct own tuples (insertion order) missing from the table of
    the referenced constraint.  (The `len(v) == 1 and v[0] in refer_values` clause only fires for
    list-valued fields, which are not modelled.) -/
def keyrefErrs (c scope : Nat) (own refer : List Tuple) : List Err :=
  ((own.reverse.eraseDups).filter (fun v => !refer.contains v)).map
    fun v => .notfound c scope (own.count v)

/-- elements.py:876-882 (b32146f): the referenced constraint has no counter in the context (its
    element did not occur so far): an empty, disabled counter bound to the keyref's scope element
    is installed — and stays in the context afterwards -/
def ensureRefer (n : Nat) (st : St) (r : Nat) : St :=
  match st.ctrs r with
  | some _ => st
  | none => st.put r ⟨n, false, []⟩

/-- the table `identities[self.refer].counter` read by `KeyrefCounter.iter_errors` -/
def referTableIn (st : St) (r : Nat) : List Tuple :=
  match st.ctrs r with
  | some rk => rk.table
  | none => []

/-- elements.py:871-885 for one identity of the element being left -/
def leaveOne (env : Env) (n : Nat) (st : St) (c : Nat) : St :=
  match st.ctrs c with
  | none => st
  | some k =>
    let st := st.put c { k with enabled := false }
    if env.kind c = .keyref then
      match env.refer c with
      | none => st                       -- `self.refer is None`: unbuilt keyref, nothing is checked
      | some r =>
        let st := ensureRefer n st r
        { st with errs := (keyrefErrs c n k.table (referTableIn st r)).reverse ++ st.errs }
    else st

inductive Ev where
  | enter (n : Nat) (cons : List Nat)       -- element start: its declaration's identities
  | collect (n : Nat) (cands : List Nat)    -- the loop body for an explicit list of constraints
  | collectOpen (n : Nat)                   -- after the content: `collect_key_fields` (1e49c64):
                                            --   `for identity, counter in list(context.identities.items())`
  | leave (n : Nat) (cons : List Nat)
  deriving Repr, Inhabited

def step (env : Env) (st : St) (ev : Ev) : St :=
  match ev with
  | .enter n cs => cs.foldl (enterOne n) st
  | .collect n cs => cs.foldl (collectOne env n) st
  | .collectOpen n => st.order.foldl (collectOne env n) st
  | .leave n cs => cs.foldl (leaveOne env n) st

/-- what one item of the loop does, as a function of its own counter only: the counter afterwards
    and the error raised -/
def toErr (c n : Nat) : RowErr → Err
  | .dup => .dup c n
  | .missing i => .missing c n i
  | .multi i => .multi c n i

def collectRes (env : Env) (n c : Nat) : Option Ctr → Option Ctr × Option Err
  | none => (none, none)
  | some k =>
    if !k.enabled || !env.sel c k.scope n then (some k, none)
    else
      match offer (env.kind c) k.table (env.fields c n) with
      | (table, e) => (some { k with table := table }, e.map (toErr c n))

/-- a node outside the qualified node set of keyref `c` (the `continue` of line 942) -/
def keyrefSkips (env : Env) (n : Nat) (st : St) (c : Nat) : Bool :=
  match st.ctrs c with
  | none => false
  | some k => k.enabled && env.sel c k.scope n && env.kind c == .keyref &&
      (match tupleOf .keyref (env.fields c n) 0 with
       | .ok t => t.any Option.isNone
       | .error _ => false)

/-- NOT the code: the loop with `break` in place of the `continue` of line 942 (the rest of the
    open constraints never sees the node).  Only used to state that the two differ. -/
def collectBreak (env : Env) (n : Nat) : List Nat → St → St
  | [], st => st
  | c :: cs, st => if keyrefSkips env n st c then st else collectBreak env n cs (collectOne env n st c)

def run (env : Env) (evs : List Ev) : St := evs.foldl (step env) St.init

/-! ### schema tables and the event stream of a document -/

structure Con where
  id : Nat
  kind : Kind
  sel : List Path
  fields : List (List Path)
  refer : Option Nat
  bound : List Nat          -- ids of the declarations in `identity.elements` (static binding)
  deriving Repr, Inhabited

structure Schema where
  cons : List Con
  declCons : List (Nat × List Nat)     -- declaration ↦ ids of its identity constraints, in order
  ns : NsMap                           -- the validator's initial namespace map
  fscope : Bool := false               -- the tree under check resolves QName fields at the field node
  deriving Repr, Inhabited

def Schema.consOf (sch : Schema) (decl : Nat) : List Nat := (sch.declCons.lookup decl).getD []
/-- the static binding (`selected_by`): only a cache of field selectors since 1e49c64, no longer consulted by
    the walk (`Node.events` uses `.collectOpen`) -/
def Schema.selectedBy (sch : Schema) (decl : Nat) : List Nat :=
  (sch.cons.filter (·.bound.contains decl)).map (·.id)
def Schema.con? (sch : Schema) (c : Nat) : Option Con := sch.cons.find? (·.id == c)

mutual
/-- the order in which `XsdElement.raw_decode` works on a document: enter, content, collect, leave -/
def Node.events (sch : Schema) : Node → List Ev
  | .mk i d _ _ _ _ _ _ kids =>
    .enter i (sch.consOf d) :: (eventsList sch kids ++
      [.collectOpen i, .leave i (sch.consOf d)])
def eventsList (sch : Schema) : List Node → List Ev
  | [] => []
  | k :: ks => k.events sch ++ eventsList sch ks
end

def findNode (root : Node) (i : Nat) : Option Node := root.dos.find? (·.id == i)

/-- field results of constraint `c` on node `n`; `none` if a lexical form is not modelled -/
def fieldsOf (sch : Schema) (root : Node) (k : Con) (n : Node) : Option (List (FRes Val)) :=
  k.fields.mapM (fun f => fieldRes sch.fscope sch.ns root f n)

def envOf (sch : Schema) (root : Node) : Env where
  kind c := match sch.con? c with | some k => k.kind | none => .unique
  refer c := match sch.con? c with | some k => k.refer | none => none
  sel c s n := match sch.con? c, findNode root s with
    | some k, some sn => (selectedIds k.sel sn).contains n
    | _, _ => false
  fields c n := match sch.con? c, findNode root n with
    | some k, some nn => (fieldsOf sch root k nn).getD []
    | _, _ => []

/-- every field of every constraint evaluates inside the modelled lexical spaces -/
def lexOk (sch : Schema) (root : Node) : Bool :=
  sch.cons.all fun k => root.dos.all fun n => (fieldsOf sch root k n).isSome

def runDoc (sch : Schema) (root : Node) : St := run (envOf sch root) (root.events sch)

/-! ## 4. Specification (XSD 1.0/1.1 Part 1 §3.11.4) and its executable evaluation -/

def complete? {α : Type} : List (FRes α) → Option (List α)
  | [] => some []
  | .val v :: r => (complete? r).map (v :: ·)
  | _ :: _ => none

section Spec
variable {α : Type} [DecidableEq α]

/-- cvc-identity-constraint 3: every field selects at most one node -/
def NoMulti (rows : List (List (FRes α))) : Prop := ∀ r ∈ rows, FRes.multi ∉ r
/-- every selected node is in the qualified node set -/
def AllComplete (rows : List (List (FRes α))) : Prop := ∀ r ∈ rows, (complete? r).isSome
/-- no two members of the qualified node set have equal tuples -/
def Distinct (rows : List (List (FRes α))) : Prop := (rows.filterMap complete?).Nodup
/-- every member of the qualified node set has its tuple in the referenced table -/
def Resolved (rows : List (List (FRes α))) (table : List (List α)) : Prop :=
  ∀ t ∈ rows.filterMap complete?, t ∈ table

/-- S, unique -/
def UniqueOk (rows : List (List (FRes α))) : Prop := NoMulti rows ∧ Distinct rows
/-- S, key -/
def KeyOk (rows : List (List (FRes α))) : Prop := NoMulti rows ∧ AllComplete rows ∧ Distinct rows
/-- S, keyref -/
def KeyrefOk (rows : List (List (FRes α))) (table : List (List α)) : Prop :=
  NoMulti rows ∧ Resolved rows table

instance (rows : List (List (FRes α))) : Decidable (NoMulti rows) := by unfold NoMulti; infer_instance
instance (rows : List (List (FRes α))) : Decidable (AllComplete rows) := by
  unfold AllComplete; infer_instance
instance (rows : List (List (FRes α))) : Decidable (Distinct rows) := by unfold Distinct; infer_instance
instance (rows : List (List (FRes α))) (table) : Decidable (Resolved rows table) := by
  unfold Resolved; infer_instance

instance (rows : List (List (FRes α))) : Decidable (UniqueOk rows) := by unfold UniqueOk; infer_instance
instance (rows : List (List (FRes α))) : Decidable (KeyOk rows) := by unfold KeyOk; infer_instance
instance (rows : List (List (FRes α))) (table) : Decidable (KeyrefOk rows table) := by
  unfold KeyrefOk; infer_instance

inductive Clause where
  | dup | missing | multi | notfound
  deriving DecidableEq, Repr, Inhabited

/-- O for one scope: the violated clauses, given the rows of the selected nodes and (keyref) the
    table of the referenced constraint -/
def rowsClauses (kind : Kind) (rows : List (List (FRes α))) (table : Option (List (List α))) :
    List Clause :=
  (if decide (NoMulti rows) then [] else [.multi]) ++
  match kind with
  | .unique => if decide (Distinct rows) then [] else [.dup]
  | .key => (if decide (AllComplete rows) then [] else [.missing]) ++
            (if decide (Distinct rows) then [] else [.dup])
  | .keyref => match table with
    | none => []
    | some tb => if decide (Resolved rows tb) then [] else [.notfound]

end Spec

def targets (k : Con) (s : Node) : List Node :=
  s.dos.filter fun n => (selectedIds k.sel s).contains n.id

/-- typed (value-space) rows of constraint `k` in scope `s` -/
def sRows (sch : Schema) (root : Node) (k : Con) (s : Node) : List (List (FRes SVal)) :=
  (targets k s).map fun n => (k.fields.mapM (fun f => fieldResG (specConv sch.ns root) f n)).getD []

/-- the rows as the code keys them -/
def rowsOf (sch : Schema) (root : Node) (k : Con) (s : Node) : List (List (FRes Val)) :=
  (targets k s).map fun n => (fieldsOf sch root k n).getD []

/-- the qualified tuples of constraint `k` in scope `s` -/
def qualified (sch : Schema) (root : Node) (k : Con) (s : Node) : List (List SVal) :=
  (sRows sch root k s).filterMap complete?

/-- scope instances of constraint `c` inside (or at) `s` -/
def scopesOf (sch : Schema) (c : Nat) (s : Node) : List Node :=
  s.dos.filter fun n => (sch.consOf n.decl).contains c

/-- the table of the referenced constraint visible from scope `s`: the tables of all its scope
    instances within `s` (tables propagate upwards; see `conflict` for the tuples the spec drops) -/
def referTable (sch : Schema) (root : Node) (r : Con) (s : Node) : List (List SVal) :=
  (scopesOf sch r.id s).flatMap (qualified sch root r)

/-- O: clauses of the property violated in scope `s` by constraint `k` -/
def scopeClauses (sch : Schema) (root : Node) (k : Con) (s : Node) : List Clause :=
  rowsClauses k.kind (sRows sch root k s) ((k.refer.bind sch.con?).map fun r => referTable sch root r s)

/-- O on a whole document: the violated (constraint, clause) pairs -/
def specClauses (sch : Schema) (root : Node) : List (Nat × Clause) :=
  root.dos.flatMap fun s =>
    (sch.consOf s.decl).flatMap fun c => match sch.con? c with
      | none => []
      | some k => (scopeClauses sch root k s).map fun cl => (c, cl)

/-! ### guards: the regions in which the current algorithm is known to deviate -/

/-- a keyref scope whose referenced constraint does not have exactly one scope instance inside it
    (0 → the table of an instance *outside* the scope is consulted if one was met before, the
    empty table otherwise; ≥ 2 → only the last instance's table is consulted) -/
def referSpread (sch : Schema) (root : Node) : List (Nat × Nat) :=
  root.dos.flatMap fun s =>
    (sch.consOf s.decl).filterMap fun c => match sch.con? c with
      | some k => match k.kind, k.refer.bind sch.con? with
        | .keyref, some r =>
          let m := (scopesOf sch r.id s).length
          if m = 1 then none else some (c, m)
        | _, _ => none
      | none => none

/-- a referenced tuple present in more than one scope instance of the referenced constraint:
    the XSD conflict rule drops it from the propagated table; the property text does not say -/
def conflict (sch : Schema) (root : Node) : Bool :=
  root.dos.any fun s =>
    (sch.consOf s.decl).any fun c => match sch.con? c with
      | some k => match k.kind, k.refer.bind sch.con? with
        | .keyref, some r =>
          let tabs := (scopesOf sch r.id s).map (qualified sch root r)
          (qualified sch root k s).any fun t => (tabs.filter (·.contains t)).length ≥ 2
        | _, _ => false
      | none => false

/-- a keyref tuple that matches the referenced table only when strings and QNames are conflated -/
def strQName (sch : Schema) (root : Node) : List Nat :=
  (root.dos.flatMap fun s =>
    (sch.consOf s.decl).filter fun c => match sch.con? c with
      | some k => match k.kind, k.refer.bind sch.con? with
        | .keyref, some r =>
          let tab := referTable sch root r s
          (qualified sch root k s).any fun t =>
            !tab.contains t && (tab.map (·.map (·.2))).contains (t.map (·.2))
        | _, _ => false
      | none => false).eraseDups

/-- a constraint with a selected node one of whose fields gets a different value when it is resolved
    with the declarations in scope of the node the field selects instead of the map held at the
    collect of the selected node (a child-element field that carries its own xmlns declarations):
    finding C08-F8 on a tree with `fscope = false` -/
def fieldNs (sch : Schema) (root : Node) : List Nat :=
  (root.dos.flatMap fun s =>
    (sch.consOf s.decl).filter fun c => match sch.con? c with
      | some k => (targets k s).any fun n => k.fields.any fun f =>
          fieldResG (specConv sch.ns root) f n !=
            fieldResG (fun _ t lex => tagged (nsAt sch.ns root n.id) t lex) f n
      | none => false).eraseDups

mutual
/-- sibling elements are distinct objects (`context.obj is obj` of the stack discipline) -/
def Node.sibOk : Node → Bool
  | .mk _ _ _ _ _ _ _ _ kids => decide ((kids.map Node.id).Nodup) && sibOkList kids
def sibOkList : List Node → Bool
  | [] => true
  | k :: ks => k.sibOk && sibOkList ks
end

/-! ## 5. ID / IDREF (simple_types.py:763-783, schemas.py:1393-1399) -/

inductive IdEv where
  | id (v : String)
  | idref (v : String)
  deriving DecidableEq, Repr, Inhabited

inductive IdErr where
  | dup (v : String)            -- "duplicated xs:ID value"
  | dangling (v : String)       -- "IDREF … not found in XML document"
  deriving DecidableEq, Repr, Inhabited

/-- `context.id_map`: `defd` = keys with count 1, `refd` = keys inserted with count 0 by an IDREF
    (insertion order, newest first; a key of `refd` may later also enter `defd`) -/
structure IdSt where
  defd : List String
  refd : List String
  errs : List IdErr
  deriving Repr, Inhabited

def idStep (st : IdSt) : IdEv → IdSt
  | .idref v => if st.defd.contains v || st.refd.contains v then st else { st with refd := v :: st.refd }
  | .id v => if st.defd.contains v then { st with errs := .dup v :: st.errs }
             else { st with defd := v :: st.defd }

/-- an ID / IDREF occurrence as the walk meets it; an ID comes with the element it is bound to -/
inductive BEv where
  | id (v : String) (binder : Nat)
  | idref (v : String)
  deriving DecidableEq, Repr, Inhabited

def tokensAux : List Char → List Char → List String
  | [], cur => if cur.isEmpty then [] else [String.ofList cur.reverse]
  | c :: r, cur =>
    if isWs c then (if cur.isEmpty then tokensAux r [] else String.ofList cur.reverse :: tokensAux r [])
    else tokensAux r (c :: cur)
/-- the items of a list-typed value (xs:IDREFS) -/
def tokens (l : List Char) : List String := tokensAux l []

/-- the occurrences one attribute / element content of kind `k` contributes
    (1 xs:ID, 2 xs:IDREF, 3 xs:IDREFS: one reference per item, 4 xs:ID as the simple content of a
    complex type) -/
def occEvents (k : Nat) (lex : String) (b : Nat) : List BEv :=
  if k = 1 || k = 4 then [.id (String.ofList (strip lex.toList)) b]
  else if k = 2 then [.idref (String.ofList (strip lex.toList))]
  else if k = 3 then (tokens lex.toList).map .idref
  else []

mutual
/-- ID / IDREF occurrences in the order the validator meets them: the attributes of an element
    (decoded first, `context.level` raised by one around them: elements.py:734-736), then its own
    simple content, then its children.
    * `v11`: XSD 1.1 keeps one `id_list` per complex element (elements.py:725-728, 862), shared by
      its attributes and its simple-typed children: the content of a simple-typed ID element is bound
      to the PARENT; in XSD 1.0 every occurrence has its own binder (any repetition is a duplicate).
    * `rootReg = false` is the current tree: simple content is decoded WITHOUT raising the level, so an
      ID that is the content of the element the validation starts from meets `elif context.level:`
      (simple_types.py:767) at level 0 and is not recorded (finding C08-F9). -/
def Node.idEv (v11 rootReg top : Bool) (parent : Nat) : Node → List BEv
  | .mk i _ _ attrs _ text ck _ kids =>
    attrs.flatMap (fun a => occEvents a.idk a.lex i) ++
    (if top && (ck = 1 || ck = 4) && !rootReg then []
     else occEvents ck text (if v11 && !top && ck = 1 then parent else i)) ++
    idEvList v11 i kids
def idEvList (v11 : Bool) (parent : Nat) : List Node → List BEv
  | [] => []
  | k :: ks => k.idEv v11 true false parent ++ idEvList v11 parent ks
end

def lookB (v : String) : List (String × Nat) → Option Nat
  | [] => none
  | (w, b) :: r => if w = v then some b else lookB v r

/-- simple_types.py:768-783 with a non-`None` `id_list`: a repetition of an ID inside the element
    that first defined it (`obj in context.id_list`) is silently accepted — no error, no state
    change — so it can be dropped; every other occurrence goes to the counter `idStep` -/
def collapseAux (seen : List (String × Nat)) : List BEv → List IdEv
  | [] => []
  | .idref v :: r => .idref v :: collapseAux seen r
  | .id v b :: r =>
    match lookB v seen with
    | some b0 => if b0 = b then collapseAux seen r else .id v :: collapseAux seen r
    | none => .id v :: collapseAux ((v, b) :: seen) r

def collapse (evs : List BEv) : List IdEv := collapseAux [] evs

def idEvents (v11 rootReg : Bool) (root : Node) : List IdEv := collapse (root.idEv v11 rootReg true 0)

/-- whole document: the errors raised on the way plus `_validate_references` at the end -/
def idRun (evs : List IdEv) : List IdErr :=
  let st := evs.foldl idStep ⟨[], [], []⟩
  st.errs.reverse ++ ((st.refd.reverse.filter (fun v => !st.defd.contains v)).map .dangling)

end XsVerif.Identity
