/-
  Model of the validation entry points of xmlschema (property C04).

  Every public entry point is a thin wrapper around ONE recursive descent
  (`XsdElement.raw_decode`, elements.py:597) whose only mode-dependent primitive is
  `ValidationContext.raise_or_collect` (validation.py:216-236):

        strict : raise error
        lax    : context.errors.append(error); return error
        skip   : return error                      (dropped unless the caller yields it)

  The descent is abstracted as a *script* of steps (what the generators
  `XMLSchemaBase.iter_errors` schemas.py:1283-1391 and `XMLSchemaBase.iter_decode`
  schemas.py:1439-1613 do, in order), the wrappers are ported literally:

        schema level      is_valid / validate / iter_errors      schemas.py:1214-1281
                          decode / iter_decode                   schemas.py:1615-1637
        component level   ValidationMixin.*                      validation.py:472-620
        command line      xmlschema-validate                     cli.py:234-278

  The harness records the real sequence of `raise_or_collect` calls of a lax run (that is the
  script), and the driver computes from it what every entry point must return in every mode.

  No Mathlib import: linked into the native driver `drv_c04`.
-/
namespace XsVerif.Modes

/-- validation mode (arguments.py `ValidationOption`). -/
inductive Mode where
  | strict | lax | skip
  deriving DecidableEq, Repr, Inhabited

/-- errors are identified by a number assigned by the harness (class, path, reason). -/
abbrev Err := Nat

/-- One step of a validating generator.  `D` = decoded data (opaque). -/
inductive Step (D : Type) where
  /-- `raise_or_collect` called inside `raw_decode`; the returned error is not yielded. -/
  | collect (e : Err)
  /-- `yield context.<kind>_error(validation, …)` written in the generator itself
      (missing element schemas.py:1365/1598, empty selection 1380, references 1393-1404).
      `inSkip`: the event also exists in a skip-mode run.  True for the missing-element error;
      false for the reference check, whose input (`context.id_map`) is only filled by the
      non-skip branch of the simple-type decoders (simple_types.py:715-719 return before 761). -/
  | direct (e : Err) (inSkip : Bool)
  /-- `yield from context.errors; context.errors.clear()` (schemas.py:1373-1374, 1602-1604). -/
  | flush
  /-- `yield result` (schemas.py:1609-1610). -/
  | result (d : D)
  /-- `return` (schemas.py:1366, 1599). -/
  | stop
  deriving Repr

/-- What a generator yields. -/
inductive Item (D : Type) where
  | err (e : Err)
  | data (d : D)
  deriving Repr, DecidableEq

/-- A finished generator: the items it yields, then either normal exhaustion or an exception. -/
structure Gen (D : Type) where
  items : List (Item D)
  raised : Option Err
  deriving Repr

def Gen.cons {D} (i : Item D) (g : Gen D) : Gen D := { g with items := i :: g.items }
def Gen.prepend {D} (l : List (Item D)) (g : Gen D) : Gen D := { g with items := l ++ g.items }

/-- The generator run in mode `m`.  `buf` is `context.errors`. -/
def gen {D} (m : Mode) : List (Step D) → List Err → Gen D
  | [], _ => ⟨[], none⟩
  | .collect e :: k, buf =>
      match m with
      | .strict => ⟨[], some e⟩
      | .lax => gen m k (buf ++ [e])
      | .skip => gen m k buf
  | .direct e inSkip :: k, buf =>
      match m with
      | .strict => ⟨[], some e⟩
      | .lax => (gen m k (buf ++ [e])).cons (.err e)
      | .skip => if inSkip then (gen m k buf).cons (.err e) else gen m k buf
  | .flush :: k, buf => (gen m k []).prepend (buf.map .err)
  | .result d :: k, buf => (gen m k buf).cons (.data d)
  | .stop :: _, _ => ⟨[], none⟩

/-- error items / data items of a list of yielded items -/
def errsOf {D} : List (Item D) → List Err
  | [] => []
  | .err e :: k => e :: errsOf k
  | .data _ :: k => errsOf k

def dataOf {D} : List (Item D) → List D
  | [] => []
  | .err _ :: k => dataOf k
  | .data d :: k => d :: dataOf k

/-- Outcome of a call: normal return or a raised validation error. -/
inductive Out (α : Type) where
  | ok (a : α)
  | raise (e : Err)
  deriving Repr, DecidableEq

/-! ### schema-level validation API (schemas.py:1214-1281) -/

/-- `list(schema.iter_errors(src))` — the generator runs with `validation='lax'`. -/
def iterErrors {D} (sv : List (Step D)) : List Err := errsOf (gen .lax sv []).items

/-- `next(gen, None)`: first item if one is yielded before the generator ends/raises. -/
def next? {D} (g : Gen D) : Out (Option (Item D)) :=
  match g.items with
  | i :: _ => .ok (some i)
  | [] => match g.raised with
    | some e => .raise e
    | none => .ok none

/-- `schema.is_valid(src)`: `next(self.iter_errors(…), None) is None`. -/
def isValid {D} (sv : List (Step D)) : Out Bool :=
  match next? (gen .lax sv []) with
  | .ok none => .ok true
  | .ok (some _) => .ok false
  | .raise e => .raise e

/-- `for error in items: raise error` over a generator that may itself raise. -/
def raiseFirst {D} (g : Gen D) : Out Unit :=
  match errsOf g.items with
  | e :: _ => .raise e
  | [] => match g.raised with
    | some e => .raise e
    | none => .ok ()

/-- `schema.validate(src)`: `for error in self.iter_errors(…, validation='strict'): raise error`. -/
def validate {D} (sv : List (Step D)) : Out Unit := raiseFirst (gen .strict sv [])

/-! ### schema-level decoding API (schemas.py:1615-1637) -/

/-- shape of the value returned by `decode`: `None`, the single datum, or the list. -/
inductive Shape (D : Type) where
  | none
  | one (d : D)
  | many (l : List D)
  deriving Repr, DecidableEq

def shape {D} : List D → Shape D
  | [] => .none
  | [d] => .one d
  | l => .many l

/-- the loop of `decode` over already produced items: data appended; an error is appended in lax
    mode, raised in strict mode, dropped in skip mode. -/
def decodeLoop {D} (m : Mode) : List (Item D) → List D → List Err → Out (List D × List Err)
  | [], ds, es => .ok (ds, es)
  | .data d :: k, ds, es => decodeLoop m k (ds ++ [d]) es
  | .err e :: k, ds, es =>
      match m with
      | .lax => decodeLoop m k ds (es ++ [e])
      | .strict => .raise e
      | .skip => decodeLoop m k ds es

/-- `schema.decode(src, validation=m)`; in lax mode the second component is the error list,
    otherwise it is `[]` and not part of the returned value. -/
def decode {D} (m : Mode) (sd : List (Step D)) : Out (Shape D × List Err) :=
  let g := gen m sd []
  match decodeLoop m g.items [] [] with
  | .raise e => .raise e
  | .ok (ds, es) =>
    match g.raised with
    | some e => .raise e
    | none => .ok (shape ds, es)

/-- `list(schema.iter_decode(src, validation=m))` (items, then the exception if any). -/
def iterDecode {D} (m : Mode) (sd : List (Step D)) : Gen D := gen m sd []

/-! ### component level (ValidationMixin, validation.py:472-620)

  `raw_decode(obj, validation, context)` is run once; the script of the component is the list of
  its `raise_or_collect` events and the decoded value (`none` = `Empty`). -/

structure Core (D : Type) where
  events : List Err
  value : Option D
  deriving Repr

/-- `raw_decode` in mode `m`: what ends up in `context.errors`, or the raised error. -/
def rawDecode {D} (m : Mode) (c : Core D) : Out (Option D × List Err) :=
  match m, c.events with
  | .strict, e :: _ => .raise e
  | .strict, [] => .ok (c.value, [])
  | .lax, es => .ok (c.value, es)
  | .skip, _ => .ok (c.value, [])

/-- `component.iter_errors(obj)`: `self.raw_decode(obj, 'lax', context); yield from context.errors` -/
def mixIterErrors {D} (c : Core D) : List Err :=
  match rawDecode .lax c with
  | .ok (_, es) => es
  | .raise _ => []

def mixIsValid {D} (c : Core D) : Bool := (mixIterErrors c).head?.isNone

/-- `component.validate(obj)`: `for error in self.iter_errors(…): raise error` (lax run!). -/
def mixValidate {D} (c : Core D) : Out Unit :=
  match mixIterErrors c with
  | e :: _ => .raise e
  | [] => .ok ()

/-- `component.decode(obj, validation=m)` -/
def mixDecode {D} (m : Mode) (c : Core D) : Out (Option D × List Err) := rawDecode m c

/-! ### command line (cli.py:234-278) -/

/-- per file: a library exception / URLError was caught (counts 1) or `len(errors)`. -/
inductive FileRes where
  | libError
  | errors (n : Nat)
  deriving Repr, DecidableEq

def FileRes.count : FileRes → Nat
  | .libError => 1
  | .errors n => n

def totErrors (fs : List FileRes) : Nat := (fs.map FileRes.count).sum

/-- argument of `sys.exit` in the current code: `min(tot_errors, 255)` (cli.py:278). -/
def cliCode (fs : List FileRes) : Nat := min (totErrors fs) 255

/-- argument of `sys.exit` before commit 6c4f37d: the raw total. -/
def cliCodeUnsaturated (fs : List FileRes) : Nat := totErrors fs

/-- what the parent process observes (POSIX: low 8 bits of the argument of `exit`). -/
def osStatus (code : Nat) : Nat := code % 256

def cliExit (fs : List FileRes) : Nat := osStatus (cliCode fs)

/-! ### script discipline

  The real generators yield a `direct` error only when `context.errors` has been flushed, and
  never finish with collected errors pending.  The harness checks this on every recorded script;
  the theorems that relate strict and lax runs need it. -/

/-- after a `direct` yield the generator only yields further direct errors / results or returns
    (schemas.py:1365-1366 `yield …; return`, 1391 and 1612-1613 references at the very end). -/
def tail2 {D} : List (Step D) → Bool
  | [] => true
  | .direct _ _ :: k => tail2 k
  | .result _ :: k => tail2 k
  | .stop :: _ => true
  | .collect _ :: _ => false
  | .flush :: _ => false

/-- `pending` = `context.errors` holds collected errors that were not yet yielded. -/
def wf {D} : List (Step D) → Bool → Bool
  | [], pending => !pending
  | .collect _ :: k, _ => wf k true
  | .direct _ _ :: k, pending => !pending && tail2 k && wf k false
  | .flush :: k, _ => wf k false
  | .result _ :: k, pending => !pending && wf k false
  | .stop :: _, pending => !pending

/-- the error events reached by the run (in call order), mode-oblivious reading of a script. -/
def events {D} : List (Step D) → List Err
  | [] => []
  | .collect e :: k => e :: events k
  | .direct e _ :: k => e :: events k
  | .flush :: k => events k
  | .result _ :: k => events k
  | .stop :: _ => []

/-- the error events that a skip-mode run still yields: the `direct` ones that exist in skip mode
    (collected errors are dropped by raise_or_collect, the reference check finds nothing). -/
def skipDirects {D} : List (Step D) → List Err
  | [] => []
  | .collect _ :: k => skipDirects k
  | .direct e true :: k => e :: skipDirects k
  | .direct _ false :: k => skipDirects k
  | .flush :: k => skipDirects k
  | .result _ :: k => skipDirects k
  | .stop :: _ => []

/-- the data results reached by the run -/
def results {D} : List (Step D) → List D
  | [] => []
  | .collect _ :: k => results k
  | .direct _ _ :: k => results k
  | .flush :: k => results k
  | .result d :: k => d :: results k
  | .stop :: _ => []

/-! ### XsdUnion.raw_decode (simple_types.py:1178-1211), pattern facets aside

  The one place of the descent where the *identity* of the reported error depends on the mode:
  every member type is tried with `'strict'`; if none accepts the value, lax mode re-runs the first
  member that failed with a non-decode (facet) error and collects that member's errors, while
  strict mode raises the union's own generic decode error. -/

/-- result of the strict trial of one member type -/
inductive Member (D : Type) where
  | ok (d : D)
  /-- failed with a validation error that is not a decode error; `e :: rest` = what a lax run of
      the member collects -/
  | facet (e : Err) (rest : List Err)
  /-- failed with an `XMLSchemaDecodeError` -/
  | lexical (e : Err)
  deriving Repr

def firstOk {D} : List (Member D) → Option D
  | [] => none
  | .ok d :: _ => some d
  | _ :: k => firstOk k

/-- `xsd_type`: the first member whose trial failed with a non-decode error -/
def firstFacet {D} : List (Member D) → Option (List Err)
  | [] => none
  | .facet e r :: _ => some (e :: r)
  | _ :: k => firstFacet k

/-- the error events of `XsdUnion.raw_decode` in mode `m`; `generic` = "invalid value …" -/
def unionEvents {D} (m : Mode) (ms : List (Member D)) (generic : Err) : List Err :=
  match firstOk ms with
  | some _ => []
  | none =>
    match m with
    | .skip => []
    | .lax => match firstFacet ms with
      | some es => es
      | none => [generic]
    | .strict => [generic]

/-! ### XsdAnyAttribute.raw_decode (wildcards.py:711-737) and XsdAnyElement.raw_decode (533-571)

  The second place of the descent with an explicit test on the validation mode: the error for a
  name that a `processContents="strict"` wildcard admits but that has no global declaration (or
  whose namespace cannot be loaded) is guarded by `validation != 'skip'`. -/

/-- `processContents` -/
inductive PC where
  | strict | lax | skip
  deriving DecidableEq, Repr, Inhabited

/-- what the look-up of the name gives: `load_namespace` fails / no global declaration /
    a global declaration, with the error events that a lax run of that declaration collects on the
    instance value (`xsd_attribute.raw_decode`, `xsd_element.raw_decode`). -/
inductive Lookup where
  | unavailable
  | notFound
  | declared (inner : List Err)
  deriving Repr

/-- what `raise_or_collect` makes of the events a piece of the descent reaches: strict stops at the
    first one (it is raised), lax keeps all, skip drops all (validation.py:216-236). -/
def inMode (m : Mode) (es : List Err) : List Err :=
  match m with
  | .strict => es.take 1
  | .lax => es
  | .skip => []

/-- the guard of wildcards.py:727/733 and 565 -/
def reportsMissing (m : Mode) (pc : PC) : Bool := m != .skip && pc == .strict

/-- the guard as a mode-specialised shortcut would write it (NOT the code; counter-example only) -/
def reportsMissingStrictOnly (m : Mode) (pc : PC) : Bool := m == .strict && pc == .strict

/-- events reached by `XsdAnyAttribute.raw_decode((name, value), m, context)`.
    `matching` = `self.is_matching(name)`, `ps` = `context.process_skipped`;
    `eNA` "attribute not allowed", `eUn` "unavailable namespace", `eNF` "attribute not found". -/
def anyAttrReachedWith (guard : Mode → PC → Bool) (m : Mode) (pc : PC) (matching ps : Bool)
    (lk : Lookup) (eNA eUn eNF : Err) : List Err :=
  (if matching then [] else [eNA]) ++
  (if pc == .skip && !ps then []
   else match lk with
     | .declared inner => inner
     | .notFound => if guard m pc then [eNF] else []
     | .unavailable => if guard m pc then [eUn] else [])

/-- the error events of the attribute wildcard in mode `m` -/
def anyAttrEvents (m : Mode) (pc : PC) (matching ps : Bool) (lk : Lookup) (eNA eUn eNF : Err) : List Err :=
  inMode m (anyAttrReachedWith reportsMissing m pc matching ps lk eNA eUn eNF)

/-- events reached by `XsdAnyElement.raw_decode(obj, m, context)`.  `xsiType` = the instance element
    carries xsi:type (then an element of that type is created and no look-up error is reported);
    `anon` = the events of decoding `obj` with the created element (xs:anyType, or the xsi:type). -/
def anyElemReachedWith (guard : Mode → PC → Bool) (m : Mode) (pc : PC) (matching ps xsiType : Bool)
    (lk : Lookup) (anon : List Err) (eNA eUn eNF : Err) : List Err :=
  (if matching then [] else [eNA]) ++
  (if pc == .skip && !ps then []
   else match lk with
     | .declared inner => inner
     | .notFound => if xsiType then anon else (if guard m pc then [eNF] else []) ++ anon
     | .unavailable => if xsiType then anon else (if guard m pc then [eUn] else []) ++ anon)

def anyElemEvents (m : Mode) (pc : PC) (matching ps xsiType : Bool) (lk : Lookup) (anon : List Err)
    (eNA eUn eNF : Err) : List Err :=
  inMode m (anyElemReachedWith reportsMissing m pc matching ps xsiType lk anon eNA eUn eNF)

/-! ### scoped copies of the validation context (validation.py:178-196, elements.py:634, 722)

  Below an element that carries an XSD 1.1 inheritable attribute (and when a validation hook returns
  a mode) the descent continues on a COPY of the context.  A run is a tree: error events and scopes;
  `shared` = the copy appends to the same error list as the original (the repaired behaviour;
  `false` = `errors.copy()`, what the code did: finding C04-F5). -/

inductive Run where
  | err (e : Err)
  | scope (shared : Bool) (body : List Run)

mutual
/-- what the caller's `context.errors` holds after a lax run -/
def Run.lax : Run → List Err
  | .err e => [e]
  | .scope shared body => if shared then Run.laxL body else []
def Run.laxL : List Run → List Err
  | [] => []
  | r :: k => r.lax ++ Run.laxL k
end

mutual
/-- every error event the descent reaches (a strict run raises the first of them, wherever it is) -/
def Run.reached : Run → List Err
  | .err e => [e]
  | .scope _ body => Run.reachedL body
def Run.reachedL : List Run → List Err
  | [] => []
  | r :: k => r.reached ++ Run.reachedL k
end

mutual
def Run.allShared : Run → Bool
  | .err _ => true
  | .scope shared body => shared && Run.allSharedL body
def Run.allSharedL : List Run → Bool
  | [] => true
  | r :: k => r.allShared && Run.allSharedL k
end

end XsVerif.Modes
