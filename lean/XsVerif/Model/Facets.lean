/-
  C14, layer M (facets): port of the schema-build checks on the constraining facets of a
  simple-type restriction, and of the validation they denote.

    facets.py:70-85          XsdFacet._parse           (a fixed base facet cannot change)
    facets.py:139-150        whiteSpace                (preserve → replace → collapse only)
    facets.py:188-192        length                    (same as the base length)
    facets.py:226-230        minLength                 (≥ base minLength)
    facets.py:264-268        maxLength                 (≤ base maxLength)
    facets.py:300-314        minInclusive              (the bound is a valid value of the base type)
    facets.py:340-358        minExclusive              (same; failures of an equal base minExclusive are
                                                        ignored; not equal to the base maxInclusive)
    facets.py:384-396        maxInclusive
    facets.py:422-440        maxExclusive
    facets.py:467-483        totalDigits               (≤ base totalDigits)
    facets.py:526-545        fractionDigits            (≤ base fractionDigits)
    facets.py:633-655        enumeration               (every value is a valid value of the base type)
    simple_types.py:148-289  XsdSimpleType._parse_facets (checks across the facets of one restriction
                                                        step and against the nearest base facets)
    simple_types.py:599-606  get_facet                 (nearest facet of a kind along the base chain)
    simple_types.py:1451-1485 XsdAtomicRestriction.raw_decode (base type first, then the step's own
                                                        validators: validity = every step of the chain)
    facets.py:199-203, 237-241, 275-279, 316-320, 360-364, 398-402, 442-446, 485-497, 547-558, 695-711
                             the validators

  A simple type is the chain of its restriction steps, nearest first (the built-in types at the far
  end contribute the facets they are defined with, e.g. xs:short = [minInclusive, maxInclusive]).
  Values are abstract: what the facets look at is a position in an ordered value space `α` (any
  linear order: nothing below depends on discreteness, so scaled decimals are an instance), a length,
  the two digit counts of `count_digits`, and an identity for `value in enumeration`.
  No Mathlib import.
-/
import XsVerif.Basic
import XsVerif.Model.Datatypes

namespace XsVerif.Facets

/-- the values of the whiteSpace facet (the type of the C02 model, whose `normalize` is the port of
    simple_types.py:447-463) -/
abbrev Ws := XsVerif.Datatypes.WsMode

def wsRank : Ws → Nat | .preserve => 0 | .replace => 1 | .collapse => 2

/-- an atomic value as the facets see it -/
structure Val (α : Type) where
  ord : α            -- position in the ordered value space (min/max facets; python `<`, `<=`, `==`)
  len : Nat := 0     -- `len(value)` (length facets)
  int : Nat := 0     -- `count_digits(value)[0]`
  frac : Nat := 0    -- `count_digits(value)[1]`
  key : Nat := 0     -- equality class of the decoded value (`value in self.enumeration`)
  deriving DecidableEq, Repr, Inhabited

/-- one facet: its value and the `fixed` flag -/
structure F (β : Type) where
  v : β
  fixed : Bool := false
  deriving DecidableEq, Repr, Inhabited

/-- the facets of one restriction step (the `facets` dict of an XsdAtomicRestriction) -/
structure FSet (α : Type) where
  length : Option (F Nat) := none
  minLength : Option (F Nat) := none
  maxLength : Option (F Nat) := none
  minInc : Option (F (Val α)) := none
  minExc : Option (F (Val α)) := none
  maxInc : Option (F (Val α)) := none
  maxExc : Option (F (Val α)) := none
  totalDigits : Option (F Nat) := none
  fractionDigits : Option (F Nat) := none
  enum : Option (List (Val α)) := none
  ws : Option (F Ws) := none
  deriving Repr, Inhabited

abbrev Chain (α : Type) := List (FSet α)

def optAll {β : Type} (o : Option β) (p : β → Bool) : Bool :=
  match o with | some x => p x | none => true

/-- `get_facet` (simple_types.py:599-606): the nearest facet of a kind along the chain -/
def nearest {α β : Type} (get : FSet α → Option β) : Chain α → Option β
  | [] => none
  | S :: C => match get S with | some x => some x | none => nearest get C

/-- index of the step that declares the nearest facet of a kind (`facet.base_type` identity) -/
def nearestIdx {α β : Type} (get : FSet α → Option β) : Chain α → Option Nat
  | [] => none
  | S :: C => match get S with | some _ => some 0 | none => (nearestIdx get C).map (· + 1)

section
variable {α : Type} [LE α] [LT α] [DecidableLE α] [DecidableLT α] [DecidableEq α]

/-! ### validation -/

/-- the validators of the facets (the python comparisons as they are written) -/
def passLength (v : Val α) (f : F Nat) : Bool := v.len == f.v          -- `len(value) != self.value` raises
def passMinLength (v : Val α) (f : F Nat) : Bool := !(v.len < f.v)
def passMaxLength (v : Val α) (f : F Nat) : Bool := !(v.len > f.v)
def passMinInc (v : Val α) (f : F (Val α)) : Bool := !(v.ord < f.v.ord)
def passMinExc (v : Val α) (f : F (Val α)) : Bool := !(v.ord ≤ f.v.ord)
def passMaxInc (v : Val α) (f : F (Val α)) : Bool := !(f.v.ord < v.ord)
def passMaxExc (v : Val α) (f : F (Val α)) : Bool := !(f.v.ord ≤ v.ord)
def passTotal (v : Val α) (f : F Nat) : Bool := v.int + v.frac ≤ f.v
def passFraction (v : Val α) (f : F Nat) : Bool := v.frac ≤ f.v
def passEnum (v : Val α) (l : List (Val α)) : Bool := l.contains v

/-- the validators of one step, `ignMin`/`ignMax`: failures of a minExclusive / maxExclusive facet
    whose value equals the given one are not counted (facets.py:351-353, 433-435) -/
def FSet.validBut (S : FSet α) (ignMin ignMax : Option α) (v : Val α) : Bool :=
  optAll S.length (passLength v) && optAll S.minLength (passMinLength v) &&
  optAll S.maxLength (passMaxLength v) && optAll S.minInc (passMinInc v) &&
  optAll S.minExc (fun f => ignMin == some f.v.ord || passMinExc v f) &&
  optAll S.maxInc (passMaxInc v) &&
  optAll S.maxExc (fun f => ignMax == some f.v.ord || passMaxExc v f) &&
  optAll S.totalDigits (passTotal v) && optAll S.fractionDigits (passFraction v) &&
  optAll S.enum (passEnum v)

/-- every validator of one restriction step passes -/
def FSet.valid (S : FSet α) (v : Val α) : Bool :=
  optAll S.length (passLength v) && optAll S.minLength (passMinLength v) &&
  optAll S.maxLength (passMaxLength v) && optAll S.minInc (passMinInc v) &&
  optAll S.minExc (passMinExc v) && optAll S.maxInc (passMaxInc v) &&
  optAll S.maxExc (passMaxExc v) &&
  optAll S.totalDigits (passTotal v) && optAll S.fractionDigits (passFraction v) &&
  optAll S.enum (passEnum v)

/-- validity as the code decides it (`raw_decode`): the base type first, then the step's own
    validators — every step of the chain -/
def validChain (C : Chain α) (v : Val α) : Bool := C.all (·.valid v)

def validChainBut (C : Chain α) (ignMin ignMax : Option α) (v : Val α) : Bool :=
  C.all (·.validBut ignMin ignMax v)

/-- validity under the *effective* facets (the {facets} property of the XSD type definition, what
    `get_facet`, `min_value`, `max_value`, `max_length`, `enumeration` report): for every kind only the
    nearest facet counts -/
def validEff (C : Chain α) (v : Val α) : Bool :=
  optAll (nearest (·.length) C) (passLength v) && optAll (nearest (·.minLength) C) (passMinLength v) &&
  optAll (nearest (·.maxLength) C) (passMaxLength v) && optAll (nearest (·.minInc) C) (passMinInc v) &&
  optAll (nearest (·.minExc) C) (passMinExc v) && optAll (nearest (·.maxInc) C) (passMaxInc v) &&
  optAll (nearest (·.maxExc) C) (passMaxExc v) &&
  optAll (nearest (·.totalDigits) C) (passTotal v) &&
  optAll (nearest (·.fractionDigits) C) (passFraction v) &&
  optAll (nearest (·.enum) C) (passEnum v)

/-! ### the build checks -/

inductive E where
  | fixedChanged            -- "{0!r} facet value is fixed to {1!r}"
  | wsOnlyCollapse          -- "facet value can be only 'collapse'"
  | wsReplaceOrCollapse     -- "facet value can be only 'replace' or 'collapse'"
  | lengthDiffers           -- "base facet has a different length"
  | minLengthLower          -- "base facet has a greater min length" / "'minLength' has a lesser value than parent"
  | maxLengthGreater        -- "base type has a lesser max length" / "'maxLength' has a greater value than parent"
  | boundInvalid            -- "invalid restriction: <reason of a base validator>"
  | alsoMaximum             -- "invalid restriction: {} is also the maximum"
  | alsoMinimum             -- "invalid restriction: {} is also the minimum"
  | totalGreater            -- "invalid restriction: base value is lower" (totalDigits) / "totalDigits facet value cannot be greater ..."
  | fractionGreater         -- "invalid restriction: base value is lower" (fractionDigits)
  | enumInvalid             -- an enumeration value is not a valid value of the base type
  | minLenGtLength          -- "'minLength' value must be less than or equal to 'length'"
  | bothLengthMin           -- "cannot specify both 'length' and 'minLength'"
  | maxLenLtLength          -- "'maxLength' value must be greater or equal to 'length'"
  | bothLengthMax           -- "cannot specify both 'length' and 'maxLength'"
  | maxLtMinLength          -- "'maxLength' value is less than 'minLength'"
  | minLenGtBaseMax         -- "'minLength' has a greater value than parent 'maxLength'"
  | maxLenLtBaseMin         -- "'maxLength' has a lesser value than parent 'minLength'"
  | bothMin                 -- "cannot specify both 'minInclusive' and 'minExclusive'"
  | minGtMax                -- the four "'minX' must be less(er) ... 'maxY'" messages
  | bothMax                 -- "cannot specify both 'maxInclusive' and 'maxExclusive'"
  | fractionGtTotal         -- "fractionDigits facet value cannot be lesser than the value of totalDigits facet"
  deriving DecidableEq, Repr, Inhabited

def E.code : E → String
  | .fixedChanged => "fixedChanged" | .wsOnlyCollapse => "wsOnlyCollapse"
  | .wsReplaceOrCollapse => "wsReplaceOrCollapse" | .lengthDiffers => "lengthDiffers"
  | .minLengthLower => "minLengthLower" | .maxLengthGreater => "maxLengthGreater"
  | .boundInvalid => "boundInvalid" | .alsoMaximum => "alsoMaximum" | .alsoMinimum => "alsoMinimum"
  | .totalGreater => "totalGreater" | .fractionGreater => "fractionGreater"
  | .enumInvalid => "enumInvalid" | .minLenGtLength => "minLenGtLength"
  | .bothLengthMin => "bothLengthMin" | .maxLenLtLength => "maxLenLtLength"
  | .bothLengthMax => "bothLengthMax" | .maxLtMinLength => "maxLtMinLength"
  | .minLenGtBaseMax => "minLenGtBaseMax" | .maxLenLtBaseMin => "maxLenLtBaseMin"
  | .bothMin => "bothMin" | .minGtMax => "minGtMax" | .bothMax => "bothMax"
  | .fractionGtTotal => "fractionGtTotal"

def err (c : Bool) (e : E) : List E := if c then [e] else []

/-- `XsdFacet._parse` (facets.py:82-85): the nearest base facet of the same kind is fixed and the
    value differs.  `ne` is python's `!=` on the two values. -/
def fixedErr {β : Type} (base : Option (F β)) (own : Option (F β)) (ne : β → β → Bool) : List E :=
  match own, base with
  | some f, some b => err (b.fixed && ne f.v b.v) .fixedChanged
  | _, _ => []

def neNat (a b : Nat) : Bool := a != b
def neOrd (a b : Val α) : Bool := a.ord != b.ord
def neWs (a b : Ws) : Bool := a != b

/-- facets.py:70-85 for every kind that goes through the generic `_parse` -/
def fixedErrs (C : Chain α) (D : FSet α) : List E :=
  fixedErr (nearest (·.length) C) D.length neNat ++ fixedErr (nearest (·.minLength) C) D.minLength neNat ++
  fixedErr (nearest (·.maxLength) C) D.maxLength neNat ++ fixedErr (nearest (·.minInc) C) D.minInc neOrd ++
  fixedErr (nearest (·.minExc) C) D.minExc neOrd ++ fixedErr (nearest (·.maxInc) C) D.maxInc neOrd ++
  fixedErr (nearest (·.maxExc) C) D.maxExc neOrd ++
  fixedErr (nearest (·.totalDigits) C) D.totalDigits neNat ++
  fixedErr (nearest (·.fractionDigits) C) D.fractionDigits neNat ++ fixedErr (nearest (·.ws) C) D.ws neWs

/-- whiteSpace (facets.py:139-150) -/
def wsErrs (C : Chain α) (D : FSet α) : List E :=
  match D.ws with
  | none => []
  | some f =>
    let base := (nearest (·.ws) C).map (·.v)
    match f.v with
    | .collapse => []
    | .replace => err (base == some .collapse) .wsOnlyCollapse
    | .preserve =>
      if base == some .collapse then [.wsOnlyCollapse]
      else err (base == some .replace) .wsReplaceOrCollapse

/-- the `_parse_value` checks of the three length facets (facets.py:188-192, 226-230, 264-268) -/
def lengthErrs (C : Chain α) (D : FSet α) : List E :=
  (match D.length, nearest (·.length) C with
   | some f, some b => err (f.v != b.v) .lengthDiffers | _, _ => []) ++
  (match D.minLength, nearest (·.minLength) C with
   | some f, some b => err (f.v < b.v) .minLengthLower | _, _ => []) ++
  (match D.maxLength, nearest (·.maxLength) C with
   | some f, some b => err (f.v > b.v) .maxLengthGreater | _, _ => [])

/-- the `_parse_value` checks of the four bound facets: the bound is decoded and validated (lax) by
    the base type and every reported error is a parse error (facets.py:300-314, 340-358, 384-396,
    422-440) -/
def boundErrs (C : Chain α) (D : FSet α) : List E :=
  (match D.minInc with | some f => err (!validChain C f.v) .boundInvalid | none => []) ++
  (match D.minExc with
   | some f => err (!validChainBut C (some f.v.ord) none f.v) .boundInvalid ++
       err ((nearest (·.maxInc) C).any (·.v.ord == f.v.ord)) .alsoMaximum
   | none => []) ++
  (match D.maxInc with | some f => err (!validChain C f.v) .boundInvalid | none => []) ++
  (match D.maxExc with
   | some f => err (!validChainBut C none (some f.v.ord) f.v) .boundInvalid ++
       err ((nearest (·.minInc) C).any (·.v.ord == f.v.ord)) .alsoMinimum
   | none => [])

/-- totalDigits / fractionDigits against the nearest base facet (facets.py:480-483, 542-545;
    simple_types.py:273-277) -/
def digitsErrs (C : Chain α) (D : FSet α) : List E :=
  (match D.totalDigits, nearest (·.totalDigits) C with
   | some f, some b => err (b.v < f.v) .totalGreater | _, _ => []) ++
  (match D.fractionDigits, nearest (·.fractionDigits) C with
   | some f, some b => err (b.v < f.v) .fractionGreater | _, _ => [])

/-- enumeration (facets.py:633-655): every value is decoded and validated (strict) by the base type -/
def enumErrs (C : Chain α) (D : FSet α) : List E :=
  match D.enum with
  | some l => err (!l.all (validChain C)) .enumInvalid
  | none => []

/-- the length part of `_parse_facets` (simple_types.py:175-235) -/
def crossLengthErrs (C : Chain α) (D : FSet α) : List E :=
  match D.length with
  | some len =>
    (match D.minLength with
     | some mn =>
       err (mn.v > len.v) .minLenGtLength ++
       err ((nearest (·.minLength) C).isNone ||
            ((nearestIdx (·.length) C).isSome && nearestIdx (·.length) C == nearestIdx (·.minLength) C))
         .bothLengthMin
     | none => []) ++
    (match D.maxLength with
     | some mx =>
       err (mx.v < len.v) .maxLenLtLength ++
       err ((nearest (·.maxLength) C).isNone ||
            ((nearestIdx (·.length) C).isSome && nearestIdx (·.length) C == nearestIdx (·.maxLength) C))
         .bothLengthMax
     | none => [])
  | none =>
    (match D.minLength with
     | some mn =>
       (match D.maxLength with | some mx => err (mx.v < mn.v) .maxLtMinLength | none => []) ++
       (match nearest (·.minLength) C with | some b => err (b.v > mn.v) .minLengthLower | none => []) ++
       (match nearest (·.maxLength) C with | some b => err (mn.v > b.v) .minLenGtBaseMax | none => [])
     | none => []) ++
    (match D.maxLength with
     | some mx =>
       (match nearest (·.minLength) C with | some b => err (b.v > mx.v) .maxLenLtBaseMin | none => []) ++
       (match nearest (·.maxLength) C with | some b => err (mx.v > b.v) .maxLengthGreater | none => [])
     | none => [])

/-- the min/max part of `_parse_facets` (simple_types.py:237-263) -/
def crossBoundErrs (D : FSet α) : List E :=
  (match D.minInc with
   | some mi =>
     err D.minExc.isSome .bothMin ++
     (if (D.maxInc.any fun ma => ma.v.ord < mi.v.ord) then [.minGtMax]
      else err (D.maxExc.any fun ma => ma.v.ord ≤ mi.v.ord) .minGtMax)
   | none =>
     match D.minExc with
     | some mi =>
       (if (D.maxInc.any fun ma => ma.v.ord ≤ mi.v.ord) then [.minGtMax]
        else err (D.maxExc.any fun ma => ma.v.ord < mi.v.ord) .minGtMax)
     | none => []) ++
  err (D.maxInc.isSome && D.maxExc.isSome) .bothMax

/-- the digits part of `_parse_facets` (simple_types.py:265-277) -/
def crossDigitsErrs (C : Chain α) (D : FSet α) : List E :=
  match D.totalDigits with
  | some t =>
    (match D.fractionDigits with | some f => err (t.v < f.v) .fractionGtTotal | none => []) ++
    (match nearest (·.totalDigits) C with | some b => err (b.v < t.v) .totalGreater | none => [])
  | none => []

/-- every parse error the build reports for the restriction step `D` of the type with chain `C` -/
def checkStep (C : Chain α) (D : FSet α) : List E :=
  fixedErrs C D ++ wsErrs C D ++ lengthErrs C D ++ boundErrs C D ++ digitsErrs C D ++ enumErrs C D ++
  crossLengthErrs C D ++ crossBoundErrs D ++ crossDigitsErrs C D

/-- the build accepts the step -/
def accepts (C : Chain α) (D : FSet α) : Bool := (checkStep C D).isEmpty

/-- what the built step keeps: an enumeration value that the base type refuses is stored as `None`
    (facets.py:631, 641-655) and never equals an instance value -/
def stored (C : Chain α) (D : FSet α) : FSet α :=
  { D with enum := D.enum.map fun l => l.filter (validChain C) }

/-- the chain as built, from the declared steps (farthest step first in the recursion) -/
def storedChain : Chain α → Chain α
  | [] => []
  | D :: C => stored (storedChain C) D :: storedChain C

/-- a chain every step of which was accepted by the build -/
def Accepted : Chain α → Prop
  | [] => True
  | D :: C => accepts C D = true ∧ Accepted C

/-! ### lexical level: white space normalisation, then the chain (strings) -/

/-- `self.white_space` of the type with chain `C`: the value of the nearest whiteSpace facet -/
def effWs (C : Chain α) : Ws := ((nearest (·.ws) C).map (·.v)).getD .preserve

/-- `XsdAtomicRestriction.raw_decode` (simple_types.py:1454-1477): every step normalises the text with
    its own white space value before it hands it to its base type -/
def normChain : Chain α → Datatypes.Str → Datatypes.Str
  | [], s => s
  | D :: C, s => normChain C (Datatypes.normalize Datatypes.isXmlWs (effWs (D :: C)) s)

end

/-- the value of a text for a string type: its length; `key` = the equality class given by `keyOf` -/
def strVal (keyOf : Datatypes.Str → Nat) (t : Datatypes.Str) : Val Int :=
  { ord := 0, len := t.length, key := keyOf t }

/-- validity of a text for a string type with chain `C` -/
def lexValid (keyOf : Datatypes.Str → Nat) (C : Chain Int) (s : Datatypes.Str) : Bool :=
  validChain C (strVal keyOf (normChain C s))

end XsVerif.Facets
