/-
  XSD 1.1 schema-level xs:defaultOpenContent: WHEN it applies to a complex type is part of the
  denotation of the type's content (Structures 1.1 §3.4.2.3.3, clauses 2 and 5.2).
  `content = none` is a complex type without a model group child.
-/
import XsVerif.Model.Particle

namespace XsVerif.CM

structure DefaultOpen where
  mode : OpenMode
  wild : Leaf
  appliesToEmpty : Bool := false

/-- clause 2.1: the explicit content is empty: no group child (2.1.1), an xs:all / xs:sequence
    without children (2.1.2), an xs:choice without children and minOccurs = 0 (2.1.3), or a group
    with maxOccurs = 0 (2.1.4). -/
def explicitEmpty : Option Particle → Bool
  | none => true
  | some (.leaf _ _ _) => false
  | some (.group _ k lo hi items) =>
    hi == some 0 ||
    (match items with
     | .nil => (match k with | .choice => lo == 0 | _ => true)
     | .cons _ _ => false)

/-- clause 5.2: the default open content is the type's wildcard element iff the content type is
    not empty (explicit content not empty, or effective mixed = true: clause 3.1.1) or
    appliesToEmpty = true. -/
def openContentApplies (d : DefaultOpen) (mixed : Bool) (c : Option Particle) : Bool :=
  mixed || !explicitEmpty c || d.appliesToEmpty

def contentRx : Option Particle → Rx Leaf
  | none => .eps
  | some p => p.toRx

/-- S: the language of the element children of a complex type in a schema document that may
    carry a defaultOpenContent. -/
def typeRx (d : Option DefaultOpen) (mixed : Bool) (c : Option Particle) : Rx Leaf :=
  match d with
  | none => contentRx c
  | some d => if openContentApplies d mixed c then withOpen d.mode d.wild (contentRx c) else contentRx c

/-- occurrence range is satisfiable -/
def rangeOk : Option Particle → Prop
  | some (.group _ _ lo hi _) => Rx.leHi lo hi
  | _ => True

end XsVerif.CM
