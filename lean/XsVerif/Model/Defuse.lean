/-
  C13 — model of the defusing of XML sources.

  Ported code:
    xmlschema/resources/xml_resource.py:277-281   is_defused
    xmlschema/resources/xml_resource.py:431-495   open (which way a source is defused)
    xmlschema/resources/sax.py:45-92              defuse_xml (wrapping of non-seekable streams, scan, rewind)
    xmlschema/utils/streams.py:24-145             DefusableReader (buffered re-reader)

  The expat side (entity handlers raising XMLResourceForbidden) is a parameter: `mustRefuse` says
  whether the prolog of the document declares an entity / references an external subset.
  No Mathlib import.
-/
namespace XsVerif.Defuse

/-! ### is_defused -/

inductive Mode where
  | never | remote | nonlocal | always
  deriving DecidableEq, Repr

/-- class of `resource.base_url` (dirname of the URL, else the base_url argument): `absent` = None -/
inductive BaseClass where
  | absent | loc | remote | neither
  deriving DecidableEq, Repr

/-- xml_resource.py:277-281; `is_remote_url(None)` and `is_local_url(None)` are both False -/
def isDefused (m : Mode) (b : BaseClass) : Bool :=
  match m with
  | .never => false
  | .remote => b == .remote
  | .nonlocal => b != .loc
  | .always => true

/-! ### open(): which way the source is defused -/

/-- `isinstance(fp, io.RawIOBase)` / `io.BufferedIOBase` / `io.TextIOBase` / none of them (response
    wrappers such as urllib's addinfourl, duck-typed file objects) -/
inductive IoKind where
  | raw | buffered | text | other
  deriving DecidableEq, Repr

/-- Which of the two repairs of findings C13-F2 / C13-F3 the tree under check carries (detected by the
    harness on the real classes, never assumed):
    notes/fixes/C13-defusable-reader-grows-during-scan.patch  → `growBuf`
    notes/fixes/C13-text-stream-defusable-reader.patch        → `wrapText` (and `growText`). -/
structure Variant where
  growBuf : Bool     -- DefusableReader keeps every byte it reads until the first seek()
  wrapText : Bool    -- open()/defuse_xml wrap a non-seekable io.TextIOBase in DefusableTextReader
  growText : Bool    -- DefusableTextReader keeps every character it reads until the first seek()
  deriving DecidableEq, Repr

/-- the tree as pinned (streams.py / sax.py / xml_resource.py without the two patches) -/
def Variant.current : Variant := ⟨false, false, false⟩
/-- the tree with both patches -/
def Variant.repaired : Variant := ⟨true, true, true⟩

structure Chan where
  seekable : Bool      -- fp.seekable()
  io : IoKind
  hasOpener : Bool     -- self._opener is not None
  hasUrl : Bool        -- self.url is not None
  deriving DecidableEq, Repr

inductive Plan where
  | noDefuse        -- the stream goes to the parser unchecked
  | rewind          -- defuse_xml(fp): scan, then fp.seek(0)
  | wrapRaw         -- defuse_xml: DefusableReader(io.BufferedReader(fp)), scan, seek(0)   (sax.py:57-61, fix 1d3fb41)
  | wrapBuffered    -- defuse_xml: DefusableReader(fp), scan, seek(0)
  | wrapText        -- defuse_xml: DefusableTextReader(fp), scan, seek(0)   (only with the C13-F3 repair)
  | secondOpen      -- a second stream is opened from the URL and scanned (rewind=False)
  | refuse          -- XMLResourceOSError "can't defuse ... not seekable"
  deriving DecidableEq, Repr

/-- the streams `defuse_xml` can wrap in a replay reader (sax.py:56-75; with the C13-F3 repair also
    text streams) -/
def wrappable (v : Variant) (io : IoKind) : Bool :=
  io == .raw || io == .buffered || (v.wrapText && io == .text)

/-- xml_resource.py:472-493 with sax.py:56-75 inlined
    (`fp.seekable() or isinstance(fp, (RawIOBase, BufferedIOBase[, TextIOBase])) and (opener is None or url is None)`) -/
def plan (v : Variant) (m : Mode) (b : BaseClass) (ch : Chan) : Plan :=
  if !isDefused m b then .noDefuse
  else if ch.seekable || (wrappable v ch.io && (!ch.hasOpener || !ch.hasUrl)) then
    if ch.seekable then .rewind
    else if ch.io == .raw then .wrapRaw
    else if ch.io == .buffered then .wrapBuffered
    else .wrapText
  else if ch.hasUrl then .secondOpen
  else .refuse

/-- the plans that go through a replay reader -/
def Plan.wraps : Plan → Bool
  | .wrapRaw | .wrapBuffered | .wrapText => true
  | _ => false

/-- whether the replay reader of a plan keeps what it reads until the first seek() -/
def growOf (v : Variant) : Plan → Bool
  | .wrapRaw => v.growBuf
  | .wrapBuffered => v.growBuf
  | .wrapText => v.growText
  | _ => false

/-! ### DefusableReader over a non-seekable buffered stream -/

/-- `buf` = `_buffer` (the initial buffer; with the C13-F2 repair it grows while `grow`), `rest` = what
    the underlying stream has not delivered yet, `pos` = `_pos`, `grow` = `_growing` (always false on
    the tree without the repair).  The same structure models DefusableTextReader (units = characters). -/
structure Reader where
  buf : List Nat
  rest : List Nat
  pos : Nat
  grow : Bool
  deriving DecidableEq, Repr

/-- `DefusableReader(fp, initial_buffer_size)`: reads `max(size, 8192)` bytes (streams.py:37-47);
    `g` = the class has the growing buffer -/
def Reader.init (g : Bool) (size : Nat) (s : List Nat) : Reader :=
  let b := if size < 8192 then 8192 else size
  { buf := s.take b, rest := s.drop b, pos := 0, grow := g }

/-- `read(size)`; `none` = read to the end (streams.py:113-142).  The underlying buffered stream
    delivers exactly the requested number of bytes unless it ends. -/
def Reader.read (r : Reader) : Option Nat → List Nat × Reader
  | some n =>
    if r.buf.length ≤ r.pos then
      let d := r.rest.take n
      (d, { r with buf := if r.grow then r.buf ++ d else r.buf, rest := r.rest.drop n, pos := r.pos + d.length })
    else
      let b := r.buf.drop r.pos
      if n ≤ b.length then
        let d := b.take n
        (d, { r with pos := r.pos + d.length })
      else
        let chunk := r.rest.take (n - b.length)
        let d := b ++ chunk
        (d, { r with buf := if r.grow then r.buf ++ chunk else r.buf, rest := r.rest.drop (n - b.length),
                     pos := r.pos + d.length })
  | none =>
    if r.buf.length ≤ r.pos then
      (r.rest, { r with buf := if r.grow then r.buf ++ r.rest else r.buf, rest := [], pos := r.pos + r.rest.length })
    else
      let d := r.buf.drop r.pos ++ r.rest
      (d, { r with buf := if r.grow then r.buf ++ r.rest else r.buf, rest := [], pos := r.pos + d.length })

/-- `seek(p)` with whence=0 (streams.py:64-86); `none` = the OSError of the non-seekable
    underlying stream (`fp.seek` is reached).  Any seek ends the growing of the buffer. -/
def Reader.seek (r : Reader) (p : Nat) : Option Reader :=
  if r.buf.length < p then none
  else if r.buf.length < r.pos then none
  else some { r with pos := p, grow := false }

/-- the seek of seeded change C13-3 (`elif pos > self._buffer_size` instead of `self._pos`): the second
    test looks at the target instead of the current position.  NOT the code: kept to show which
    guard the exactness theorem depends on (Props: `seeded_seek_breaks_exactness`). -/
def Reader.seekSeeded (r : Reader) (p : Nat) : Option Reader :=
  if r.buf.length < p then none
  else some { r with pos := p, grow := false }

inductive Op where
  | read (n : Option Nat)
  | seek (p : Nat)
  | tell
  deriving DecidableEq, Repr

inductive Out where
  | data (d : List Nat)
  | at (p : Nat)
  | oserror
  deriving DecidableEq, Repr

/-- run a script of operations; stops at the first error (the caller sees the exception) -/
def Reader.run : List Op → Reader → List Out
  | [], _ => []
  | .read n :: ops, r => let (d, r') := r.read n; .data d :: Reader.run ops r'
  | .tell :: ops, r => .at r.pos :: Reader.run ops r
  | .seek p :: ops, r =>
    match r.seek p with
    | none => [.oserror]
    | some r' => .at p :: Reader.run ops r'

/-- the state after a history of operations; `none` = an OS error occurred on the way -/
def Reader.exec : List Op → Reader → Option Reader
  | [], r => some r
  | .read n :: ops, r => Reader.exec ops (r.read n).2
  | .tell :: ops, r => Reader.exec ops r
  | .seek p :: ops, r =>
    match r.seek p with
    | none => none
    | some r' => Reader.exec ops r'

/-- successive `read(n)` calls, their results concatenated: what a consumer that reads block after
    block (the pulldom scan, the parser) is fed -/
def Reader.readMany : List Nat → Reader → List Nat × Reader
  | [], r => ([], r)
  | n :: ns, r =>
    let (d, r') := r.read (some n)
    let (ds, r'') := Reader.readMany ns r'
    (d ++ ds, r'')

/-- the same script on a plain byte list with a cursor (what a seekable stream does);
    `lim` = how far back a seek may go once the cursor has passed it (`none`: anywhere) -/
def absRun (s : List Nat) : List Op → Nat → List Out
  | [], _ => []
  | .read (some n) :: ops, p => let d := (s.drop p).take n; .data d :: absRun s ops (p + d.length)
  | .read none :: ops, p => let d := s.drop p; .data d :: absRun s ops (p + d.length)
  | .tell :: ops, p => .at p :: absRun s ops p
  | .seek q :: ops, _ => .at q :: absRun s ops q

/-! ### defuse_xml + parse: the outcome for one document -/

inductive Outcome where
  | parsed          -- the document reaches the parser (entities, if any, are expanded)
  | forbidden       -- XMLResourceForbidden
  | oserror         -- XMLResourceOSError (stream cannot be rewound / defused)
  deriving DecidableEq, Repr

/-- `scanEnd` = `_pos` of the wrapper when the scan stops (the scan reads blocks until the first
    start tag has been seen), `bufLen` = length of the buffer at that moment. -/
def outcome (pl : Plan) (mustRefuse : Bool) (scanEnd bufLen : Nat) : Outcome :=
  match pl with
  | .noDefuse => .parsed
  | .rewind => if mustRefuse then .forbidden else .parsed
  | .secondOpen => if mustRefuse then .forbidden else .parsed
  | .wrapRaw                 -- sax.py:57-61 (fix 1d3fb41): io.BufferedReader(fp) is wrapped like any other
                             -- non-seekable buffered stream
  | .wrapBuffered
  | .wrapText =>
    if mustRefuse then .forbidden
    else if bufLen < scanEnd then .oserror else .parsed             -- Reader.seek 0 after the scan
  | .refuse => .oserror

/-! ### how far the scan reads -/

/-- `xml.dom.pulldom.default_bufsize` = 2**14 - 20: `DOMEventStream.getEvent` feeds the parser
    `stream.read(bufsize)` blocks until an event is available -/
def blockSize : Nat := 16364

/-- `DefusableReader.__init__(fp, initial_buffer_size=64 * 1024)` (streams.py:30) -/
def bufferSize : Nat := 65536

/-- the scan of sax.py:78-80 as a reader script: `k` block reads -/
def Reader.readBlocks : Nat → Reader → Reader
  | 0, r => r
  | k + 1, r => Reader.readBlocks k (r.read (some blockSize)).2

/-- number of blocks fed before expat delivers START_ELEMENT: the start tag is complete when its
    closing `>` — the byte at offset `tagEnd - 1` — has been fed -/
def blocksFor (tagEnd : Nat) : Nat := (tagEnd + (blockSize - 1)) / blockSize

/-- `_pos` of the reader when the scan of a clean document stops -/
def scanEndOf (total tagEnd : Nat) : Nat := min total (blocksFor tagEnd * blockSize)

/-- length of the initial buffer -/
def bufLenOf (total : Nat) : Nat := min total bufferSize

/-- length of the buffer when the scan stops: a growing reader has kept everything it read -/
def bufLenAfter (grow : Bool) (total tagEnd : Nat) : Nat :=
  if grow then max (bufLenOf total) (scanEndOf total tagEnd) else bufLenOf total

/-- the outcome for a document of `total` units (bytes; characters on a text stream) whose first
    start tag ends at offset `tagEnd` -/
def outcomeDoc (v : Variant) (pl : Plan) (mustRefuse : Bool) (total tagEnd : Nat) : Outcome :=
  outcome pl mustRefuse (scanEndOf total tagEnd) (bufLenAfter (growOf v pl) total tagEnd)

/-! ### a schema build: every resource that is loaded -/

/-- one XML resource loaded during a build -/
structure Res where
  id : Nat
  base : BaseClass         -- class of its own base URL (xml_resource.py:277-281 looks at the resource's own)
  ch : Chan
  mustRefuse : Bool
  total : Nat
  tagEnd : Nat
  deriving DecidableEq, Repr

/-- how the loader treats a failure of the resource -/
inductive Kind where
  | main      -- the source given to the schema class: every error propagates
  | incl      -- xs:include / xs:redefine / xs:override: `except OSError` → warning (loaders.py:120-146)
  | imp       -- xs:import: `except (OSError, XMLResourceBlocked, XMLResourceForbidden)` → warning (loaders.py:188-201)
  deriving DecidableEq, Repr

/-- first-child / next-sibling encoding of the tree of loaded resources, in document order -/
inductive Forest where
  | nil
  | cons (r : Res) (k : Kind) (children : Forest) (siblings : Forest)
  deriving Repr

inductive Ev where
  | opened (r : Res)       -- XMLResource.open() entered
  | scanned (r : Res)      -- defuse_xml ran on the stream (or on a second stream of the same URL)
  | parsed (r : Res)       -- XMLResourceLoader._parse consumed the stream
  | failed (r : Res) (o : Outcome)
  deriving DecidableEq, Repr

inductive Status where
  | ok
  | raised (o : Outcome)
  deriving DecidableEq, Repr

def resOutcome (v : Variant) (m : Mode) (r : Res) : Outcome :=
  outcomeDoc v (plan v m r.base r.ch) r.mustRefuse r.total r.tagEnd

/-- XMLResource.__init__ → XMLResourceManager → open() → [defuse_xml] → _parse
    (xml_resource.py:216-217, 472-495; xml_loader.py:72-77) -/
def resEvents (v : Variant) (m : Mode) (r : Res) : List Ev :=
  .opened r ::
    ((match plan v m r.base r.ch with
      | .noDefuse => []
      | .refuse => []
      | _ => [.scanned r]) ++
     [if resOutcome v m r = .parsed then .parsed r else .failed r (resOutcome v m r)])

def swallowed : Kind → Outcome → Bool
  | .incl, .oserror => true
  | .imp, .oserror => true
  | .imp, .forbidden => true
  | _, _ => false

/-- the resources are loaded depth-first in document order (schemas.py:408, loaders.py:84-170):
    a resource that was parsed loads its own inclusions/imports inside its constructor; an
    exception leaves the constructor and reaches the handler of the statement that loaded it -/
def build (v : Variant) (m : Mode) : Forest → List Ev × Status
  | .nil => ([], .ok)
  | .cons r k c s =>
    let self : List Ev × Status :=
      if resOutcome v m r = .parsed then (resEvents v m r ++ (build v m c).1, (build v m c).2)
      else (resEvents v m r, .raised (resOutcome v m r))
    match self.2 with
    | .ok => (self.1 ++ (build v m s).1, (build v m s).2)
    | .raised o => if swallowed k o then (self.1 ++ (build v m s).1, (build v m s).2) else (self.1, .raised o)

end XsVerif.Defuse
