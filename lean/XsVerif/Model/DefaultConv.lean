/-
  C05 — the default convention: port of `XMLSchemaConverter.element_decode` (converters/base.py:336-425) and
  `XMLSchemaConverter.element_encode` (converters/base.py:427-494) over the data of
  `XsVerif/Model/Converters.lean`, for `preserve_root=False` (the root wrapper of base.py:393-394, 423-424,
  437-444 is not modelled: `Conv.dec`/`Conv.enc` have no level argument).

  Options modelled: text_key, attr_prefix, cdata_prefix, force_dict, force_list, process_namespaces
  (`useNs` = `_use_namespaces`).  `dict_class`/`list_class` are the built-in ones.

  Plain Lean core, no Mathlib.
-/
import XsVerif.Model.Converters

namespace XsVerif.Conv.Dflt
open XsVerif.Conv

structure Opts where
  textKey : Option String := some "$"
  attrPrefix : Option String := some "@"
  cdataPrefix : Option String := none
  forceDict : Bool := false
  forceList : Bool := false
  useNs : Bool := true
  deriving Repr, Inhabited

/-- `'' if attr_prefix is None else attr_prefix`; `ns_prefix` is this followed by `xmlns` (base.py:163) -/
def pre (o : Opts) : String := o.attrPrefix.getD ""
def nsPrefix (o : Opts) : String := pre o ++ "xmlns"

/-- `get_namespace(qname)`, utils/qnames.py:20-35: `qname[1:].split('}')` must have exactly two parts -/
def nsOf (tag : String) : String :=
  match tag.toList with
  | '{' :: r => if r.count '}' == 1 then String.ofList (r.takeWhile (· != '}')) else ""
  | _ => ""

/-- `text.split(':')[0]` -/
def qprefix (s : String) : String := String.ofList (s.toList.takeWhile (· != ':'))

/-- keep_result_dict, base.py:355-378 -/
def keep (o : Opts) (f : Facts) (hd : Hd) : Bool :=
  if !hd.attrs.isEmpty || (o.forceDict && f.complex) then true
  else if hd.xmlns.isEmpty || !o.useNs then false
  else if hd.xmlns.any (fun x => x.2 == nsOf hd.tag) then true
  else match f.isQName, hd.text with
    | true, some (.atom k s) => k == "s" && hd.xmlns.any (fun x => x.1 == qprefix s)
    | _, _ => false

/-- map_attributes, base.py:233-246 -/
def mapAttrs (o : Opts) (m : Mapper) (hd : Hd) : List (String × J) :=
  match o.attrPrefix with
  | some p => hd.attrs.map fun kv => (p ++ m.mpA kv.1, kv.2)
  | none => []

def orNone (d : List (String × J)) : J := if d.isEmpty then .null else .dict d

/-- the body of the loop of base.py:402-418 for one `(name, value, xsd_child)` of `map_content`;
    `singleish` = `xsd_child is None or has_single_group and xsd_child.is_single()` -/
def put (o : Opts) (rd : List (String × J)) (name : String) (value : J) (singleish : Bool) : List (String × J) :=
  match dictGet? rd name with
  | none =>
      dictSet rd name (if singleish then (if o.forceList then .list [value] else value) else .list [value])
  | some result =>
      match result with
      | .list (r0 :: rs) =>
          if r0.isSeq || !value.isSeq then dictSet rd name (.list (r0 :: rs ++ [value]))   -- result.append(value)
          else dictSet rd name (.list [result, value])
      | _ => dictSet rd name (.list [result, value])     -- not a sequence, or an empty one

/-- map_content (base.py:248-264) feeding the loop: cdata parts are skipped without a cdata_prefix -/
def decStep (o : Opts) (m : Mapper) (f : Facts) (rd : List (String × J)) : Item J → List (String × J)
  | .cdata i v =>
      match o.cdataPrefix with
      | none => rd
      | some p => put o rd (p ++ toString i) v true
  | .child nm s v => put o rd (m.mp nm) v (f.singleGroup && s)

/-- element_decode, base.py:336-425 (level > 0 or preserve_root=False) -/
def dec (o : Opts) (m : Mapper) (f : Facts) (hd : Hd) (its : List (Item J)) : J :=
  let rd0 : List (String × J) :=
    if o.useNs && !hd.xmlns.isEmpty then dictUpdate [] (xmlnsEntries (pre o) hd.xmlns) else []
  let rd1 := if !hd.attrs.isEmpty then dictUpdate rd0 (mapAttrs o m hd) else rd0
  if !f.hasGroup || its.isEmpty then
    if keep o f hd then
      let rd2 := dictUpdate rd1 (mapAttrs o m hd)
      let rd3 := match hd.text, o.textKey with
        | some t, some k => dictSet rd2 k t
        | _, _ => rd2
      orNone rd3
    else match hd.text with
      | some t => t
      | none => .null
  else
    let rd2 := if !hd.attrs.isEmpty then dictUpdate rd1 (mapAttrs o m hd) else rd1
    orNone (its.foldl (decStep o m f) rd2)

/-! ### element_encode -/

def isDigitStr (s : String) : Bool := !s.toList.isEmpty && s.toList.all Char.isDigit
/-- `int(index)` for a string of decimal digits -/
def digitsVal (s : String) : Nat := s.toList.foldl (fun n c => n * 10 + (c.toNat - 48)) 0

inductive KeyClass where
  | text | cdata (i : Nat) | xmlns | attr (name : String) | other
  deriving Repr, DecidableEq

/-- `name.startswith(cdata_prefix) and (index := name[len(cdata_prefix):]).isdigit()` → `int(index)` -/
def cdataIndex (o : Opts) (name : String) : Option Nat :=
  match o.cdataPrefix with
  | some p => if hasPrefix p name && isDigitStr (dropN p.length name) then some (digitsVal (dropN p.length name)) else none
  | none => none

/-- is_xmlns, base.py:300-303 (the same test selects the declarations in get_xmlns_from_data) -/
def xmlnsLike (o : Opts) (name : String) : Bool := name == nsPrefix o || hasPrefix (nsPrefix o ++ ":") name

/-- `self.attr_prefix and name.startswith(self.attr_prefix) and (attr_name := name[len(self.attr_prefix):])` -/
def attrName (o : Opts) (name : String) : Option String :=
  match o.attrPrefix with
  | some p => if p != "" && hasPrefix p name && dropN p.length name != "" then some (dropN p.length name) else none
  | none => none

/-- the chain of tests of base.py:463-476 on one key of the dictionary -/
def classify (o : Opts) (name : String) : KeyClass :=
  if o.textKey == some name then .text
  else match cdataIndex o name with
    | some i => .cdata i
    | none =>
      if xmlnsLike o name then .xmlns
      else match attrName o name with
        | some a => .attr a
        | none => .other

/-- get_xmlns_from_data, base.py:321-334 (declarations whose value is not a string are not representable
    in `Hd.xmlns`; the harness does not send them) -/
def xmlnsOfKv (o : Opts) (kv : String × J) : Option (String × String) :=
  match kv.2 with
  | .atom _ v =>
    if kv.1 == nsPrefix o then some ("", v)
    else if hasPrefix (nsPrefix o ++ ":") kv.1 then some (dropN ((nsPrefix o).length + 1) kv.1, v) else none
  | _ => none

def xmlnsOf (o : Opts) (kvs : List (String × J)) : List (String × String) :=
  if o.useNs then kvs.filterMap (xmlnsOfKv o) else []

structure Acc where
  text : Option J := none
  content : List (Item J) := []
  attrs : List (String × J) := []
  deriving Inhabited

def kidsOf (nm : String) (vs : List J) : List (Item J) := vs.map fun v => .child nm false v

/-- `get_xmlns_from_data(item)` for a child value: the declarations of a mapping, nothing otherwise -/
def xmlnsOfJ (o : Opts) : J → List (String × String)
  | .dict kvs => xmlnsOf o kvs
  | _ => []

/-- one child per item, each named by the key un-mapped with the declarations that the item carries
    (base.py:478-481, the loop `for item in value`) -/
def kidsX (o : Opts) (m : Mapper) (name : String) (vs : List J) : List (Item J) :=
  vs.map fun v => .child (m.umX (xmlnsOfJ o v) name) false v

/-- the last three branches of base.py:475-495: a value that is not a non-empty sequence is one child, named
    by the key un-mapped with the value's own declarations; a list with at least one mapping/sequence among its
    items is one child per item, each item resolving the key with its own declarations; a list of anything else
    is one child per item unless the declared child has a list type (or, with `attr_prefix=''`, the name is an
    attribute), the key un-mapped in the element's context -/
def putValue (o : Opts) (m : Mapper) (f : Facts) (a : Acc) (name : String) (value : J) : Acc :=
  let nm := m.um name
  let items : Option (List J) := match value with
    | .list (v0 :: vs) => some (v0 :: vs)
    | .elem _ _ _ (k0 :: ks) _ _ => some (k0 :: ks)
    | _ => none
  match items with
  | none => { a with content := a.content ++ [.child (m.umX (xmlnsOfJ o value) name) false value] }
  | some (v0 :: vs) =>
    if (v0 :: vs).any (fun v => v.isMap || v.isSeq) then { a with content := a.content ++ kidsX o m name (v0 :: vs) }
    else match findChild f nm with
      | some ch =>
        if ch.isList then { a with content := a.content ++ [.child nm false value] }
        else { a with content := a.content ++ kidsOf nm (v0 :: vs) }
      | none =>
        if o.attrPrefix == some "" && f.attrs.contains nm then { a with attrs := dictSet a.attrs nm value }
        else { a with content := a.content ++ kidsOf nm (v0 :: vs) }
  | some [] => a

/-- one turn of the loop of base.py:463-492 -/
def encStep (o : Opts) (m : Mapper) (f : Facts) (a : Acc) (kv : String × J) : Acc :=
  match classify o kv.1 with
  | .text => { a with text := if kv.2.isNull then none else some kv.2 }    -- `None` is `Hd.text = none`
  | .cdata i => { a with content := a.content ++ [.cdata i kv.2] }
  | .xmlns => a
  | .attr an => { a with attrs := dictSet a.attrs (m.umA an) kv.2 }
  | .other => putValue o m f a kv.1 kv.2

/-- element_encode, base.py:427-494 (level > 0 or preserve_root=False).  When the data is not a mapping and
    the type is neither simple nor mixed-with-a-string, `ElementData.content` is the raw object
    (base.py:452): `None` and `[]` mean "no content", anything else is not a list of pairs and is outside
    this model's `ElementData` (`Err.rawContent`; XsdGroup.raw_encode deals with it, groups.py:1132-1139). -/
def enc (o : Opts) (m : Mapper) (f : Facts) (name : String) (obj : J) : Except Err (Hd × List (Item J)) :=
  match obj with
  | .dict kvs =>
    let a := kvs.foldl (encStep o m f) {}
    .ok ({ tag := name, text := a.text, attrs := a.attrs, xmlns := xmlnsOf o kvs }, a.content)
  | _ =>
    if f.simple then .ok ({ tag := name, text := if obj.isNull then none else some obj, attrs := [], xmlns := [] }, [])
    else if f.mixed && obj.isStr then .ok ({ tag := name, text := none, attrs := [], xmlns := [] }, [.cdata 1 obj])
    else match obj with
      | .null => .ok ({ tag := name, text := none, attrs := [], xmlns := [] }, [])
      | .list [] => .ok ({ tag := name, text := none, attrs := [], xmlns := [] }, [])
      | _ => .error .rawContent

def conv (o : Opts) (m : Mapper) : Conv := ⟨dec o m, enc o m⟩

end XsVerif.Conv.Dflt
