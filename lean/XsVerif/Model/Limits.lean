/-
  Model for property C11: resource limits while parsing, limit setters, exception classification
  and handler coverage.

  (a) `XMLResourceLoader._parse` / `_lazy_iterparse` (xmlschema/resources/xml_loader.py:220-329):
      the loops over iterparse events with the two counters `remaining_levels`,
      `remaining_elements` — ported literally (Python ints → `Int`, the counters do go negative).
  (b) `LimitsModule.__setattr__` (xmlschema/limits.py:20-43).
  (c) classification of an exception class by its MRO (exceptions.py:13-76): library error iff
      `XMLSchemaException` is among its bases.
  (d) handler coverage: a `try … except (A, B)` site covers a raised class iff one of the listed
      classes is in the MRO of the raised class (Python `except` semantics).

  No Mathlib import: linked into the native driver `drv_c11`.
-/
namespace XsVerif.Limits

/-! ### (a) parse folds -/

/-- iterparse events that matter for the counters; everything else (start-ns, end-ns, comment,
    pi) is `other`. -/
inductive Ev where
  | start | stop | other
  deriving DecidableEq, Repr, Inhabited

inductive ParseRes where
  | ok
  /-- `XMLResourceExceeded("maximum XML depth reached …")` -/
  | depthExceeded
  /-- `XMLResourceExceeded("maximum XML elements reached …")` -/
  | elementsExceeded
  deriving DecidableEq, Repr, Inhabited

/-- `_parse` (xml_loader.py:285-329) as it is now: on 'start' both counters are decremented, the
    depth test comes first, a counter *below* zero refuses; on 'end' the level is given back. -/
def eagerGo : List Ev → Int → Int → ParseRes
  | [], _, _ => .ok
  | .start :: k, l, e =>
      if l - 1 < 0 then .depthExceeded
      else if e - 1 < 0 then .elementsExceeded
      else eagerGo k (l - 1) (e - 1)
  | .stop :: k, l, e => eagerGo k (l + 1) e
  | .other :: k, l, e => eagerGo k l e

/-- `_lazy_iterparse` (xml_loader.py:220-283): only the depth counter exists. -/
def lazyGo : List Ev → Int → ParseRes
  | [], _ => .ok
  | .start :: k, l => if l - 1 < 0 then .depthExceeded else lazyGo k (l - 1)
  | .stop :: k, l => lazyGo k (l + 1)
  | .other :: k, l => lazyGo k l

def eagerParse (maxDepth maxElements : Nat) (evs : List Ev) : ParseRes :=
  eagerGo evs maxDepth maxElements

def lazyParse (maxDepth : Nat) (evs : List Ev) : ParseRes := lazyGo evs maxDepth

/-- the loop before commit 478fd1c: `if not remaining_levels:` / `if not remaining_elements:`
    (a counter that *reaches* zero refuses).  Kept as the record of repaired defect C11-F1. -/
def eagerGoPinned : List Ev → Int → Int → ParseRes
  | [], _, _ => .ok
  | .start :: k, l, e =>
      if l - 1 = 0 then .depthExceeded
      else if e - 1 = 0 then .elementsExceeded
      else eagerGoPinned k (l - 1) (e - 1)
  | .stop :: k, l, e => eagerGoPinned k (l + 1) e
  | .other :: k, l, e => eagerGoPinned k l e

/-- A document as a forest in first-child / next-sibling form: `cons children siblings`.
    (A well-formed document is `cons j c (nil j')`.)  `junk` stands for the namespace / comment / pi
    events that may precede an element. -/
inductive Forest where
  | nil (junk : Nat)
  | cons (junk : Nat) (children : Forest) (siblings : Forest)
  deriving Repr, Inhabited

def Forest.events : Forest → List Ev
  | .nil j => List.replicate j Ev.other
  | .cons j c s => List.replicate j Ev.other ++ (Ev.start :: (c.events ++ (Ev.stop :: s.events)))

/-- nesting depth: number of elements on the longest root-to-leaf path -/
def Forest.depth : Forest → Nat
  | .nil _ => 0
  | .cons _ c s => max (c.depth + 1) s.depth

/-- number of elements -/
def Forest.size : Forest → Nat
  | .nil _ => 0
  | .cons _ c s => c.size + 1 + s.size

/-! ### (e) interpreter frames of the recursive descent (finding C11-F2)

  `XsdElement.raw_decode` (elements.py:603) calls `content_decoder.raw_decode` = `XsdGroup.raw_decode`
  (groups.py:940), which calls `xsd_element.raw_decode` for every child: two interpreter frames per
  element level (the same for raw_encode; measured by the harness for every entry point and
  converter at two recursion limits on every run).  `tail` stands for the frames that the innermost
  level needs below itself (attributes, simple values, converter, error construction). -/

def framesPerLevel : Nat := 2

/-- does the descent over a forest fit into `free` interpreter frames?  A forest of children is
    decoded by ONE group frame whose cost is charged to the element that owns it, so: an element
    needs `framesPerLevel` frames before its children are visited with what is left, its siblings
    are visited with the same budget as itself; the innermost group needs `tail` more frames. -/
def descendFits (tail : Nat) : Forest → Int → Bool
  | .nil _, free => decide ((tail : Int) ≤ free)
  | .cons _ c s, free =>
      if free - (framesPerLevel : Int) < 0 then false
      else descendFits tail c (free - framesPerLevel) && descendFits tail s free

/-- outcome of validating / decoding a fully loaded document: the parse loop first (limits), then the
    recursive descent.  `guarded`: the descent translates RecursionError into XMLResourceExceeded
    (`Generated.C11.recursionGuard`, read from the AST of XsdElement.raw_decode). -/
def processExc (guarded : Bool) (L E : Nat) (free : Int) (tail : Nat) (f : Forest) : Option String :=
  match eagerParse L E f.events with
  | .depthExceeded | .elementsExceeded => some "XMLResourceExceeded"
  | .ok =>
    if descendFits tail f free then none
    else if guarded then some "XMLResourceExceeded" else some "RecursionError"

/-! ### (b) limit setters -/

inductive Limit where
  | modelDepth | schemaSources | xmlDepth | xmlElements
  deriving DecidableEq, Repr, Inhabited

structure Limits where
  modelDepth : Int
  schemaSources : Int
  xmlDepth : Int
  xmlElements : Int
  deriving DecidableEq, Repr, Inhabited

inductive SetRes where
  | ok (l : Limits)
  /-- `XMLSchemaTypeError` (value is not an int) -/
  | typeError
  /-- `XMLSchemaValueError` (below the minimum) -/
  | valueError
  deriving DecidableEq, Repr

def Limits.get (l : Limits) : Limit → Int
  | .modelDepth => l.modelDepth
  | .schemaSources => l.schemaSources
  | .xmlDepth => l.xmlDepth
  | .xmlElements => l.xmlElements

def Limits.put (l : Limits) (a : Limit) (v : Int) : Limits :=
  match a with
  | .modelDepth => { l with modelDepth := v }
  | .schemaSources => { l with schemaSources := v }
  | .xmlDepth => { l with xmlDepth := v }
  | .xmlElements => { l with xmlElements := v }

/-- the minimum written in limits.py for each attribute (5, 10, 1, 1) -/
def minOf : Limit → Int
  | .modelDepth => 5
  | .schemaSources => 10
  | .xmlDepth => 1
  | .xmlElements => 1

/-- `LimitsModule.__setattr__`; `value = none` stands for a value that is not an `int`. -/
def setLimit (l : Limits) (a : Limit) (value : Option Int) : SetRes :=
  match value with
  | none => .typeError
  | some v => if v < minOf a then .valueError else .ok (l.put a v)

def defaults : Limits := ⟨15, 1000, 1000, 1000000⟩

/-- a sequence of assignments; failed ones leave the limits unchanged (the exception is raised
    before `setattr`). -/
def applyAll (l : Limits) : List (Limit × Option Int) → Limits
  | [] => l
  | (a, v) :: k =>
    match setLimit l a v with
    | .ok l' => applyAll l' k
    | _ => applyAll l k

/-! ### (c), (d) exception classes -/

/-- an exception class: its name and the names of the classes of its MRO (itself included) -/
structure Exc where
  name : String
  mro : List String
  deriving Repr, Inhabited, DecidableEq

def libraryRoot : String := "XMLSchemaException"

inductive Outcome where
  | verdict        -- the call returned
  | libraryError   -- raised an exception of the library's hierarchy
  | foreign        -- raised anything else
  deriving DecidableEq, Repr

def isLibrary (c : Exc) : Bool := c.mro.contains libraryRoot

def classify : Option Exc → Outcome
  | none => .verdict
  | some c => if isLibrary c then .libraryError else .foreign

/-- `except (h1, h2, …)` catches an instance of `c` iff some `hi` is in the MRO of `c` -/
def catches (handlers : List String) (c : Exc) : Bool := handlers.any (c.mro.contains ·)

/-- a conversion site: the classes its handlers list -/
structure Site where
  name : String
  handlers : List String
  deriving Repr, Inhabited, DecidableEq

/-- what `parse` raises, as a class name -/
def ParseRes.excName : ParseRes → Option String
  | .ok => none
  | .depthExceeded => some "XMLResourceExceeded"
  | .elementsExceeded => some "XMLResourceExceeded"

end XsVerif.Limits
