/-
  C15, layers S and O: Unique Particle Attribution as a property of the *attributed* language of a
  content model, and its executable oracle.

  * generic part (namespace `XsVerif.Rx`): for an arbitrary leaf type `L`, symbol type `σ`, matcher
    `m`, finite symbol list `syms` and competition relation `cmp` on symbols
      - `Upa`        S: no prefix `u` after which two competing symbols can both continue a word,
      - `inhabited`  O: is there a word over `syms` in the language (proved: `inhabited_iff`),
      - `norm`       O: language-preserving normal form of derivatives (flatten / de-duplicate `alt`,
                        drop syntactically empty branches and `eps` factors; proved: `norm_iff`),
      - `certOk`     O: executable check that a finite set of states is closed under normalised
                        derivatives and conflict free  (proved: `certOk_sound`),
      - `witnessOk`  O: executable re-evaluation of a conflict witness (proved: `witnessOk_sound`),
      - `explore` / `upaCheck`: fuel-bounded breadth-first exploration; its answers are validated by
                        `certOk` / `witnessOk`, fuel exhaustion is the distinct answer `unknown`.
  * content-model instance (namespace `XsVerif.CM`): symbols are *attributed names* `QN × Nat`
    (child name, id of the particle it is attributed to), the marked matcher `mm`, the symbols
    `symsOf Σ p` over a finite alphabet Σ of names, and `compete` (XSD 1.0: any two different
    particles; XSD 1.1: two different particles of the same kind, because an element particle that
    competes with a wildcard takes precedence).
  * `edcCheck`: executable Element Declarations Consistent over opaque type ids.
  No Mathlib import.
-/
import XsVerif.Model.Particle

namespace XsVerif.Rx
variable {L σ : Type}

/-! ### S -/

/-- every symbol of `w` is one of `syms` -/
def Over (syms : List σ) (w : List σ) : Prop := ∀ c ∈ w, c ∈ syms

/-- two competing symbols can both start a word of `K` -/
def Conf (syms : List σ) (cmp : σ → σ → Bool) (K : List σ → Prop) : Prop :=
  ∃ c1 ∈ syms, ∃ c2 ∈ syms, cmp c1 c2 = true ∧
    ∃ v1 v2, Over syms v1 ∧ Over syms v2 ∧ K (c1 :: v1) ∧ K (c2 :: v2)

/-- S: after no prefix `u` (over `syms`) do two competing symbols both continue a word of `r`. -/
def Upa (m : L → σ → Bool) (syms : List σ) (cmp : σ → σ → Bool) (r : Rx L) : Prop :=
  ∀ u, Over syms u → ¬ Conf syms cmp (fun v => Lang m r (u ++ v))

/-! ### O -/

/-- is there a word over `syms` in the language of `r` -/
def inhabited (m : L → σ → Bool) (syms : List σ) : Rx L → Bool
  | .empty => false
  | .eps => true
  | .sym a => syms.any (m a)
  | .cat r s => inhabited m syms r && inhabited m syms s
  | .alt r s => inhabited m syms r || inhabited m syms s
  | .rep r lo hi => loLeHi lo hi && (lo == 0 || inhabited m syms r)
  | .shuffle r s => inhabited m syms r && inhabited m syms s

section norm
variable [DecidableEq L]

/-- the alternatives of a (nested) `alt`, without `empty` -/
def altList : Rx L → List (Rx L)
  | .alt r s => altList r ++ altList s
  | .empty => []
  | .eps => [.eps]
  | .sym a => [.sym a]
  | .cat r s => [.cat r s]
  | .rep r lo hi => [.rep r lo hi]
  | .shuffle r s => [.shuffle r s]

def mkAlt : List (Rx L) → Rx L
  | [] => .empty
  | [x] => x
  | x :: y :: xs => .alt x (mkAlt (y :: xs))

/-- remove repeated entries (keeps the first) -/
def dedup : List (Rx L) → List (Rx L)
  | [] => []
  | x :: xs => x :: (dedup xs).filter (fun y => decide (y ≠ x))

/-- language-preserving normal form used for the states of the exploration -/
def norm : Rx L → Rx L
  | .alt r s => mkAlt (dedup (altList (norm r) ++ altList (norm s)))
  | .cat r s =>
      let r' := norm r
      if isEmpty r' || isEmpty s then .empty else if r' = .eps then s else .cat r' s
  | .shuffle r s =>
      let r' := norm r
      let s' := norm s
      if isEmpty r' || isEmpty s' then .empty
      else if r' = .eps then s' else if s' = .eps then r' else .shuffle r' s'
  | .empty => .empty
  | .eps => .eps
  | .sym a => .sym a
  | .rep r lo hi => .rep r lo hi

/-- one transition of the derivative automaton -/
def step (m : L → σ → Bool) (c : σ) (r : Rx L) : Rx L := norm (deriv m c r)

def steps (m : L → σ → Bool) : Rx L → List σ → Rx L
  | r, [] => r
  | r, c :: w => steps m (step m c r) w

variable [DecidableEq σ]

/-- no two competing symbols are both live in state `r` -/
def noConflict (m : L → σ → Bool) (syms : List σ) (cmp : σ → σ → Bool) (r : Rx L) : Bool :=
  syms.all fun c1 => syms.all fun c2 =>
    !(cmp c1 c2 && inhabited m syms (step m c1 r) && inhabited m syms (step m c2 r))

/-- every live successor of `r` is in `S` -/
def closedAt (m : L → σ → Bool) (syms : List σ) (S : List (Rx L)) (r : Rx L) : Bool :=
  syms.all fun c => !inhabited m syms (step m c r) || S.contains (step m c r)

/-- O: `S` is a certificate of determinism for `r0`. -/
def certOk (m : L → σ → Bool) (syms : List σ) (cmp : σ → σ → Bool) (r0 : Rx L) (S : List (Rx L)) : Bool :=
  S.contains r0 && S.all fun r => noConflict m syms cmp r && closedAt m syms S r

/-- O: `(u, c1, c2)` is a conflict of `r0`: re-evaluated with derivatives. -/
def witnessOk (m : L → σ → Bool) (syms : List σ) (cmp : σ → σ → Bool) (r0 : Rx L)
    (u : List σ) (c1 c2 : σ) : Bool :=
  u.all (syms.contains ·) && syms.contains c1 && syms.contains c2 && cmp c1 c2 &&
    inhabited m syms (step m c1 (steps m r0 u)) && inhabited m syms (step m c2 (steps m r0 u))

inductive UpaRes (L σ : Type) where
  | cert (S : List (Rx L))
  | witness (u : List σ) (c1 c2 : σ)
  | unknown
  deriving Repr, Inhabited

/-- first conflicting pair of live symbols in state `r` -/
def conflictAt (m : L → σ → Bool) (syms : List σ) (cmp : σ → σ → Bool) (r : Rx L) : Option (σ × σ) :=
  let live := syms.filter fun c => inhabited m syms (step m c r)
  live.findSome? fun c1 => (live.find? fun c2 => cmp c1 c2).map fun c2 => (c1, c2)

/-- breadth-first exploration of the live normalised derivatives; `todo` carries the (reversed)
    word that reaches each state.  Not trusted: its answers are validated by `upaCheck`. -/
def explore (m : L → σ → Bool) (syms : List σ) (cmp : σ → σ → Bool) :
    Nat → List (List σ × Rx L) → List (Rx L) → UpaRes L σ
  | 0, _, _ => .unknown
  | _ + 1, [], seen => .cert seen
  | fuel + 1, (u, r) :: rest, seen =>
    match conflictAt m syms cmp r with
    | some (c1, c2) => .witness u.reverse c1 c2
    | none =>
      let succs := (syms.map fun c => (c, step m c r)).filter fun x => inhabited m syms x.2
      let ts := succs.foldl (fun (ts : List (List σ × Rx L) × List (Rx L)) x =>
        if ts.2.contains x.2 then ts else (ts.1 ++ [(x.1 :: u, x.2)], x.2 :: ts.2)) (rest, seen)
      explore m syms cmp fuel ts.1 ts.2

/-- O: decide `Upa` within `fuel` states; every answer other than `unknown` is validated. -/
def upaCheck (m : L → σ → Bool) (syms : List σ) (cmp : σ → σ → Bool) (r0 : Rx L) (fuel : Nat) : UpaRes L σ :=
  match explore m syms cmp fuel [([], r0)] [r0] with
  | .cert S => if certOk m syms cmp r0 S then .cert S else .unknown
  | .witness u c1 c2 => if witnessOk m syms cmp r0 u c1 c2 then .witness u c1 c2 else .unknown
  | .unknown => .unknown

end norm

/-- the leaves of an expression -/
def leaves : Rx L → List L
  | .empty => []
  | .eps => []
  | .sym a => [a]
  | .cat r s => leaves r ++ leaves s
  | .alt r s => leaves r ++ leaves s
  | .rep r _ _ => leaves r
  | .shuffle r s => leaves r ++ leaves s

end XsVerif.Rx

namespace XsVerif.CM
open XsVerif.Wildcard

/-- attributed symbol: child name and the id of the particle it is attributed to -/
abbrev ASym := QN × Nat

/-- marked matcher: the leaf with this id matches this name -/
def mm (l : Leaf) (c : ASym) : Bool := l.id == c.2 && l.matches c.1

def Leaf.isAny : Leaf → Bool | .any _ _ => true | .elem _ _ => false

mutual
def Particle.leaves : Particle → List Leaf
  | .leaf l _ _ => [l]
  | .group _ _ _ _ ps => ps.leaves
def Particles.leaves : Particles → List Leaf
  | .nil => []
  | .cons p ps => p.leaves ++ ps.leaves
end

/-- the attributed symbols over the alphabet `sigma`: `(a, x)` with `x` the id of a leaf that matches `a` -/
def symsOf (sigma : List QN) (p : Particle) : List ASym :=
  sigma.flatMap fun a => (p.leaves.filter fun l => l.matches a).map fun l => (a, l.id)

def isAnyId (p : Particle) (x : Nat) : Bool := p.leaves.any fun l => l.id == x && l.isAny

/-- may the particles `x` and `y` not both be candidates for one child?  XSD 1.0: any two different
    particles compete; XSD 1.1: an element particle takes precedence over a wildcard, so only
    particles of the same kind compete. -/
def competing (v11 : Bool) (p : Particle) (x y : Nat) : Bool :=
  x != y && (!v11 || isAnyId p x == isAnyId p y)

def compete (v11 : Bool) (p : Particle) (c1 c2 : ASym) : Bool :=
  c1.1 == c2.1 && competing v11 p c1.2 c2.2

/-- O: the UPA oracle of a content model over the alphabet `sigma`. -/
def upaOracle (sigma : List QN) (v11 : Bool) (p : Particle) (fuel : Nat) : Rx.UpaRes Leaf ASym :=
  Rx.upaCheck mm (symsOf sigma p) (compete v11 p) p.toRx fuel

/-! ### Element Declarations Consistent -/

/-- the element names a particle can (implicitly, through substitution groups) contain, each with
    the opaque id of the type of the declaration with that name; supplied by the harness from the
    built schema, keyed by leaf id -/
abbrev TypeTable := List (Nat × List (QN × Nat))

def TypeTable.decls (T : TypeTable) (i : Nat) : List (QN × Nat) :=
  match T.find? (·.1 == i) with | some e => e.2 | none => []

mutual
/-- the leaves that are part of the model: a particle with `maxOccurs = 0` (leaf or group, the
    root included) is no particle at all -/
def Particle.liveLeaves : Particle → List Leaf
  | .leaf l _ hi => if hi == some 0 then [] else [l]
  | .group _ _ _ hi ps => if hi == some 0 then [] else ps.liveLeaves
def Particles.liveLeaves : Particles → List Leaf
  | .nil => []
  | .cons p ps => p.liveLeaves ++ ps.liveLeaves
end

/-- all (name, type id) declarations directly or implicitly contained in the model -/
def declsOf (T : TypeTable) (p : Particle) : List (QN × Nat) :=
  p.liveLeaves.flatMap fun l => match l with | .elem i _ => T.decls i | .any _ _ => []

/-- O: same name ⇒ same type, over all pairs -/
def edcCheck (T : TypeTable) (p : Particle) : Bool :=
  let ds := declsOf T p
  ds.all fun d1 => ds.all fun d2 => d1.1 != d2.1 || d1.2 == d2.2

end XsVerif.CM
