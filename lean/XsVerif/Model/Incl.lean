/-
  Language inclusion of counted regular expressions (C14, layer O).

  `inclDecide m Σ fuel d b` explores pairs (derivative of d, derivative of b) over the finite
  alphabet `Σ` of representative symbols, breadth first, with normalised derivatives:
    * a pair with `nullable d ∧ ¬ nullable b` yields the word that leads to it (a *witness*);
      it is re-evaluated with `accepts` on both sides before it is returned;
    * if the work list runs dry, the visited set is a *certificate*: it is re-checked by
      `closedB` (every pair satisfies `nullable d → nullable b` and is closed under simultaneous
      normalised derivation by every symbol of Σ) before `included` is returned;
    * fuel exhaustion (or a failed re-check) is `unknown` — counted by the harness, never a verdict.
  Soundness of both answers is proved in `Lemmas/Incl.lean`.   No Mathlib import.
-/
import XsVerif.Model.Rx

namespace XsVerif.Rx
variable {L σ : Type}

/-! ### normalisation of derivatives (keeps the explored state space small and finite) -/

/-- the alternatives of a (nested) `alt` -/
def altList : Rx L → List (Rx L)
  | .alt r s => altList r ++ altList s
  | r => [r]

def ofAltList : List (Rx L) → Rx L
  | [] => .empty
  | [r] => r
  | r :: rs => .alt r (ofAltList rs)

/-- order-preserving removal of duplicates -/
def dedupL [DecidableEq L] : List (Rx L) → List (Rx L)
  | [] => []
  | x :: xs => if xs.contains x then dedupL xs else x :: dedupL xs

def isEps : Rx L → Bool
  | .eps => true
  | _ => false

def mkCat (r s : Rx L) : Rx L :=
  if isEmpty r || isEmpty s then .empty
  else if isEps r then s
  else if isEps s then r
  else .cat r s

def mkShuffle (r s : Rx L) : Rx L :=
  if isEmpty r || isEmpty s then .empty
  else if isEps r then s
  else if isEps s then r
  else .shuffle r s

def mkAlt [DecidableEq L] (r s : Rx L) : Rx L :=
  ofAltList (dedupL ((altList r ++ altList s).filter fun x => !isEmpty x))

/-- language-preserving normal form: empty/ε elimination, flattened duplicate-free alternatives -/
def norm [DecidableEq L] : Rx L → Rx L
  | .cat r s => mkCat (norm r) (norm s)
  | .alt r s => mkAlt (norm r) (norm s)
  | .shuffle r s => mkShuffle (norm r) (norm s)
  | r => r

/-- one normalised derivation step -/
def step [DecidableEq L] (m : L → σ → Bool) (c : σ) (r : Rx L) : Rx L := norm (deriv m c r)

/-! ### exploration -/

inductive InclVerdict (σ : Type) where
  | included
  | witness (w : List σ)
  | unknown
  deriving Repr, DecidableEq

/-- outcome of the raw exploration -/
inductive Explored (L σ : Type) where
  | fuel
  | cex (w : List σ)
  | cert (S : List (Rx L × Rx L))

/-- breadth-first exploration of derivative pairs; `todo` items carry the reversed path. -/
def explore [DecidableEq L] (m : L → σ → Bool) (sig : List σ) :
    Nat → List (List σ × Rx L × Rx L) → List (Rx L × Rx L) → Explored L σ
  | 0, [], seen => .cert seen
  | 0, _ :: _, _ => .fuel
  | _ + 1, [], seen => .cert seen
  | n + 1, (p, d, b) :: todo, seen =>
      if isEmpty d || seen.contains (d, b) then explore m sig n todo seen
      else if nullable d && !nullable b then .cex p.reverse
      else explore m sig n (todo ++ sig.map fun c => (c :: p, step m c d, step m c b)) ((d, b) :: seen)

/-- certificate check: every pair is accepting-compatible and closed under derivation. -/
def closedB [DecidableEq L] (m : L → σ → Bool) (sig : List σ) (S : List (Rx L × Rx L)) : Bool :=
  S.all fun p => (!nullable p.1 || nullable p.2) &&
    sig.all fun c => isEmpty (step m c p.1) || S.contains (step m c p.1, step m c p.2)

/-- O with statistics: the verdict and the number of pairs in the certificate. -/
def inclRun [DecidableEq L] (m : L → σ → Bool) (sig : List σ) (fuel : Nat) (d b : Rx L) :
    InclVerdict σ × Nat :=
  match explore m sig fuel [([], d, b)] [] with
  | .fuel => (.unknown, 0)
  | .cex w => (if accepts m d w && !accepts m b w then .witness w else .unknown, 0)
  | .cert S =>
    (if closedB m sig S && (isEmpty d || S.contains (d, b)) then .included else .unknown, S.length)

/-- O: decision of `L(d) ⊆ L(b)` on words over `sig`, with verified answers. -/
def inclDecide [DecidableEq L] (m : L → σ → Bool) (sig : List σ) (fuel : Nat) (d b : Rx L) :
    InclVerdict σ := (inclRun m sig fuel d b).1

/-- bounded brute-force inclusion on an explicit word list (used by the driver as a cross-check of
    `inclDecide`): first word accepted by `d` and not by `b`. -/
def firstCex (m : L → σ → Bool) (d b : Rx L) (ws : List (List σ)) : Option (List σ) :=
  ws.find? fun w => accepts m d w && !accepts m b w

end XsVerif.Rx
