/-
  Model of dynamic typing, substitution and nil checks:

    xmlschema/validators/complex_types.py  XsdComplexType.is_derived      (646-673)
    xmlschema/validators/simple_types.py   XsdSimpleType.is_derived       (412-440)
    xmlschema/validators/xsdbase.py        XsdType.is_blocked             (843-857)
    xmlschema/validators/xsd_globals.py    get_instance_type              (285-315, without unions)
    xmlschema/validators/elements.py       XsdElement.raw_decode          (597-772, decision part:
                                           xsi:type, abstract, nil, content/fixed)
                                           _parse_substitution_group (359-413), iter_substitutes (550-557)
                                           Xsd11Element.get_alternative_type (1342-1363)
    xmlschema/validators/groups.py         XsdGroup.check_dynamic_context (852-913, block part)

  No Mathlib import: linked into the native driver.

  A type hierarchy is a list of type definitions, a type is its index (object identity in Python;
  the harness numbers the built objects so that a base type precedes its derived types).
  Union member lookup (`isinstance(other, XsdUnion)`) is not modelled: the harness generates no
  unions and refuses to serialise one.
-/
namespace XsVerif.Derivation

inductive Meth where | ext | restr
  deriving DecidableEq, Repr, Inhabited

structure TDef where
  base : Option Nat := none           -- `base_type`
  deriv : Option Meth := none         -- `derivation` ('extension' | 'restriction' | None)
  complex : Bool := true              -- XsdComplexType vs XsdSimpleType
  anyType : Bool := false             -- name == xs:anyType
  anySimple : Bool := false           -- name == xs:anySimpleType
  simpleContent : Bool := false       -- `has_simple_content()` (complex types)
  content : Option Nat := none        -- the simple type that is the content of a simple-content type
  abstract : Bool := false
  block : List Meth := []             -- `block` restricted to extension / restriction
  deriving Repr, Inhabited

abbrev Hier := List TDef

/-- "derivation mode checked" (complex_types.py:648-649). -/
def clearC (d td : Option Meth) : Option Meth := if d.isSome && d == td then none else d

/-- simple_types.py:413-417: `none` = `return False`. -/
def clearS (d td : Option Meth) : Option (Option Meth) :=
  if d.isSome then (if d == td then some none else if td.isSome then none else some d) else some d

/-- `is_derived(other, derivation)` of both classes; dynamic dispatch = the `complex` flag of the
    receiver.  `none` = fuel exhausted or dangling index (never a verdict). -/
def isDerived : Nat → Hier → Nat → Nat → Option Meth → Option Bool
  | 0, _, _, _, _ => none
  | fuel + 1, h, t, u, d =>
    match h[t]?, h[u]? with
    | some T, some U =>
      if T.complex then
        let d := clearC d T.deriv
        if t == u then some true
        else if U.anyType then some (d != some .ext)
        else if T.base == some u then some d.isNone
        else match T.base with
          | none =>
            if !T.simpleContent then some false
            else match T.content with
              | some c => isDerived fuel h c u d
              | none => some false
          | some b =>
            if T.simpleContent then
              match T.content with
              | some c =>
                match isDerived fuel h c u d with
                | some true => some true
                | some false => if b != t then isDerived fuel h b u d else some false
                | none => none
              | none => if b != t then isDerived fuel h b u d else some false
            else isDerived fuel h b u d
      else
        match clearS d T.deriv with
        | none => some false
        | some d =>
          if t == u then some true
          else if U.anyType || U.anySimple then some (d != some .ext)
          else if T.base == some u then some true
          else match T.base with
            | none => some false
            | some b =>
              match h[b]? with
              | some B =>
                if B.complex then
                  (if !B.simpleContent then some false
                   else match B.content with
                     | some c => isDerived fuel h c u d
                     | none => none)
                else isDerived fuel h b u d
              | none => none
    | _, _ => none

/-- An element declaration as far as these checks are concerned. -/
structure EDecl where
  ty : Nat
  block : List Meth := []             -- element `block` restricted to extension / restriction
  blockSubst : Bool := false          -- 'substitution' in block
  abstract : Bool := false
  nillable : Bool := false
  fixed : Bool := false               -- `fixed is not None`
  subst : Option Nat := none          -- index of the head element (`substitutionGroup`)
  deriving Repr, Inhabited

/-- `XsdType.is_blocked(xsd_element)` (xsdbase.py:843-857) with the block sets already split. -/
def isBlocked (fuel : Nat) (h : Hier) (t : Nat) (eBlock : List Meth) (declTy : Nat) : Option Bool :=
  if t == declTy then some false
  else match h[declTy]? with
    | none => none
    | some D =>
      let blk := eBlock ++ D.block
      blk.foldr (fun m acc =>
        match isDerived fuel h t declTy (some m), acc with
        | some true, _ => some true
        | some false, a => a
        | none, _ => none) (some false)

inductive Err where
  | unknownType          -- KeyError from maps.types
  | notDerived           -- "cannot substitute"
  | blocked              -- "usage of ... is blocked"
  | abstractType         -- "... is abstract"
  | notNillable
  | nilNotBoolean
  | nilFixed
  | nilNotEmpty
  | content              -- content not valid for the governing type
  | fixedValue           -- "must have the fixed value"
  | fuel                 -- model could not decide (never compared as a verdict)
  deriving DecidableEq, Repr, Inhabited

/-- `xsi:type`: absent, names no global type, or names type `t`. -/
inductive XsiAttr where | absent | unknown | named (t : Nat)
  deriving DecidableEq, Repr, Inhabited

structure Inst where
  xsi : XsiAttr := .absent
  nil : Option String := none         -- stripped value of xsi:nil
  hasText : Bool := false             -- `obj.text is not None`
  hasChildren : Bool := false         -- `len(obj) > 0`
  variant : Nat := 0                  -- index of the content variant (for `contentOk` / `fixedOk`)
  deriving Repr, Inhabited

/-- content validity and fixed-value agreement per (governing type, content variant): parameters. -/
structure CSem where
  contentOk : Nat → Nat → Bool
  fixedOk : Nat → Nat → Bool          -- value-space comparison with the declared fixed value

/-- xsi:type part of `raw_decode` (elements.py:659-684): errors and the governing type. -/
def xsiStep (fuel : Nat) (h : Hier) (e : EDecl) (declTy : Nat) (x : XsiAttr) : List Err × Nat :=
  match x with
  | .absent => ([], declTy)
  | .unknown => ([.unknownType], declTy)
  | .named t =>
    match isDerived fuel h t declTy none with
    | none => ([.fuel], declTy)
    | some false => ([.notDerived], declTy)
    | some true =>
      match isBlocked fuel h t e.block e.ty with
      | none => ([.fuel], t)
      | some true => ([.blocked], t)
      | some false => ([], t)

/-- xsi:nil part (elements.py:710-727): errors and the `nilled` flag. -/
def nilStep (e : EDecl) (i : Inst) : List Err × Bool :=
  match i.nil with
  | none => ([], false)
  | some v =>
    if !e.nillable then ([.notNillable], false)
    else if !(v == "0" || v == "1" || v == "false" || v == "true") then ([.nilNotBoolean], false)
    else if v == "0" || v == "false" then ([], false)
    else if e.fixed then ([.nilFixed], false)
    else if i.hasText || i.hasChildren then ([.nilNotEmpty], false)
    else ([], true)

/-- Decision part of `XsdElement.raw_decode` for a non-abstract element whose declared type (after
    type alternatives) is `declTy`. -/
def elementErrs (fuel : Nat) (h : Hier) (cs : CSem) (e : EDecl) (declTy : Nat) (i : Inst) : List Err :=
  let (xe, gov) := xsiStep fuel h e declTy i.xsi
  let ae := match h[gov]? with
    | some G => if G.abstract then [Err.abstractType] else []
    | none => [Err.fuel]
  let (ne, nilled) := nilStep e i
  let ce := if nilled then []
    else (if cs.contentOk gov i.variant then [] else [Err.content]) ++
         (if e.fixed && !cs.fixedOk gov i.variant then [Err.fixedValue] else [])
  xe ++ ae ++ ne ++ ce

/-- XSD 1.1 type alternatives (elements.py:1357-1363): `alts` = (has a test?, test result, type). -/
def selectAlt (alts : List (Bool × Bool × Nat)) (dflt : Nat) : Nat :=
  match alts with
  | [] => dflt
  | (hasTest, res, ty) :: rest => if !hasTest || res then ty else selectAlt rest dflt

/-! ### substitution groups -/

/-- Is `m` registered (transitively) as a substitute of `head`?  `_parse_substitution_group`
    registers a member unless its head blocks substitution; `iter_substitutes` closes transitively.
    Walks the `substitutionGroup` links upwards from the member. -/
def reaches : Nat → List EDecl → Nat → Nat → Option Bool
  | 0, _, _, _ => none
  | fuel + 1, es, m, head =>
    match es[m]? with
    | none => none
    | some M =>
      match M.subst with
      | none => some false
      | some p =>
        match es[p]? with
        | none => none
        | some P =>
          if P.blockSubst then some false
          else if p == head then some true
          else reaches fuel es p head

inductive SubstVerdict where
  | accepted | notSubstitute | blocked | fuel
  deriving DecidableEq, Repr, Inhabited

/-- A child named as global element `m` where the content model expects `head` (m ≠ head):
    `match` via `substitutes` (non-abstract registered members) and the block part of
    `check_dynamic_context` (groups.py:857-862, 897-905 without xsi:type). -/
def substVerdict (fuel : Nat) (h : Hier) (es : List EDecl) (head m : Nat) : SubstVerdict :=
  match es[head]?, es[m]? with
  | some H, some M =>
    match reaches fuel es m head with
    | none => .fuel
    | some false => .notSubstitute
    | some true =>
      if M.abstract then .notSubstitute
      else if H.blockSubst then .blocked
      else match isBlocked fuel h M.ty H.block H.ty with
        | none => .fuel
        | some true => .blocked
        | some false => .accepted
  | _, _ => .fuel

end XsVerif.Derivation
