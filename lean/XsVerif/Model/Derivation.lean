/-
  Model of dynamic typing, substitution and nil checks:

    xmlschema/validators/complex_types.py  XsdComplexType.is_derived      (646-673)
    xmlschema/validators/simple_types.py   XsdSimpleType.is_derived       (412-440)  (atomic types,
                                           restrictions, unions)
                                           XsdList.is_derived             (961-979)
    xmlschema/validators/xsdbase.py        XsdType.is_blocked             (843-857)
    xmlschema/validators/xsd_globals.py    get_instance_type              (285-315, with the union clause)
    xmlschema/validators/elements.py       XsdElement.raw_decode          (597-772, decision part:
                                           xsi:type, abstract, nil, content/fixed)
                                           _parse_substitution_group (359-413), iter_substitutes (550-557)
                                           Xsd11Element.get_alternative_type (1342-1393)
    xmlschema/validators/groups.py         XsdGroup.check_dynamic_context (852-913: substitution block,
                                           xsi:type of a substitute, block of the head on the xsi type)

  No Mathlib import: linked into the native driver.

  A type hierarchy is a list of type definitions, a type is its index (object identity in Python;
  the harness numbers the built objects so that base, content, item and member types precede the
  type that uses them).

  `Quirks` switches the behaviours of the code that are recorded as findings (notes/findings/C07.json):
  a flag that is `true` = the behaviour of the pinned code, `false` = the repaired behaviour
  (notes/fixes/C07-is-derived.patch).  The harness switches on exactly the flags of the findings whose
  status is `known`.
-/
namespace XsVerif.Derivation

inductive Meth where | ext | restr
  deriving DecidableEq, Repr, Inhabited

structure TDef where
  base : Option Nat := none           -- `base_type`
  deriv : Option Meth := none         -- `derivation` ('extension' | 'restriction' | None)
  complex : Bool := true              -- XsdComplexType vs XsdSimpleType
  anyType : Bool := false             -- name == xs:anyType
  anySimple : Bool := false           -- name == xs:anySimpleType
  simpleContent : Bool := false       -- `has_simple_content()` (complex types)
  content : Option Nat := none        -- the simple type that is the content of a simple-content type
  abstract : Bool := false
  block : List Meth := []             -- `block` restricted to extension / restriction
  anyAtomic : Bool := false           -- name == xs:anyAtomicType
  atomicCls : Bool := false           -- isinstance(XsdAtomic): `_special_types` has xs:anyAtomicType
  isList : Bool := false              -- isinstance(XsdList)
  item : Option Nat := none           -- `item_type` of an XsdList
  isUnion : Bool := false             -- isinstance(XsdUnion)
  members : List Nat := []            -- `member_types` of an XsdUnion
  unionLike : Bool := false           -- `is_union()` (a union or a restriction of one)
  facets : Bool := false              -- `bool(facets)`
  primUnion : Option Nat := none      -- XsdAtomicRestriction whose `primitive_type` is an XsdUnion
  deriving Repr, Inhabited

abbrev Hier := List TDef

/-- Behaviours of the pinned code recorded as findings; `true` = as in the pinned code. -/
structure Quirks where
  contentSelf : Bool := false   -- C07-F1: the content type of a simple-content type answers for itself
                                --   with a derivation mode still pending
  listItem : Bool := false      -- C07-F2: a list type is derived from its item type
  unionCut : Bool := false      -- C07-F3: a union target stops the walk up the base types (and list
                                --   receivers have no union branch)
  simpleExt : Bool := false     -- C07-F4: a simple type without `derivation` (builtin, list, union)
                                --   keeps a pending 'extension' and answers True at its base / itself
  anyShort : Bool := false      -- C07-F5: xs:anyType answers a pending mode without walking the chain
  deriving Repr, Inhabited, DecidableEq

def Quirks.repaired : Quirks := {}
def Quirks.pinned : Quirks :=
  { contentSelf := true, listItem := true, unionCut := true, simpleExt := true, anyShort := true }

/-- "derivation mode checked" (complex_types.py:648-649, simple_types.py:965-966). -/
def clearC (d td : Option Meth) : Option Meth := if d.isSome && d == td then none else d

/-- simple_types.py:413-417: `none` = `return False`. -/
def clearS (q : Quirks) (d td : Option Meth) : Option (Option Meth) :=
  if d.isSome then
    (if d == td then some none
     else if td.isSome || (!q.simpleExt && d == some .ext) then none else some d)
  else some d

/-- Python `any(f(m) for m in ms)`; `none` = some call ran out of fuel before a `True`. -/
def anyM (f : Nat → Option Bool) : List Nat → Option Bool
  | [] => some false
  | m :: ms =>
    match f m with
    | some true => some true
    | some false => anyM f ms
    | none => none

/-- `other.name in self._special_types` of the simple variants. -/
def specialS (T U : TDef) : Bool := U.anyType || U.anySimple || (T.atomicCls && U.anyAtomic)

/-- `is_derived(other, derivation)` of the three classes; dynamic dispatch = the `complex` / `isList`
    flags of the receiver.  `none` = fuel exhausted or dangling index (never a verdict). -/
def isDerived (q : Quirks) : Nat → Hier → Nat → Nat → Option Meth → Option Bool
  | 0, _, _, _, _ => none
  | fuel + 1, h, t, u, d =>
    match h[t]?, h[u]? with
    | some T, some U =>
      if T.complex then
        let d := clearC d T.deriv
        let contentPath : Option Bool :=
          match T.content with
          | some c =>
            if !q.contentSelf && d.isSome && c == u then some false else isDerived q fuel h c u d
          | none => some false
        let rest : Option Bool :=
          match T.base with
          | none => if !T.simpleContent then some false else contentPath
          | some b =>
            if T.simpleContent then
              match contentPath with
              | some true => some true
              | some false => if b != t then isDerived q fuel h b u d else some false
              | none => none
            else isDerived q fuel h b u d
        if t == u then some true
        else if U.anyType && (q.anyShort || d.isNone || T.base.isNone) then some (d != some .ext)
        else if T.base == some u then some d.isNone
        else if U.isUnion then
          (if q.unionCut then anyM (fun m => isDerived q fuel h t m d) U.members
           else match anyM (fun m => isDerived q fuel h t m d) U.members with
             | some true => some true
             | some false => rest
             | none => none)
        else rest
      else if T.isList then
        let d := clearC d T.deriv
        if d.isSome && T.deriv.isSome && d != T.deriv then some false
        else if !q.simpleExt && d == some .ext then some false
        else if t == u then some true
        else if U.anyType || U.anySimple then some (d != some .ext)
        else if q.listItem && T.item == some u then some true
        else if !q.unionCut && U.isUnion then anyM (fun m => isDerived q fuel h t m d) U.members
        else some false
      else
        match clearS q d T.deriv with
        | none => some false
        | some d =>
          if t == u then some true
          else if specialS T U then some (d != some .ext)
          else if T.base == some u then some true
          else match T.base with
            | none => if U.isUnion then anyM (fun m => isDerived q fuel h t m d) U.members else some false
            | some b =>
              match h[b]? with
              | some B =>
                if B.complex then
                  (if !B.simpleContent then some false
                   else match B.content with
                     | some c => isDerived q fuel h c u d
                     | none => none)
                else if U.isUnion then
                  (if q.unionCut then anyM (fun m => isDerived q fuel h t m d) U.members
                   else match anyM (fun m => isDerived q fuel h t m d) U.members with
                     | some true => some true
                     | some false => isDerived q fuel h b u d
                     | none => none)
                else isDerived q fuel h b u d
              | none => none
    | _, _ => none

/-- `get_instance_type` (xsd_globals.py:299-315) after the name lookup: may `t` stand for the declared
    type?  Derived, or a direct member of a facet-less union (or of the union that is the primitive
    type of a facet-less restriction). -/
def instType (q : Quirks) (fuel : Nat) (h : Hier) (t declTy : Nat) : Option Bool :=
  match isDerived q fuel h t declTy none with
  | none => none
  | some true => some true
  | some false =>
    match h[declTy]? with
    | none => none
    | some D =>
      if !D.complex && D.unionLike && !D.facets then
        match D.primUnion with
        | some p =>
          (match h[p]? with
           | some P => some (P.members.contains t)
           | none => none)
        | none => if D.isUnion then some (D.members.contains t) else some false
      else some false

/-- An element declaration as far as these checks are concerned. -/
structure EDecl where
  ty : Nat
  block : List Meth := []             -- element `block` restricted to extension / restriction
  blockSubst : Bool := false          -- 'substitution' in block
  abstract : Bool := false
  nillable : Bool := false
  fixed : Bool := false               -- `fixed is not None`
  subst : Option Nat := none          -- index of the head element (`substitutionGroup`)
  deriving Repr, Inhabited

/-- `XsdType.is_blocked(xsd_element)` (xsdbase.py:843-857) with the block sets already split. -/
def isBlocked (q : Quirks) (fuel : Nat) (h : Hier) (t : Nat) (eBlock : List Meth) (declTy : Nat) : Option Bool :=
  if t == declTy then some false
  else match h[declTy]? with
    | none => none
    | some D =>
      -- each schema has its own xs:anyType object: two of them are the same type (fix 79e0e65, C07-F6)
      if D.anyType && (match h[t]? with | some T => T.anyType | none => false) then some false else
      let blk := eBlock ++ D.block
      blk.foldr (fun m acc =>
        match isDerived q fuel h t declTy (some m), acc with
        | some true, _ => some true
        | some false, a => a
        | none, _ => none) (some false)

inductive Err where
  | unknownType          -- KeyError from maps.types
  | notDerived           -- "cannot substitute"
  | blocked              -- "usage of ... is blocked"
  | abstractType         -- "... is abstract"
  | notNillable
  | nilNotBoolean
  | nilFixed
  | nilNotEmpty
  | content              -- content not valid for the governing type
  | fixedValue           -- "must have the fixed value"
  | fuel                 -- model could not decide (never compared as a verdict)
  | substBlocked         -- "substitution of ... is blocked" (groups.py:857-862)
  | headBlocked          -- "usage of ... is blocked by head element" (groups.py:908-915)
  deriving DecidableEq, Repr, Inhabited

/-- `xsi:type`: absent, names no global type, or names type `t`. -/
inductive XsiAttr where | absent | unknown | named (t : Nat)
  deriving DecidableEq, Repr, Inhabited

structure Inst where
  xsi : XsiAttr := .absent
  nil : Option String := none         -- stripped value of xsi:nil
  hasText : Bool := false             -- `obj.text is not None`
  hasChildren : Bool := false         -- `len(obj) > 0`
  variant : Nat := 0                  -- index of the content variant (for `contentOk` / `fixedOk`)
  deriving Repr, Inhabited

/-- content validity and fixed-value agreement per (governing type, content variant): parameters. -/
structure CSem where
  contentOk : Nat → Nat → Bool
  fixedOk : Nat → Nat → Bool          -- value-space comparison with the declared fixed value

/-- xsi:type part of `raw_decode` (elements.py:659-684): errors and the governing type. -/
def xsiStep (q : Quirks) (fuel : Nat) (h : Hier) (e : EDecl) (declTy : Nat) (x : XsiAttr) : List Err × Nat :=
  match x with
  | .absent => ([], declTy)
  | .unknown => ([.unknownType], declTy)
  | .named t =>
    match instType q fuel h t declTy with
    | none => ([.fuel], declTy)
    | some false => ([.notDerived], declTy)
    | some true =>
      match isBlocked q fuel h t e.block e.ty with
      | none => ([.fuel], t)
      | some true => ([.blocked], t)
      | some false => ([], t)

/-- xsi:nil part (elements.py:710-727): errors and the `nilled` flag. -/
def nilStep (e : EDecl) (i : Inst) : List Err × Bool :=
  match i.nil with
  | none => ([], false)
  | some v =>
    if !e.nillable then ([.notNillable], false)
    else if !(v == "0" || v == "1" || v == "false" || v == "true") then ([.nilNotBoolean], false)
    else if v == "0" || v == "false" then ([], false)
    else if e.fixed then ([.nilFixed], false)
    else if i.hasText || i.hasChildren then ([.nilNotEmpty], false)
    else ([], true)

/-- Decision part of `XsdElement.raw_decode` for a non-abstract element whose declared type (after
    type alternatives) is `declTy`. -/
def elementErrs (q : Quirks) (fuel : Nat) (h : Hier) (cs : CSem) (e : EDecl) (declTy : Nat) (i : Inst) : List Err :=
  let (xe, gov) := xsiStep q fuel h e declTy i.xsi
  let ae := match h[gov]? with
    | some G => if G.abstract then [Err.abstractType] else []
    | none => [Err.fuel]
  let (ne, nilled) := nilStep e i
  let ce := if nilled then []
    else (if cs.contentOk gov i.variant then [] else [Err.content]) ++
         (if e.fixed && !cs.fixedOk gov i.variant then [Err.fixedValue] else [])
  xe ++ ae ++ ne ++ ce

/-- XSD 1.1 type alternatives (elements.py:1357-1363): `alts` = (has a test?, test result, type). -/
def selectAlt (alts : List (Bool × Bool × Nat)) (dflt : Nat) : Nat :=
  match alts with
  | [] => dflt
  | (hasTest, res, ty) :: rest => if !hasTest || res then ty else selectAlt rest dflt

/-! ### substitution groups -/

/-- Is `m` registered (transitively) as a substitute of `head`?  `_parse_substitution_group`
    registers a member unless its head blocks substitution; `iter_substitutes` closes transitively.
    Walks the `substitutionGroup` links upwards from the member. -/
def reaches : Nat → List EDecl → Nat → Nat → Option Bool
  | 0, _, _, _ => none
  | fuel + 1, es, m, head =>
    match es[m]? with
    | none => none
    | some M =>
      match M.subst with
      | none => some false
      | some p =>
        match es[p]? with
        | none => none
        | some P =>
          if P.blockSubst then some false
          else if p == head then some true
          else reaches fuel es p head

inductive SubstVerdict where
  | accepted | notSubstitute | blocked | fuel
  deriving DecidableEq, Repr, Inhabited

/-- A child named as global element `m` where the content model expects `head` (m ≠ head):
    `match` via `substitutes` (non-abstract registered members) and the block part of
    `check_dynamic_context` (groups.py:857-862, 897-905 without xsi:type). -/
def substVerdict (q : Quirks) (fuel : Nat) (h : Hier) (es : List EDecl) (head m : Nat) : SubstVerdict :=
  match es[head]?, es[m]? with
  | some H, some M =>
    match reaches fuel es m head with
    | none => .fuel
    | some false => .notSubstitute
    | some true =>
      if M.abstract then .notSubstitute
      else if H.blockSubst then .blocked
      else match isBlocked q fuel h M.ty H.block H.ty with
        | none => .fuel
        | some true => .blocked
        | some false => .accepted
  | _, _ => .fuel

/-! ### a substitute that carries xsi:type -/

/-- The block part of `XsdGroup.check_dynamic_context` (groups.py:852-915) for a child that matched
    the model element `head` through its substitute `m` (head ≠ m) and carries `x` as xsi:type.
    The method raises, so at most one error is reported:
    1. substitution blocked by the head (`'substitution' in head.block`, or the member's declared type
       is blocked for the head: block of the head and of the head's type),
    2. the xsi:type name is unknown / cannot substitute the MEMBER's declared type,
    3. the instance type (xsi type, else the member's type) is derived from the head's type by a
       method in the HEAD's block (the head's type's block is not consulted here). -/
def dynContextErrs (q : Quirks) (fuel : Nat) (h : Hier) (H M : EDecl) (x : XsiAttr) : List Err :=
  if H.blockSubst then [.substBlocked]
  else match isBlocked q fuel h M.ty H.block H.ty with
    | none => [.fuel]
    | some true => [.substBlocked]
    | some false =>
      match x with
      | .absent => []      -- step 3 repeats step 1 with a subset of the block
      | .unknown => [.unknownType]
      | .named t =>
        match instType q fuel h t M.ty with
        | none => [.fuel]
        | some false => [.notDerived]
        | some true =>
          if t == H.ty then []
          else H.block.foldr (fun m acc =>
            match isDerived q fuel h t H.ty (some m), acc with
            | some true, _ => [.headBlocked]
            | some false, a => a
            | none, _ => [.fuel]) []

/-- A child named as global element `m` where the content model expects `head` (m ≠ head), with an
    instance `i` (xsi:type, xsi:nil, content): `none` = not a substitute at all (children error);
    otherwise the errors of `check_dynamic_context` followed by those of the member's own
    `raw_decode` (which checks the xsi:type against the MEMBER's declaration). -/
def substXsiErrs (q : Quirks) (fuel : Nat) (h : Hier) (cs : CSem) (es : List EDecl) (head m : Nat)
    (i : Inst) : Option (List Err) :=
  match es[head]?, es[m]? with
  | some H, some M =>
    match reaches fuel es m head with
    | none => some [.fuel]
    | some false => none
    | some true =>
      if M.abstract then none
      else some (dynContextErrs q fuel h H M i.xsi ++ elementErrs q fuel h cs M M.ty i)
  | _, _ => some [.fuel]

/-! ### XSD 1.1 type alternatives: the test expressions the harness generates -/

/-- XPath tests over the attributes of the element: `@a = 'v'`, `@a != 'v'`, `@a`, `not(..)`,
    `.. and ..`, `.. or ..`. -/
inductive Test where
  | eq (a v : String)
  | ne (a v : String)
  | has (a : String)
  | not (t : Test)
  | and (l r : Test)
  | or (l r : Test)
  deriving Repr, Inhabited

def attrVal (attrs : List (String × String)) (a : String) : Option String :=
  match attrs with
  | [] => none
  | (k, v) :: rest => if k == a then some v else attrVal rest a

/-- Effective boolean value of the test.  A general comparison with an empty sequence (missing
    attribute) is false for `=` AND for `!=`. -/
def evalTest (attrs : List (String × String)) : Test → Bool
  | .eq a v => match attrVal attrs a with | some w => w == v | none => false
  | .ne a v => match attrVal attrs a with | some w => w != v | none => false
  | .has a => (attrVal attrs a).isSome
  | .not t => !evalTest attrs t
  | .and l r => evalTest attrs l && evalTest attrs r
  | .or l r => evalTest attrs l || evalTest attrs r

/-- does the alternative apply?  (`alt.token is None or alt.test(elem)`, elements.py:1388-1391) -/
def altHolds (attrs : List (String × String)) (a : Option Test × Nat) : Bool :=
  match a.1 with
  | none => true
  | some t => evalTest attrs t

/-- `Xsd11Element.get_alternative_type` without inherited attributes (elements.py:1388-1393). -/
def selectAltT (attrs : List (String × String)) (alts : List (Option Test × Nat)) (dflt : Nat) : Nat :=
  match alts with
  | [] => dflt
  | a :: rest => if altHolds attrs a then a.2 else selectAltT attrs rest dflt

/-- With inherited attributes (XSD 1.1 `inheritable`, elements.py:1443-1450): an alternative applies when
    its test holds on the element's own attributes OR on the inherited attributes overridden by the own
    ones (`alt.test(elem) or alt.test(dummy)`); `attrVal` returns the first binding, so `own ++ inh`
    is the overridden map. -/
def altHoldsI (own inh : List (String × String)) (a : Option Test × Nat) : Bool :=
  altHolds own a || altHolds (own ++ inh) a

def selectAltI (own inh : List (String × String)) (alts : List (Option Test × Nat)) (dflt : Nat) : Nat :=
  match alts with
  | [] => dflt
  | a :: rest => if altHoldsI own inh a then a.2 else selectAltI own inh rest dflt

end XsVerif.Derivation
