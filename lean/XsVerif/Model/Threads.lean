/-
  C18 — one schema object shared by many threads: interleaving semantics of the three pieces of shared
  mutable state that a validation touches.

  Port of (file:line of /repo/xmlschema):
    validators/xsd_globals.py:121,537-578  XsdGlobals.build: `if self._built: return` /
                                            `with self._build_lock:` / re-check / clear / load+build /
                                            `self._built = True` / `s.clear()`, `check_validator()` / release
    caching.py:31-46                        SchemaCache.__call__: an lru cache of a deterministic function
    validators/elements.py:672-684         xsi:type widening: `elif xsd_type not in self.xsi_types:` /
                                            `identity.update_elements(...)` / `self.xsi_types.add(xsd_type)`
    validators/identities.py:213-246       update_elements: `if e not in self.elements:` /
                                            `self.elements[e] = [...]` / `e.selected_by.add(self)`
    validators/elements.py:839              `if self.selected_by: self.collect_key_fields(...)`

  Threads are numbered by `Nat`; a schedule is a list of thread numbers; one entry = one atomic step of
  that thread (a step of a blocked or finished thread is a no-op).  Each read or write of a shared field
  is its own step.  No Mathlib.
-/
namespace XsVerif.Threads

def upd {β : Type} (f : Nat → β) (t : Nat) (v : β) : Nat → β := fun x => if x = t then v else f x

/-! ### A. the double-checked build lock -/

inductive Phase where
  | empty | partialBuild | complete
  deriving DecidableEq, Repr

/-- program counter of a thread calling `XsdGlobals.build()` -/
inductive PC where
  | start                 -- about to read `self._built` (unlocked fast path)
  | wantLock              -- `with self._build_lock:` (blocks while held)
  | locked                -- holds the lock, about to re-read `self._built`
  | body (k : Nat)        -- clear() done, k build steps left (load, build_builtins, build, check …)
  | setBuilt              -- maps complete, about to execute `self._built = True`
  | post (k : Nat)        -- `for s in schemas: s.clear()`, `check_validator()`; then release
  | done (saw : Phase)    -- returned from build(); `saw` = state of the maps when it returned
  deriving DecidableEq, Repr

structure Cfg where
  pc : Nat → PC
  lock : Option Nat
  built : Bool
  maps : Phase
  runs : Nat               -- how many times the build body was entered
  bodyLen : Nat
  postLen : Nat

def init (bodyLen postLen : Nat) : Cfg :=
  { pc := fun _ => .start, lock := none, built := false, maps := .empty, runs := 0,
    bodyLen := bodyLen, postLen := postLen }

/-- one atomic step of thread `t` (none = blocked or finished) -/
def step (t : Nat) (c : Cfg) : Option Cfg :=
  match c.pc t with
  | .start => if c.built then some { c with pc := upd c.pc t (.done c.maps) }
              else some { c with pc := upd c.pc t .wantLock }
  | .wantLock => match c.lock with
    | none => some { c with lock := some t, pc := upd c.pc t .locked }
    | some _ => none
  | .locked => if c.built then some { c with lock := none, pc := upd c.pc t (.done c.maps) }
               else some { c with runs := c.runs + 1, maps := .empty, pc := upd c.pc t (.body c.bodyLen) }
  | .body (k + 1) => some { c with maps := .partialBuild, pc := upd c.pc t (.body k) }
  | .body 0 => some { c with maps := .complete, pc := upd c.pc t .setBuilt }
  | .setBuilt => some { c with built := true, pc := upd c.pc t (.post c.postLen) }
  | .post (k + 1) => some { c with pc := upd c.pc t (.post k) }
  | .post 0 => some { c with lock := none, pc := upd c.pc t (.done c.maps) }
  | .done _ => none

def exec : List Nat → Cfg → Cfg
  | [], c => c
  | t :: ts, c => exec ts ((step t c).getD c)

def PC.inRegion : PC → Bool
  | .locked | .body _ | .setBuilt | .post _ => true
  | _ => false

/-! ### B. a memo cache of a deterministic function (SchemaCache / lru_cache) -/

inductive MPC (K V : Type) where
  | call (k : K)          -- about to look the key up
  | compute (k : K)       -- miss: computing f k (no shared access)
  | store (k : K) (v : V) -- about to write the cache
  | ret (v : V)

structure MCfg (K V : Type) where
  pc : Nat → MPC K V
  memo : K → Option V

def mstep {K V : Type} [DecidableEq K] (f : K → V) (t : Nat) (c : MCfg K V) : MCfg K V :=
  match c.pc t with
  | .call k => match c.memo k with
    | some v => { c with pc := upd c.pc t (.ret v) }
    | none => { c with pc := upd c.pc t (.compute k) }
  | .compute k => { c with pc := upd c.pc t (.store k (f k)) }
  | .store k v => { pc := upd c.pc t (.ret v), memo := fun x => if x = k then some v else c.memo x }
  | .ret _ => c

def mexec {K V : Type} [DecidableEq K] (f : K → V) : List Nat → MCfg K V → MCfg K V
  | [], c => c
  | t :: ts, c => mexec f ts (mstep f t c)

/-! ### C. xsi:type widening of identity constraints (one element declaration, one substituted type `T`,
        one selected child `e` of `T`) -/

/-- step order / granularity variants of the code -/
inductive Mode where
  | old        -- pinned tree: `xsi_types.add` BEFORE `update_elements` (C18-F1, fixed by 52f30cd)
  | cur        -- current tree, statement granularity: `elements[e] = …` and `selected_by.add` are two steps
  | curCall    -- current tree at function-call granularity: no library call separates the two statements
  | patched    -- proposed C18-F2 patch: `selected_by.add` executed unconditionally (idempotent)
  deriving DecidableEq, Repr

inductive WPC where
  | chk                   -- read `xsd_type in self.xsi_types`
  | pubFirst              -- (old) `self.xsi_types.add(xsd_type)` before widening
  | rdElems               -- update_elements: read `e in self.elements`
  | setElems              -- `self.elements[e] = [...]`
  | addSel                -- `e.selected_by.add(self)`
  | pub                   -- `self.xsi_types.add(xsd_type)`
  | child                 -- validating child e: read `self.selected_by`
  | fin (collected : Bool)  -- did this thread collect the key fields of e?
  deriving DecidableEq, Repr

structure WCfg where
  pc : Nat → WPC
  published : Bool        -- T ∈ xsi_types
  inElems : Bool          -- e ∈ identity.elements
  selBy : Bool            -- identity ∈ e.selected_by

def winit : WCfg := { pc := fun _ => .chk, published := false, inElems := false, selBy := false }

def wstep (m : Mode) (t : Nat) (c : WCfg) : WCfg :=
  match c.pc t with
  | .chk => if c.published then { c with pc := upd c.pc t .child }
            else { c with pc := upd c.pc t (if m = .old then .pubFirst else .rdElems) }
  | .pubFirst => { c with published := true, pc := upd c.pc t .rdElems }
  | .rdElems =>
    if c.inElems then
      { c with pc := upd c.pc t (if m = .patched then .addSel else if m = .old then .child else .pub) }
    else { c with pc := upd c.pc t .setElems }
  | .setElems =>
    if m = .curCall then
      { c with inElems := true, selBy := true, pc := upd c.pc t .pub }
    else { c with inElems := true, pc := upd c.pc t .addSel }
  | .addSel => { c with selBy := true, pc := upd c.pc t (if m = .old then .child else .pub) }
  | .pub => { c with published := true, pc := upd c.pc t .child }
  | .child => { c with pc := upd c.pc t (.fin c.selBy) }
  | .fin _ => c

def wexec (m : Mode) : List Nat → WCfg → WCfg
  | [], c => c
  | t :: ts, c => wexec m ts (wstep m t c)

end XsVerif.Threads
