/-
  Date/time, duration, binary and boolean converters used by the built-in types
  (the `to_python` callables of xmlschema/validators/builtins.py:72-505):

    elementpath/datatypes/datetime.py   AbstractDateTime.fromstring / __init__ / _compare,
                                        Timezone.fromstring, Duration.fromstring / __init__
    elementpath/datatypes/binary.py     HexBinary / Base64Binary validate, __len__
    xmlschema/validators/helpers.py     XSD_BOOLEAN_MAP, boolean_to_python

  These are ports of what the code does (regular expression + constructor checks), including
  its leap-year proxy for years outside 1..9999.  No Mathlib import.
-/
import XsVerif.Model.Datatypes

namespace XsVerif.Datatypes

/-! ## pieces of the regular expressions -/

/-- `[0-9]{2}` -/
def take2 : Str → Option (Nat × Str)
  | a :: b :: r => if isDig a && isDig b then some (digVal a * 10 + digVal b, r) else none
  | _ => none

/-- `(?P<tzinfo>Z|[+-](?:(?:0[0-9]|1[0-3]):[0-5][0-9]|14:00))?$` on the rest of the text, then
    `Timezone.fromstring`: `none` = no match, `some none` = no time zone. -/
def parseTz : Str → Option Tz
  | [] => some none
  | ['Z'] => some (some 0)
  | [sg, h1, h2, ':', m1, m2] =>
    if (sg == '+' || sg == '-') && isDig h1 && isDig h2 && isDig m1 && isDig m2 then
      let h := digVal h1 * 10 + digVal h2
      let m := digVal m1 * 10 + digVal m2
      if (h ≤ 13 && m ≤ 59) || (h == 14 && m == 0) then
        some (some (if sg == '-' then - ((h * 60 + m : Nat) : Int) else ((h * 60 + m : Nat) : Int)))
      else none
    else none
  | _ => none

/-- `(?P<year>-?[0-9]*[0-9]{4})`: (negative?, digits, rest); the digit run is maximal because the
    next token of every pattern starts with a non-digit. -/
def scanYear (s : Str) : Option (Bool × Str × Str) :=
  let (neg, r) := match s with
    | '-' :: r => (true, r)
    | r => (false, r)
  let ds := r.takeWhile isDig
  if ds.length ≥ 4 then some (neg, ds, r.dropWhile isDig) else none

/-- fromstring: leading-zero rule, year 0 in XSD 1.0, shift of non-positive years in 1.1
    (datetime.py:425-438) -/
def yearValue (v11 : Bool) (neg : Bool) (ds : Str) : Option Int :=
  if ds.length > 4 && ds.head? == some '0' then none
  else
    let y : Int := if neg then - (natOfDigits ds : Int) else (natOfDigits ds : Int)
    if !v11 then (if y == 0 then none else some y)
    else some (if y ≤ 0 then y - 1 else y)

/-- `(?:\.(?P<microsecond>[0-9]+))?` then padding / truncation to 6 digits (datetime.py:419-423) -/
def scanFraction : Str → Option (Nat × Str)
  | '.' :: r =>
    let ds := r.takeWhile isDig
    if ds.isEmpty then none
    else some (natOfDigits ((ds ++ List.replicate 6 '0').take 6), r.dropWhile isDig)
  | r => some (0, r)

/-- `hh:mm:ss(.f+)?` -/
def scanTime (s : Str) : Option (Nat × Nat × Nat × Nat × Str) := do
  let (h, r) ← take2 s
  let r ← match r with | ':' :: r => some r | _ => none
  let (mi, r) ← take2 r
  let r ← match r with | ':' :: r => some r | _ => none
  let (sec, r) ← take2 r
  let (us, r) ← scanFraction r
  some (h, mi, sec, us, r)

/-! ## AbstractDateTime.__init__ (datetime.py:165-203) -/

/-- `calendar.isleap` (Python `%` is `Int.emod`) -/
def isLeap (y : Int) : Bool := y % 4 == 0 && (y % 100 != 0 || y % 400 == 0)

def daysInMonth (leap : Bool) (m : Nat) : Nat :=
  if m == 2 then (if leap then 29 else 28)
  else if m == 4 || m == 6 || m == 9 || m == 11 then 30 else 31

/-- the constructor: `none` = ValueError / OverflowError (both end as a decode error) -/
def mkDt (kind : DtKind) (v11 : Bool) (year : Int) (month day hour minute second micro : Nat)
    (tz : Tz) : Option DtVal :=
  let h24 := hour == 24 && minute == 0 && second == 0 && micro == 0
  -- Time.__init__ maps 24:00:00 to 00:00:00 before calling the base constructor
  let isTime := kind == .time
  -- (year, month, day, hour, +1 day?)
  let (year, month, day, hour, plusDay) :=
    if h24 then
      if isTime then (year, month, day, 0, false)
      else if year == 9999 && month == 12 && day == 31 then ((10000 : Int), 1, 1, 0, false)
      else (year, month, day, 0, true)
    else (year, month, day, hour, false)
  let inRange := 1 ≤ year && year ≤ 9999
  if !inRange && year == 0 then none
  else if !inRange && year.natAbs > 2 ^ 31 then none
  else
    let leap := if inRange then isLeap year else isLeap (year + (if v11 then 1 else 0))
    if month < 1 || month > 12 || day < 1 || day > daysInMonth leap month ||
       hour > 23 || minute > 59 || second > 59 then none
    else if !plusDay then some ⟨kind, year, month, day, hour, minute, second, micro, tz⟩
    else
      -- `self._dt += delta`; `_year` follows `_dt.year` only for years 1..9999
      if day < daysInMonth leap month then
        some ⟨kind, year, month, day + 1, hour, minute, second, micro, tz⟩
      else if month < 12 then some ⟨kind, year, month + 1, 1, hour, minute, second, micro, tz⟩
      else some ⟨kind, if inRange then year + 1 else year, 1, 1, hour, minute, second, micro, tz⟩

/-! ## the nine `fromstring`s -/

def expect (c : Char) : Str → Option Str
  | d :: r => if d == c then some r else none
  | [] => none

def parseDt (kind : DtKind) (v11 : Bool) (s : Str) : Option DtVal :=
  match kind with
  | .dateTime => do
    let (neg, ds, r) ← scanYear s
    let r ← expect '-' r
    let (mo, r) ← take2 r
    let r ← expect '-' r
    let (d, r) ← take2 r
    let r ← expect 'T' r
    let (h, mi, sec, us, r) ← scanTime r
    let tz ← parseTz r
    let y ← yearValue v11 neg ds
    mkDt kind v11 y mo d h mi sec us tz
  | .date => do
    let (neg, ds, r) ← scanYear s
    let r ← expect '-' r
    let (mo, r) ← take2 r
    let r ← expect '-' r
    let (d, r) ← take2 r
    let tz ← parseTz r
    let y ← yearValue v11 neg ds
    mkDt kind v11 y mo d 0 0 0 0 tz
  | .gYearMonth => do
    let (neg, ds, r) ← scanYear s
    let r ← expect '-' r
    let (mo, r) ← take2 r
    let tz ← parseTz r
    let y ← yearValue v11 neg ds
    mkDt kind v11 y mo 1 0 0 0 0 tz
  | .gYear => do
    let (neg, ds, r) ← scanYear s
    let tz ← parseTz r
    let y ← yearValue v11 neg ds
    mkDt kind v11 y 1 1 0 0 0 0 tz
  | .time => do
    let (h, mi, sec, us, r) ← scanTime s
    let tz ← parseTz r
    mkDt kind v11 2000 1 1 h mi sec us tz
  | .gMonth => do
    let r ← expect '-' s
    let r ← expect '-' r
    let (mo, r) ← take2 r
    let tz ← parseTz r
    mkDt kind v11 2000 mo 1 0 0 0 0 tz
  | .gMonthDay => do
    let r ← expect '-' s
    let r ← expect '-' r
    let (mo, r) ← take2 r
    let r ← expect '-' r
    let (d, r) ← take2 r
    let tz ← parseTz r
    mkDt kind v11 2000 mo d 0 0 0 0 tz
  | .gDay => do
    let r ← expect '-' s
    let r ← expect '-' r
    let r ← expect '-' r
    let (d, r) ← take2 r
    let tz ← parseTz r
    mkDt kind v11 2000 1 d 0 0 0 0 tz

/-! ## ordering (AbstractDateTime._compare, datetime.py:243-269) -/

def cumDays (leap : Bool) : Nat → Nat
  | 0 => 0
  | m + 1 => cumDays leap m + (if m == 0 then 0 else daysInMonth leap m)

/-- microseconds of `_dt` since the start of its (proxy) year, in UTC; a naive value is read as UTC -/
def dtKey (v11 : Bool) (v : DtVal) : Int :=
  let inRange := 1 ≤ v.year && v.year ≤ 9999
  let leap := if inRange then isLeap v.year else isLeap (v.year + (if v11 then 1 else 0))
  let days := cumDays leap v.month + v.day
  let secs : Int := ((days * 86400 + v.hour * 3600 + v.minute * 60 + v.second : Nat) : Int)
  (secs - (v.tz.getD 0) * 60) * 1000000 + (v.micro : Int)

def dtCompare (v11 : Bool) (a b : DtVal) : Option Ordering :=
  if a.kind != b.kind then none
  else if a.year != b.year then some (compare a.year b.year)
  else some (compare (dtKey v11 a) (dtKey v11 b))

/-! ## durations (datetime.py:1076-1108, 1022-1036) -/

/-- digits followed by one designator out of `allowed` (in order, each at most once);
    returns the (designator, digits) pairs and the rest.  `fuel` bounds the number of fields. -/
def scanFields : Nat → List Char → Str → Option (List (Char × Str) × Str)
  | 0, _, s => some ([], s)
  | fuel + 1, allowed, s =>
    let ds := s.takeWhile isDig
    if ds.isEmpty then some ([], s)
    else match s.dropWhile isDig with
      | [] => none
      | c :: r =>
        if allowed.contains c then
          match scanFields fuel ((allowed.dropWhile (· != c)).drop 1) r with
          | some (fs, r') => some ((c, ds) :: fs, r')
          | none => none
        else some ([], s)

def fieldVal (fs : List (Char × Str)) (c : Char) : Nat :=
  match fs.find? (·.1 == c) with
  | some (_, ds) => natOfDigits ds
  | none => 0

/-- round-half-even of `n / d` (Decimal.quantize under the default context) -/
def roundHalfEven (n d : Nat) : Nat :=
  let q := n / d
  let r := n % d
  if 2 * r > d || (2 * r == d && q % 2 == 1) then q + 1 else q

/-- `Duration.fromstring` for the three duration types: (months, microseconds) -/
def parseDur (p : Prim) (s : Str) : Option DurVal := do
  let (neg, r) := match s with
    | '-' :: r => (true, r)
    | r => (false, r)
  let r ← expect 'P' r
  -- (?=[0-9]|T)
  let _ ← match r with
    | c :: _ => if isDig c || c == 'T' then some () else none
    | [] => none
  let (dfs, r) ← scanFields 3 ['Y', 'M', 'D'] r
  -- (?:T(?=[0-9]) H? M? (S with optional fraction)?)?$
  let (tfs, secDigits, fracDigits) ← match r with
    | [] => some ([], [], [])
    | 'T' :: r =>
      match r with
      | c :: _ =>
        if !isDig c then none
        else
          match scanFields 2 ['H', 'M'] r with
          | none =>
            -- digits ran to the end of the text or an unexpected designator: may still be seconds
            none
          | some (tfs, r) =>
            let ds := r.takeWhile isDig
            match r.dropWhile isDig with
            | [] => if ds.isEmpty then some (tfs, [], []) else none
            | 'S' :: [] => if ds.isEmpty then none else some (tfs, ds, [])
            | '.' :: r2 =>
              let fs := r2.takeWhile isDig
              match r2.dropWhile isDig with
              | 'S' :: [] => if ds.isEmpty || fs.isEmpty then none else some (tfs, ds, fs)
              | _ => none
            | _ => none
      | [] => none
    | _ => none
  let months : Nat := fieldVal dfs 'M' + 12 * fieldVal dfs 'Y'
  let whole : Nat := natOfDigits secDigits + 60 * fieldVal tfs 'M' + 3600 * fieldVal tfs 'H' +
    86400 * fieldVal dfs 'D'
  -- seconds as an exact fraction: (whole * 10^k + frac) / 10^k
  let k := fracDigits.length
  let num := whole * 10 ^ k + natOfDigits fracDigits
  let secondsNonZero := num != 0
  if p == .dayTimeDuration && months != 0 then none
  else if p == .yearMonthDuration && secondsNonZero then none
  -- Duration.__init__: abs(months) > 2**31, abs(seconds) > 2**63 → OverflowError
  else if months > 2 ^ 31 then none
  else if num > 2 ^ 63 * 10 ^ k then none
  else
    let micros := roundHalfEven (num * 1000000) (10 ^ k)
    some ⟨if neg then - (months : Int) else months, if neg then - (micros : Int) else micros⟩

/-! ## binaries, boolean -/

def isHex (c : Char) : Bool := isDig c || ('a' ≤ c && c ≤ 'f') || ('A' ≤ c && c ≤ 'F')

/-- `HexBinary.validate`: `^([0-9a-fA-F]{2})*$` -/
def hexOk (s : Str) : Bool := s.all isHex && s.length % 2 == 0

def isB64 (c : Char) : Bool :=
  isDig c || ('a' ≤ c && c ≤ 'z') || ('A' ≤ c && c ≤ 'Z') || c == '+' || c == '/'

/-- the final quantum of `Base64Binary.pattern` on a text without blanks -/
def b64Groups : Nat → Str → Bool
  | _, [] => false
  | _, [a, b, c, d] =>
    (isB64 a && isB64 b && isB64 c && isB64 d) ||
    (isB64 a && isB64 b && "AEIMQUYcgkosw048".toList.contains c && d == '=') ||
    (isB64 a && "AQgw".toList.contains b && c == '=' && d == '=')
  | 0, _ => false
  | fuel + 1, a :: b :: c :: d :: r =>
    isB64 a && isB64 b && isB64 c && isB64 d && b64Groups fuel r
  | _, _ => false

/-- `Base64Binary(value)`: blanks removed, empty allowed; result = stored literal -/
def parseB64 (s : Str) : Option Str :=
  let t := s.filter (· != ' ')
  if t.isEmpty then some t
  else if b64Groups t.length t then some t else none

/-- `XSD_BOOLEAN_MAP[value]` over a table (generated from helpers.py) -/
def lookupBool (table : List (String × Bool)) (s : Str) : Option Bool :=
  (table.find? (fun e => e.1.toList == s)).map (·.2)

end XsVerif.Datatypes
