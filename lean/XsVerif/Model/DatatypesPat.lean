/-
  Pattern facets of property C02.

  1. A regular-expression SUBSET with exact semantics: `CRx` = the counted regular expressions of `Model/Rx`
     over characters, leaves = character classes (code-point ranges, possibly negated).  `rxMatch` is the
     derivative matcher of `Model/Rx`; `Lemmas/Rx.accepts_iff` makes it a decision procedure of `Rx.Lang`.
     An `xs:pattern` group (the `XsdPatternFacets` of one derivation step, facets.py:760-833: the patterns of one
     step are alternatives) whose patterns all lie in the subset is evaluated by the model itself (`mkP`); the
     other groups stay an oracle (the implementation's traced verdicts), as before.

  2. The way xmlschema applies the pattern facets of a restriction of a UNION: they cannot be applied to the text
     by the restriction (the white-space normalisation depends on the member that matches), so the restriction
     pushes them into the validation context (`context.patterns`, validation.py:131,174,208) and the union takes
     them out and applies them to the text normalised by the member that matched:

       XsdAtomicRestriction.raw_decode  simple_types.py:1456-1469   push, only when the slot is empty
       XsdUnion.raw_decode              simple_types.py:1185-1218   take + clear, members tried, patterns applied

     `decodeS` is `Model/Datatypes.decode` with that slot threaded through as state, in the order of the calls.
     `chain = false` is the pinned behaviour (a restriction that finds the slot occupied drops its own patterns:
     finding C02-F12); `chain = true` the repaired one (the patterns of every derivation step are kept).

  No Mathlib import (linked into `drv_c02`).
-/
import XsVerif.Model.Datatypes
import XsVerif.Model.Rx

namespace XsVerif.Datatypes

/-! ## regular-expression subset -/

/-- a character class: a union of code-point ranges `[lo, hi]`, possibly negated -/
structure CClass where
  neg : Bool
  ranges : List (Nat × Nat)
  deriving Repr, DecidableEq, Inhabited

def CClass.mem (k : CClass) (c : Char) : Bool :=
  k.neg != k.ranges.any fun r => r.1 ≤ c.toNat && c.toNat ≤ r.2

/-- regular expressions over characters: ∅, ε, class, concatenation, alternation, `r{lo,hi}` -/
abbrev CRx := XsVerif.Rx CClass

/-- the language of a pattern (XSD patterns are anchored: the whole text must match) -/
def CRx.Lang (r : CRx) (s : Str) : Prop := Rx.Lang CClass.mem r s

/-- the matcher the model runs -/
def rxMatch (r : CRx) (s : Str) : Bool := Rx.accepts CClass.mem r s

/-- one `XsdPatternFacets` group: the text must match one of its patterns (facets.py:806-812) -/
def groupMatch (g : List CRx) (s : Str) : Bool := g.any fun r => rxMatch r s

/-- pattern groups the model evaluates itself, by id -/
abbrev PatTable := List (Nat × List CRx)

/-- the pattern oracle of `Env`: own evaluation for the groups of the table, the implementation's traced
    verdict `(id, text, verdict)` for the others -/
def mkP (tab : PatTable) (trace : List (Nat × Str × Bool)) : Nat → Str → Option Bool := fun id t =>
  match tab.lookup id with
  | some g => some (groupMatch g t)
  | Option.none => (trace.find? fun e => e.1 == id && e.2.1 == t).map (·.2.2)

/-! ## the length family and xs:QName / xs:NOTATION

  XsdLengthFacet / XsdMinLengthFacet / XsdMaxLengthFacet decide at build time whether they are checked
  (facets.py:194-197, 232-235, 270-273): not when `base_type.primitive_type` is xs:QName or xs:NOTATION.  The primitive
  type of a restriction is that of its base; a list and a union are their own (simple_types.py:576-579), so on a LIST
  over xs:QName the facets count the items like on every list. -/

/-- `self.base_type.primitive_type.name in QNAME_TAGS` -/
def lenExemptRoot : SType → Bool
  | .builtin b => b.lenExempt
  | .restr base _ _ _ => lenExemptRoot base
  | .list _ => false
  | .union _ => false

def Facet.isLengthFamily : Facet → Bool
  | .length _ | .minLength _ | .maxLength _ => true
  | _ => false

/-- `self.validate = self.skip_validation` for the length family of an exempted restriction -/
def exemptFacets (ex : Bool) (fs : List Facet) : List Facet :=
  if ex then fs.map fun f => if f.isLengthFamily then Facet.skip else f else fs

mutual
/-- the type as it validates: the facets declared (introspected from the built type) with the exemption applied -/
def applyExempt : SType → SType
  | .builtin b => .builtin b
  | .restr base ws pat fs => .restr (applyExempt base) ws pat (exemptFacets (lenExemptRoot base) fs)
  | .list item => .list (applyExempt item)
  | .union ms => .union (applyExemptAll ms)
def applyExemptAll : STypes → STypes
  | .nil => .nil
  | .cons t ts => .cons (applyExempt t) (applyExemptAll ts)
end

/-! ## `context.patterns` -/

/-- the pattern groups waiting in the validation context (pinned code: at most one) -/
abbrev Slot := List Nat

/-- `isinstance(self.primitive_type, XsdUnion)` (simple_types.py:576-579: the primitive type of a restriction
    is that of its base, a union is its own) -/
def primIsUnion : SType → Bool
  | .restr base _ _ _ => primIsUnion base
  | .union _ => true
  | _ => false

/-- `white_space` of a type as `normalize` reads it: lists and unions are built with 'collapse'
    (simple_types.py:895,1058), a restriction of a union has none (preserve), introspected into `ws` -/
def wsOf : SType → WsMode
  | .builtin b => b.ws
  | .restr _ ws _ _ => ws
  | .list _ => .collapse
  | .union _ => .collapse

/-- `patterns(text)` of the union for what it took out of the slot: the first failing group raises -/
def slotErrs (E : Env) (σ : Slot) (t : Str) : List Err :=
  match σ.flatMap fun p => patErrs E (some p) t with
  | [] => []
  | e :: _ => [e]

/-- the restriction of a union pushes its group: `elif context.patterns is None: context.patterns = self.patterns` -/
def push (chain : Bool) (σ : Slot) (pat : Option Nat) : Slot :=
  match pat with
  | Option.none => σ
  | some p => match σ with
    | [] => [p]
    | _ => if chain then σ ++ [p] else σ

/-- what a union keeps of a member it tried: the member, its lax outcome, and whether a STRICT decode of the member
    raises an `XMLSchemaDecodeError` first (the union looks at the class of the error raised, simple_types.py:1194-1196) -/
abbrev Tried := SType × Res × Bool

def firstValidM : List Tried → Option Tried
  | [] => Option.none
  | x :: xs => if x.2.1.valid then some x else firstValidM xs

/-- the first member refused by something else than a decode error (`xsd_type`) -/
def firstNonDecodeM : List Tried → Option Tried
  | [] => Option.none
  | x :: xs => if !x.2.1.valid && !x.2.2 then some x else firstNonDecodeM xs

/-- first error of a lax outcome is a decode error: for built-ins, restrictions and lists the strict decode raises the
    first error that the lax decode collects -/
def headDecode : List Err → Bool
  | Err.decode :: _ => true
  | _ => false

/-- XsdUnion.raw_decode, lax, given the members with their outcomes and the groups `σ` taken from the slot:
    the member that matched (or, failing that, the first member refused by a facet, decoded again in lax mode)
    gives the value; the groups are applied to the text normalised by THAT member, after its own errors; when
    every member fails to decode the groups are not looked at (simple_types.py:1191-1218) -/
def unionResS (E : Env) (σ : Slot) (s : Str) (rs : List Tried) : Res :=
  match firstValidM rs with
  | some (m, r, _) => ⟨r.val, r.errs ++ slotErrs E σ (normalize E.W (wsOf m) s)⟩
  | Option.none =>
    match firstNonDecodeM rs with
    | some (m, r, _) => ⟨r.val, r.errs ++ slotErrs E σ (normalize E.W (wsOf m) s)⟩
    | Option.none => ⟨.none, [Err.decode]⟩

/-- outcome of a stateful decode: lax outcome, slot afterwards, "a strict decode raises a decode error first" -/
abbrev Out := Res × Slot × Bool

/-- items of a list, one after the other in the same context -/
def foldItems (f : Slot → Str → Out) : Slot → List Str → List (Res × Bool) × Slot
  | σ, [] => ([], σ)
  | σ, w :: ws =>
    let x := f σ w
    let rest := foldItems f x.2.1 ws
    ((x.1, x.2.2) :: rest.1, rest.2)

/-- strict decode of a list: the first item that fails raises -/
def firstFailing : List (Res × Bool) → Bool
  | [] => false
  | x :: xs => if x.1.valid then firstFailing xs else x.2

mutual
/-- lax `raw_decode` with the slot `context.patterns` as state: (outcome, slot afterwards, strict decode error) -/
def decodeS (E : Env) (C : Conv) (chain : Bool) : SType → Slot → Str → Out
  | .builtin b, σ, s =>
    let r := decodeBuiltin E C b s
    (r, σ, headDecode r.errs)
  | .restr base ws pat facets, σ, s =>
    -- XsdAtomicRestriction.raw_decode (simple_types.py:1456-1490)
    let t := normalize E.W ws s
    let isU := primIsUnion base
    let e1 := if isU then [] else patErrs E pat t
    let σ1 := if isU then push chain σ pat else σ
    let x := decodeS E C chain base σ1 t
    let e2 := match x.1.val with
      | .none => []
      | v => facetErrs E facets v
    (⟨x.1.val, e1 ++ x.1.errs ++ e2⟩, x.2.1, e1.isEmpty && x.2.2)
  | .list item, σ, s =>
    let x := foldItems (fun σ' w => decodeS E C chain item σ' w) σ (words E.W (normalize E.W .collapse s))
    let rs := x.1.map (·.1)
    (listRes rs, x.2, rs.all (fun r => (itemOf r).isSome) && firstFailing x.1)
  | .union ms, σ, s =>
    -- `patterns = context.patterns; context.patterns = None`, then the members in order; in strict mode a union
    -- without a matching member raises a decode error whatever its members raised (simple_types.py:1216-1218)
    let x := decodeAllS E C chain ms [] s
    (unionResS E σ s x.1, x.2, !(x.1.any fun y => y.2.1.valid))
/-- the members of a union, tried in order in the same context -/
def decodeAllS (E : Env) (C : Conv) (chain : Bool) : STypes → Slot → Str → List Tried × Slot
  | .nil, σ, _ => ([], σ)
  | .cons t ts, σ, s =>
    let x := decodeS E C chain t σ s
    let rest := decodeAllS E C chain ts x.2.1 s
    ((t, x.1, x.2.2) :: rest.1, rest.2)
end

/-- a type-level call (`text_decode`, `text_is_valid`: the context is cleared first, simple_types.py:466-478) -/
def decodeTop (E : Env) (C : Conv) (chain : Bool) (t : SType) (s : Str) : Res := (decodeS E C chain t [] s).1

/-- "a strict decode of the type raises an XMLSchemaDecodeError first" -/
def strictDecodeErr (E : Env) (C : Conv) (chain : Bool) (t : SType) (s : Str) : Bool := (decodeS E C chain t [] s).2.2

/-- values of a document decoded one after the other in ONE validation context (sibling elements, attributes):
    the outcomes, and what is left in the slot -/
def decodeSeq (E : Env) (C : Conv) (chain : Bool) : Slot → List (SType × Str) → List Res × Slot
  | σ, [] => ([], σ)
  | σ, (t, s) :: rest =>
    let x := decodeS E C chain t σ s
    let r := decodeSeq E C chain x.2.1 rest
    (x.1 :: r.1, r.2)

end XsVerif.Datatypes
