/-
  C14, layer M: port of the particle-restriction rules of /repo

    particles.py:128-138     ParticleMixin.has_occurs_restriction
    particles.py:180-230     OccursCalculator
    groups.py:167-204        is_emptiable / is_pointless
    groups.py:212-278        effective_min_occurs / effective_max_occurs
    groups.py:280-322        XsdGroup.has_occurs_restriction (group against element)
    groups.py:324-348        iter_model
    groups.py:679-850        XSD 1.0 group rules
    groups.py:1287-1542      XSD 1.1 group rules
    elements.py:1128-1203    XsdElement.is_restriction
    wildcards.py:214-267,491 XsdAnyElement.is_restriction (namespace part = C16 `isRestriction`)

  The rules are ported as they are (they are heuristics: several accept restrictions that are
  not language inclusions — finding C14-F0).  The functions work on the particle *tree* (ids =
  Python object identity, assigned by the harness) plus a table of per-particle facts that the
  rules read from the surrounding schema (`PInfo`).  Python's mutual recursion between the
  `is_restriction` methods is one function `isRestr` with explicit fuel; fuel exhaustion and the
  places where the Python code would raise are explicit error values, never verdicts.
  No Mathlib import.
-/
import XsVerif.Model.Particle

namespace XsVerif.Restr
open XsVerif.Wildcard XsVerif.CM

/-! ### occurrence ranges -/

/-- `ParticleMixin.has_occurs_restriction` (particles.py:128-138). -/
def hasOccursRestriction (lo : Nat) (hi : Option Nat) (olo : Nat) (ohi : Option Nat) : Bool :=
  if lo < olo then false
  else if hi == some 0 then true
  else match ohi with
    | none => true
    | some oh => match hi with
      | none => false
      | some h => h ≤ oh

/-- `OccursCalculator.__add__` -/
def occAdd (a : Nat × Option Nat) (lo : Nat) (hi : Option Nat) : Nat × Option Nat :=
  (a.1 + lo, match a.2, hi with | some x, some y => some (x + y) | _, _ => none)

/-- `OccursCalculator.__mul__` -/
def occMul (a : Nat × Option Nat) (lo : Nat) (hi : Option Nat) : Nat × Option Nat :=
  (a.1 * lo, match a.2 with
    | none => if hi == some 0 then some 0 else none
    | some x => match hi with
      | none => if x != 0 then none else some x
      | some y => some (x * y))

/-! ### facts read from the schema -/

inductive Err where | fuel | raises
  deriving DecidableEq, Repr, Inhabited

/-- per-particle facts (indexed by particle id) that the rules consult; opaque inputs of the model -/
structure PInfo where
  -- elements
  refTruthy : Bool := false      -- `bool(self.ref)`: a reference whose target has element children
  isHead : Bool := false         -- `self.name in self.maps.substitution_groups`
  isGlobal : Bool := false       -- `self.name in self.maps.elements` (notQName ##defined)
  abstract : Bool := false
  substGroup : Option QN := none -- `self.substitution_group`
  subs : List QN := []           -- names yielded by `iter_substitutes()`
  typeId : Nat := 0              -- identity of `self.type`
  typeIsAny : Bool := false      -- `self.type.name == xs:anyType`
  typeAbstract : Bool := false
  fixed : Option String := none  -- `self.type.normalize(self.fixed)`
  nillable : Bool := false
  block : List String := []
  idents : List Nat := []        -- ids of the identity constraints
  -- wildcards
  pc : PC := .strict
  -- groups
  gref : Bool := false           -- `self.ref is not None`
  gname : Option QN := none      -- `self.name` of a group: set for named (global) groups and references
  hasParent : Bool := true       -- `self.parent is not None`
  mixed : Bool := false
  deriving Repr, Inhabited

structure Ctx where
  v11 : Bool
  info : Array PInfo
  /-- pairs (derived type id, base type id) with `self.type.elem is other.type.elem or
      self.type.is_derived(other.type, 'restriction')` -/
  derivOk : List (Nat × Nat) := []
  /-- `true` = the tree carries notes/fixes/C14-zero-occurs-and-empty-group.patch: a wildcard or an
      element with maxOccurs=0 and an empty group restrict only what is emptiable (three clauses of
      finding C14-F0); `false` = the pinned clauses -/
  repaired : Bool := false
  /-- `true` = the tree carries notes/fixes/C14-open-content-empty-group.patch (finding C14-F7): the
      open-content clause is checked for a derived type with an empty content group as well -/
  repairedOC : Bool := false
  deriving Inhabited

def Ctx.of (C : Ctx) (i : Nat) : PInfo := C.info.getD i default

/-! ### structural helpers on the particle tree -/

mutual
def plist : Particles → List Particle
  | .nil => []
  | .cons p ps => p :: plist ps
end

end XsVerif.Restr
namespace XsVerif.CM
open XsVerif.Wildcard XsVerif.Restr
def Particle.lo : Particle → Nat | .leaf _ lo _ => lo | .group _ _ lo _ _ => lo
def Particle.hi : Particle → Option Nat | .leaf _ _ hi => hi | .group _ _ _ hi _ => hi
def Particle.isGroup : Particle → Bool | .group .. => true | _ => false
def Particle.isElem : Particle → Bool | .leaf (.elem ..) _ _ => true | _ => false
def Particle.isAny : Particle → Bool | .leaf (.any ..) _ _ => true | _ => false
def Particle.items : Particle → List Particle | .group _ _ _ _ ps => plist ps | _ => []
def Particle.kind : Particle → GKind | .group _ k _ _ _ => k | _ => .seq
/-- `self.name`: the declared name of an element, `None` for wildcards and local groups -/
def Particle.name : Particle → Option QN
  | .leaf (.elem _ names) _ _ => names.head?
  | _ => none
def Particle.wc : Particle → Wc | .leaf (.any _ w) _ _ => w | _ => default
def Particle.names : Particle → List QN | .leaf (.elem _ ns) _ _ => ns | _ => []

end XsVerif.CM
namespace XsVerif.Restr
open XsVerif.Wildcard XsVerif.CM

mutual
/-- `is_emptiable` (particles.py:75, groups.py:167-171) -/
def emptiable : Particle → Bool
  | .leaf _ lo _ => lo == 0
  | .group _ k lo _ ps =>
      lo == 0 || (match ps with | .nil => true | _ => false) ||
        (match k with | .choice => anyEmptiable ps | _ => allEmptiable ps)
def anyEmptiable : Particles → Bool
  | .nil => false
  | .cons p ps => emptiable p || anyEmptiable ps
def allEmptiable : Particles → Bool
  | .nil => true
  | .cons p ps => emptiable p && allEmptiable ps
end

def plen : Particles → Nat
  | .nil => 0
  | .cons _ ps => plen ps + 1

/-- `XsdGroup.is_pointless(parent)` (groups.py:181-204), for a group with the given fields -/
def pointlessG (k : GKind) (lo : Nat) (hi : Option Nat) (n : Nat) (parent : GKind) : Bool :=
  if n == 0 then true
  else if lo != 1 || hi != some 1 then false
  else if n == 1 then true
  else if k == .seq && parent != .seq then false
  else if k == .choice && parent != .choice then false
  else true

def pointless (p : Particle) (parent : GKind) : Bool :=
  match p with
  | .group _ k lo hi ps => pointlessG k lo hi (plen ps) parent
  | _ => false

mutual
/-- `iter_model` (groups.py:324-348): the items of a group with pointless groups flattened.
    The `parent` handed to `is_pointless` is always the group that is being iterated. -/
def iterModelP (root : GKind) : Particle → List Particle
  | .leaf l lo hi => [.leaf l lo hi]
  | .group i k lo hi ps =>
      if pointlessG k lo hi (plen ps) root then iterModelPs root ps else [.group i k lo hi ps]
def iterModelPs (root : GKind) : Particles → List Particle
  | .nil => []
  | .cons p ps => iterModelP root p ++ iterModelPs root ps
end

def iterModel : Particle → List Particle
  | .group _ k _ _ ps => iterModelPs k ps
  | _ => []

def listMin : List Nat → Nat
  | [] => 0
  | x :: xs => xs.foldl min x
def listMax : List Nat → Nat
  | [] => 0
  | x :: xs => xs.foldl max x

/-- effective (min, max) of a group from the effective ranges of its model items
    (groups.py:212-278) -/
def effOfGroup (k : GKind) (lo : Nat) (hi : Option Nat) (n : Nat) (E : List (Nat × Option Nat)) :
    Nat × Option Nat :=
  let eff := E.filter fun e => e.2 != some 0
  let ne := eff.filter fun e => e.1 != 0
  let mn : Nat :=
    if lo == 0 || n == 0 then 0
    else if eff.isEmpty then 0
    else match k with
      | .choice => lo * listMin (eff.map (·.1))
      | .all => listMax (eff.map (·.1))
      | .seq => match ne with
        | [] => 0
        | [e] => lo * e.1
        | _ => lo
  let anyNone (l : List (Nat × Option Nat)) := l.any fun e => e.2 == none
  let maxOf (l : List (Nat × Option Nat)) := listMax (l.filterMap (·.2))
  let mx : Option Nat :=
    if hi == some 0 || n == 0 then some 0
    else if eff.isEmpty then some 0
    else match hi with
      | none => none
      | some h =>
        if k == .choice then (if anyNone eff then none else some (h * maxOf eff))
        else match ne with
          | [] => if anyNone eff then none else some (h * maxOf eff)
          | [e] => match e.2 with | none => none | some x => some (h * x)
          | _ =>
            if k == .seq then some h
            else if ne.all (fun e => e.2 == none) then none
            else some (listMin (ne.filterMap (·.2)))
  (mn, mx)

mutual
/-- (effective_min_occurs, effective_max_occurs) -/
def eff : Particle → Nat × Option Nat
  | .leaf _ lo hi => (lo, hi)
  | .group _ k lo hi ps => effOfGroup k lo hi (plen ps) (effItems k ps)
/-- effective ranges of the `iter_model` items of a group whose model is `root` -/
def effItems (root : GKind) : Particles → List (Nat × Option Nat)
  | .nil => []
  | .cons (.leaf _ lo hi) ps => (lo, hi) :: effItems root ps
  | .cons (.group _ k lo hi qs) ps =>
      (if pointlessG k lo hi (plen qs) root then effItems root qs
       else [effOfGroup k lo hi (plen qs) (effItems k qs)]) ++ effItems root ps
end

/-! ### occurrence checks of groups -/

/-- `XsdGroup.has_occurs_restriction` against an element/wildcard particle (groups.py:288-322).
    `none` = the Python code raises (`min()` of an empty sequence cannot happen: `not self` is
    tested before). -/
def groupOccursVsLeaf (k : GKind) (lo : Nat) (hi : Option Nat) (items : List Particle)
    (olo : Nat) (ohi : Option Nat) : Bool :=
  let mins := items.map (·.lo)
  let smin := if k == .choice then listMin mins else mins.foldl (· + ·) 0
  if hi == none || items.any (fun e => e.hi == none) then
    if ohi != none then false else lo * smin ≥ olo
  else if lo * smin < olo then false
  else match ohi with
    | none => true
    | some oh =>
      let maxs := items.filterMap (·.hi)
      let smax := if k == .choice then listMax maxs else maxs.foldl (· + ·) 0
      hi.getD 0 * smax ≤ oh

/-- `has_occurs_restriction` with a group as `self` (1.0: groups.py:280-286; 1.1: groups.py:1310-1329) -/
def groupHasOccurs (v11 : Bool) (self other : Particle) : Bool :=
  match self with
  | .group _ k lo hi ps =>
    if !other.isGroup then
      (match ps with | .nil => true | _ => groupOccursVsLeaf k lo hi (plist ps) other.lo other.hi)
    else if (match ps with | .nil => true | _ => false) then true
    else if !v11 then hasOccursRestriction lo hi other.lo other.hi
    else
      let es := eff self
      let eo := eff other
      if es.1 < eo.1 then false
      else match es.2 with
        | some 0 => true
        | none => eo.2 == none
        | some x => match eo.2 with
          | none => true            -- TypeError branch
          | some y => x ≤ y
  | _ => false

/-! ### name matching -/

/-- `other.is_matching(item.name)` as used by the rules: `other` an element (name or substitute), a
    wildcard (namespace / notQName; XSD 1.1 `##defined` excludes names of global declarations), or a
    group (`XsdComponent.is_matching`: equality of the names, both `None` for a local group or a
    wildcard item; named groups and references to them carry the name of the global group). -/
def nameOf (C : Ctx) (p : Particle) : Option QN :=
  match p with
  | .leaf (.elem _ names) _ _ => names.head?
  | .leaf (.any ..) _ _ => none
  | .group i _ _ _ _ => (C.of i).gname

def isMatching (C : Ctx) (other item : Particle) : Bool :=
  match other with
  | .leaf (.elem _ names) _ _ => match nameOf C item with | none => false | some q => names.contains q
  | .leaf (.any _ w) _ _ =>
      match nameOf C item with
      | none => false
      | some q =>
        if C.v11 then allows w (fun _ => (C.of item.pid).isGlobal) (fun _ => false) q
        else nsAllowed w q.ns
  | .group j _ _ _ _ => nameOf C item == (C.of j).gname

/-- wildcard `other.is_matching(self.name, …)` for a *declared* element particle `i`
    (XSD 1.1: `##defined` excludes names of global declarations). -/
def wcMatchesElem (C : Ctx) (w : Wc) (i : Nat) (q : QN) : Bool :=
  if C.v11 then allows w (fun _ => (C.of i).isGlobal) (fun _ => false) q else nsAllowed w q.ns

/-! ### leaf rules -/

abbrev Rec := Particle → Particle → Bool → Except Err Bool

/-- `XsdAnyElement.is_restriction` (wildcards.py:214-267 with `_has_occurs_restriction` of :491) -/
def anyRestr (C : Ctx) (self other : Particle) (co : Bool) : Bool :=
  match self, other with
  | .leaf (.any i w) lo hi, .leaf (.any j ow) olo ohi =>
    if co && !((!C.repaired && hi == some 0) || hasOccursRestriction lo hi olo ohi) then false
    else isRestriction w ow (C.of i).pc (C.of j).pc
  | _, _ => false

/-- the name clause of `XsdElement.is_restriction` for an element base (elements.py:1140-1157) -/
def elemNameOk (C : Ctx) (i : Nat) (names : List QN) (hi : Option Nat)
    (j : Nat) (onames : List QN) (olo : Nat) (ohi : Option Nat) : Bool :=
  let s := C.of i
  let o := C.of j
  let name := names.head?
  let oname := onames.head?
  if name != oname then
    if oname == s.substGroup && oname.isSome && some olo != ohi && hi != some 0 && !o.abstract && !C.v11
    then false
    else match name with | none => false | some q => o.subs.contains q
  else true

/-- the declaration clauses (type, fixed, nillable, block, identities; elements.py:1163-1175) -/
def elemDeclOk (C : Ctx) (i : Nat) (names : List QN) (j : Nat) (onames : List QN) : Bool :=
  let s := C.of i
  let o := C.of j
  if names.head? == onames.head? && s.typeId != o.typeId && !C.derivOk.contains (s.typeId, o.typeId)
      && !o.typeAbstract then false
  else if o.fixed.isSome && (s.fixed.isNone || s.fixed != o.fixed) then false
  else if !o.nillable && s.nillable then false
  else if o.block.any (fun v => !s.block.contains v) then false
  else if !s.idents.all (fun k => o.idents.contains k) then false
  else true

/-- the clauses of `XsdElement.is_restriction` for an element base (elements.py:1139-1175) -/
def elemElemRestr (C : Ctx) (i : Nat) (names : List QN) (lo : Nat) (hi : Option Nat)
    (j : Nat) (onames : List QN) (olo : Nat) (ohi : Option Nat) (co : Bool) : Bool :=
  if !elemNameOk C i names hi j onames olo ohi then false
  else if co && !hasOccursRestriction lo hi olo ohi then false
  else if hi == some 0 && co then true
  else elemDeclOk C i names j onames

/-- `XsdElement.is_restriction` (elements.py:1128-1203) -/
def elemRestr (C : Ctx) (rec : Rec) (self other : Particle) (co : Bool) : Except Err Bool :=
  match self with
  | .leaf (.elem i names) lo hi =>
    match other with
    | .leaf (.any _ w) olo ohi =>
      if lo == 0 && hi == some 0 then pure (!C.repaired || !co || olo == 0)
      else if co && !hasOccursRestriction lo hi olo ohi then pure false
      else match names.head? with
        | none => pure false
        | some q => pure (wcMatchesElem C w i q)
    | .leaf (.elem j onames) olo ohi => pure (elemElemRestr C i names lo hi j onames olo ohi co)
    | .group g .choice olo ohi ps =>
      let otherEmpty := !(C.of g).mixed && ((match ps with | .nil => true | _ => false) || ohi == some 0)
      if otherEmpty && hi != some 0 then pure false
      else
        let rec loop : List Particle → Except Err Bool
          | [] => pure false
          | e :: es =>
            if e.isGroup then pure false
            else do
              if !(← rec self e (!C.v11)) then loop es
              else
                -- `total_occurs` is reset after every matching branch that fails the test below
                -- (elements.py:1226): the range is computed from this branch alone
                let tot := occMul (occAdd (0, some 0) e.lo e.hi) olo ohi
                if hasOccursRestriction lo hi tot.1 tot.2 then pure true else loop es
        loop (iterModel other)
    | .group _ _ _ _ _ =>
      let rec loopS (matched : Bool) : List Particle → Except Err Bool
        | [] => pure true
        | e :: es =>
          if matched then (if !emptiable e then pure false else loopS true es)
          else do
            if (← rec self e true) then loopS true es
            else if !emptiable e then pure false
            else loopS false es
      loopS false (iterModel other)
  | _ => pure false

/-! ### group rules shared by both versions -/

/-- `e.is_substitute(other)` (elements.py:1242-1244; `False` for wildcards and groups) -/
def isSubstitute (C : Ctx) (e other : Particle) : Bool :=
  match e, other with
  | .leaf (.elem i _) _ _, .leaf (.elem _ onames) _ _ =>
      !(C.of i).abstract && (C.of i).substGroup.isSome && (C.of i).substGroup == onames.head?
  | _, _ => false

/-- `XsdGroup.is_element_restriction` (groups.py:707-741) -/
def elementRestriction (C : Ctx) (rec : Rec) (self other : Particle) : Except Err Bool :=
  let oi := C.of other.pid
  if !C.v11 && other.isElem && !oi.refTruthy && !oi.isHead then pure false
  else if !groupHasOccurs C.v11 self other then pure false
  else if self.kind == .choice then do
    if self.items.all (isSubstitute C · other) then return true
    self.items.anyM fun e => rec e other false
  else
    let rec loop (mn : Nat) (mx : Option Nat) : List Particle → Except Err Bool
      | [] =>
        pure (if mn < other.lo then false
              else match mx with
                | none => other.hi == none
                | some x => match other.hi with | none => true | some y => x ≤ y)
      | item :: rest =>
        if item.isGroup then pure false
        else do
          if item.lo == 0 || (← rec item other false) then
            loop (mn + item.lo) (match mx, item.hi with | some x, some y => some (x + y) | _, _ => none) rest
          else pure false
    loop 0 (some 0) (iterModel self)

/-- remove the first particle with the given id (`list.remove(item)`, identity equality) -/
def removeId (i : Nat) : List Particle → List Particle
  | [] => []
  | p :: ps => if p.pid == i then ps else p :: removeId i ps

/-- first item `x` of `items` with `other_item is x or x.is_restriction(other_item, co)` -/
def findRestr (rec : Rec) (o : Particle) (co : Bool) : List Particle → Except Err (Option Particle)
  | [] => pure none
  | x :: xs => do
    if x.pid == o.pid || (← rec x o co) then return some x
    findRestr rec o co xs

/-- the closing arithmetic of both `is_choice_restriction` versions (groups.py:831-848, 1525-1542) -/
def choiceTail (selfHi otherHi : Option Nat) (mx omx : Option Nat) : Bool :=
  let fin (omx : Nat) : Bool :=
    match mx with
    | none => selfHi == some 0
    | some m => match selfHi with
      | none => m == 0
      | some sh => omx ≥ m * sh
  match omx with
  | none => if otherHi != some 0 then true else fin 0
  | some om => match otherHi with
    | none => if om != 0 then true else fin 0
    | some oh => fin (om * oh)

/-! ### XSD 1.0 group rules -/

/-- the double loop of `is_sequence_restriction` (groups.py:749-771): returns the base items
    that were not consumed, `none` when the rule answers `False`. -/
def seqLoop10 (C : Ctx) (rec : Rec) (otherChoice allZero co : Bool) :
    List Particle → List Particle → Except Err (Option (List Particle))
  | [], others => pure (some others)
  | item :: items, others =>
    let rec find : List Particle → Except Err (Option (List Particle))
      | [] => pure none
      | o :: os => do
        if o.pid == item.pid || (← rec item o co) then return some os
        else if otherChoice then
          if item.hi != some 0 then find os
          else if !isMatching C o item then find os
          else if allZero then return none
          else return some os
        else if !emptiable o then return none
        else find os
    do match (← find others) with
      | none => return none
      | some rest => seqLoop10 C rec otherChoice allZero co items rest

/-- `XsdGroup.is_sequence_restriction` (groups.py:743-772) -/
def sequenceRestriction10 (C : Ctx) (rec : Rec) (self other : Particle) : Except Err Bool := do
  if !groupHasOccurs false self other then return false
  let co := other.hi != some 0
  let items := iterModel self
  let otherChoice := other.kind == .choice
  match (← seqLoop10 C rec otherChoice (items.all fun e => e.hi == some 0) co items (iterModel other)) with
  | none => return false
  | some rest => return (otherChoice || rest.all emptiable)

/-- `restriction_items` of the XSD 1.0 all/choice rules: `list(self)` or `list(self[0])` -/
def restrItems10 (C : Ctx) (self : Particle) : List Particle :=
  if (C.of self.pid).gref then (match self.items with | x :: _ => x.items | [] => []) else self.items

/-- `XsdGroup.is_all_restriction` (groups.py:774-795) -/
def allRestriction10 (C : Ctx) (rec : Rec) (self other : Particle) : Except Err Bool := do
  if !groupHasOccurs false self other then return false
  let co := other.hi != some 0
  let rec loop (items : List Particle) : List Particle → Except Err Bool
    | [] => pure items.isEmpty
    | o :: os => do
      match (← findRestr rec o co items) with
      | some x => loop (removeId x.pid items) os
      | none => if !emptiable o then pure false else loop items os
  loop (restrItems10 C self) (iterModel other)

/-- `XsdGroup.is_choice_restriction` (groups.py:797-848) -/
def choiceRestriction10 (C : Ctx) (rec : Rec) (self other : Particle) : Except Err Bool := do
  let si := C.of self.pid
  let oi := C.of other.pid
  if !si.gref && !si.hasParent && oi.hasParent then return false
  if si.gref && oi.hasParent then return false
  let co := other.hi != some 0
  let rec loop (items : List Particle) (mx omx : Option Nat) :
      List Particle → Except Err (List Particle × Option Nat × Option Nat)
    | [] => pure (items, mx, omx)
    | o :: os => do
      match (← findRestr rec o co items) with
      | some x =>
        let mx' := match mx, x.hi with | some a, some b => some (a + b) | _, _ => none
        let omx' := match omx, o.hi with | some a, some b => some (max a b) | _, _ => none
        loop (removeId x.pid items) mx' omx' os
      | none => loop items mx omx os
  let (items, mx, omx) ← loop (restrItems10 C self) (some 0) (some 0) (iterModel other)
  if !items.isEmpty then return false
  return choiceTail self.hi other.hi mx omx

/-- the part of `is_restriction` common to both versions (groups.py:681-697 = 1287-1303):
    `none` = fall through to the model-specific rules -/
def restrPrelude (C : Ctx) (rec : Rec) (self other : Particle) (co : Bool) :
    Except Err (Option Bool) := do
  if self.items.isEmpty then return some (!C.repaired || !co || emptiable other)
  if !other.isGroup then return some (← elementRestriction C rec self other)
  if other.items.isEmpty then return some false
  match other.items with
  | [o0] =>
    if other.lo == 1 && other.hi == some 1 then
      if self.items.length > 1 then return some (← rec self o0 co)
      match self.items with
      | s0 :: _ =>
        if !(C.of self.pid).gref && s0.isGroup && pointless s0 self.kind then
          return some (← rec s0 o0 co)
        return none
      | [] => return none
    return none
  | _ => return none

/-- `XsdGroup.is_restriction` (groups.py:679-705) -/
def groupRestr10 (C : Ctx) (rec : Rec) (self other : Particle) (co : Bool) : Except Err Bool := do
  match (← restrPrelude C rec self other co) with
  | some b => return b
  | none =>
    let si := C.of self.pid
    let big := self.items.length > 1 ||
      (si.gref && (match self.items with | x :: _ => x.items.length > 1 | [] => false))
    if self.kind != other.kind && self.kind != .seq && big then return false
    if self.kind == other.kind || other.kind == .seq then sequenceRestriction10 C rec self other
    else if other.kind == .all then allRestriction10 C rec self other
    else choiceRestriction10 C rec self other

/-! ### XSD 1.1 group rules -/

/-- one pass of `is_sequence_restriction` (groups.py:1336-1346 / 1349-1359): `true` = the pass
    returns `True` -/
def seqPass11 (rec : Rec) (co : Bool) : List Particle → List Particle → Except Err Bool
  | items, [] => pure items.isEmpty
  | items, o :: os => do
    match items with
    | item :: rest =>
      if (← rec item o co) then seqPass11 rec co rest os
      else if !emptiable o then pure false
      else seqPass11 rec co items os
    | [] => if !emptiable o then pure false else seqPass11 rec co [] os

/-- `Xsd11Group.is_sequence_restriction` (groups.py:1330-1370) -/
def sequenceRestriction11 (rec : Rec) (self other : Particle) : Except Err Bool := do
  if !groupHasOccurs true self other then return false
  let co := other.hi != some 0
  let others := iterModel other
  if (← seqPass11 rec co (iterModel self) others) then return true
  if (← seqPass11 rec co self.items others) then return true
  let rec third : List Particle → Except Err Bool
    | [] => pure false
    | o :: os => do
      if (← rec self o co) then pure (os.all emptiable)
      else if !emptiable o then pure false
      else third os
  third others

/-- the base items of `is_all_restriction` extended with the wildcard unions
    (groups.py:1377-1393); copies get fresh ids above `fresh`. -/
def extendWildcards (C : Ctx) (fresh : Nat) (base : List Particle) : List Particle :=
  -- `wildcards` : (copy, number of times it was extended)
  let step (acc : List (Particle × Nat)) (w1 : Particle) : List (Particle × Nat) :=
    match w1 with
    | .leaf (.any i w) lo hi =>
      let rec upd : List (Particle × Nat) → Option (List (Particle × Nat))
        | [] => none
        | (c, n) :: cs =>
          match c with
          | .leaf (.any ci cw) clo chi =>
            if (C.of i).pc == (C.of ci).pc && lo == clo && hi == chi then
              some ((.leaf (.any ci ((union true cw w).getD cw)) clo chi, n + 1) :: cs)
            else (upd cs).map ((c, n) :: ·)
          | _ => (upd cs).map ((c, n) :: ·)
      match upd acc with
      | some acc' => acc'
      | none => acc ++ [(.leaf (.any i w) lo hi, 0)]
    | _ => acc
  let ws := base.foldl step []
  -- `extended` lists the (finally mutated) copy once per extension, in extension order; the order
  -- among different copies is irrelevant for the rule only when at most one copy is extended, which
  -- the driver reports otherwise
  let ext := ws.flatMap fun (c, n) =>
    match c with
    | .leaf (.any ci cw) clo chi => List.replicate n (.leaf (.any (fresh + ci) cw) clo chi)
    | _ => []
  base ++ ext

/-- number of copies that were extended (the port is exact for ≤ 1) -/
def extendedCopies (C : Ctx) (base : List Particle) : Nat :=
  ((extendWildcards C 0 base).length - base.length)

/-- inner reversed scan of `is_all_restriction` (groups.py:1400-1415 / 1441-1463) for one base
    item: returns (remaining restriction items, min_occurs, broke). -/
def allScan (rec : Rec) (o : Particle) (choiceMode : Bool) (skipRemoval : Bool) :
    List Particle → List Particle → Nat → Option Nat →
      Except Err (List Particle × Nat × Bool)
  | [], keep, mn, _ => pure (keep, mn, false)
  | item :: revRest, keep, mn, mx => do
    -- `revRest` = the not yet visited items in reversed order; `keep` = already visited survivors
    if (← rec item o false) then
      let ok : Option (Nat × Option Nat) :=
        match mx with
        | none => some (mn + item.lo, none)
        | some m => match item.hi with
          | none => none
          | some ih => if m < ih || mn + item.lo > m then none else some (mn + item.lo, some (m - ih))
      match ok with
      | none => allScan rec o choiceMode skipRemoval revRest (item :: keep) mn mx
      | some (mn', mx') =>
        if choiceMode && skipRemoval then
          allScan rec o choiceMode skipRemoval revRest (item :: keep) mn' mx'
        else if mn' == 0 || mx' == some 0 then pure (revRest.reverse ++ keep, mn', true)
        else allScan rec o choiceMode skipRemoval revRest keep mn' mx'
    else allScan rec o choiceMode skipRemoval revRest (item :: keep) mn mx

/-- `Xsd11Group.is_all_restriction` (groups.py:1372-1488) -/
def allRestriction11 (C : Ctx) (rec : Rec) (self other : Particle) : Except Err Bool := do
  let items0 := iterModel self
  let base0 := iterModel other
  let base := extendWildcards C 1000000 base0
  if self.kind != .choice then
    let rwild := items0.filter (·.isAny)
    let rec loop (items : List Particle) : List Particle → Except Err Bool
      | [] => pure items.isEmpty
      | o :: os => do
        let (items', mn, broke) ← allScan rec o false false items.reverse [] 0 o.hi
        if !broke && self.kind == .all && !rwild.isEmpty && !o.isGroup &&
            (o.isElem && !(C.of o.pid).typeIsAny) &&
            rwild.any (fun w => isMatching C w o) then
          return false
        if mn < o.lo then return false
        loop items' os
    loop items0 base
  else
    let notEmptiable := base.filter fun x => x.lo != 0
    -- after a `break` the Python code continues with the items that were left at that moment
    let rec loopLeft (items : List Particle) : List Particle → Except Err (List Particle)
      | [] => pure items
      | o :: os => do
        let skip := !notEmptiable.isEmpty &&
          (notEmptiable.length > 1 || !(notEmptiable.any fun x => x.pid == o.pid))
        let (items', mn, _) ← allScan rec o true skip items.reverse [] 0 o.hi
        if mn < o.lo then return items'
        loopLeft items' os
    let left ← loopLeft items0 base
    if left.any (fun x => !x.isGroup) then return false
    for g in left do
      if !(← rec g other true) then return false
      for item in notEmptiable do
        if !(g.items.any fun e => nameOf C e == nameOf C item) then return false
    return true

/-- `Xsd11Group.is_choice_restriction` (groups.py:1490-1542) -/
def choiceRestriction11 (C : Ctx) (rec : Rec) (self other : Particle) : Except Err Bool := do
  let items0 := iterModel self
  let hasNotEmpty := items0.any fun e => e.hi != some 0
  let co := other.hi != some 0
  -- inner `for item in restriction_items`: `some (some x)` = matched x (update and remove),
  -- `some none` = `break` without a match is impossible: the Python `break` of the
  -- `has_not_empty_item` branch leaves the loop with `item` bound, and that item is removed
  let rec inner (o : Particle) : List Particle → Except Err (Option (Option (Particle × Bool)))
    | [] => pure (some none)
    | x :: xs => do
      if x.pid == o.pid || (← rec x o co) then return some (some (x, true))
      else if x.hi != some 0 then inner o xs
      else if !isMatching C o x then inner o xs
      else if hasNotEmpty then return some (some (x, false))
      else return none
  let rec loop (items : List Particle) (mx omx : Option Nat) :
      List Particle → Except Err (Option (List Particle × Option Nat × Option Nat))
    | [] => pure (some (items, mx, omx))
    | o :: os => do
      match (← inner o items) with
      | none => return none
      | some none => loop items mx omx os
      | some (some (x, true)) =>
        let e := (eff x).2
        let mx' := match mx with
          | none => none
          | some a => match e with
            | none => none
            | some b => if self.kind == .choice then some (max a b) else some (a + b)
        let omx' := match omx, (eff o).2 with | some a, some b => some (max a b) | _, _ => none
        loop (removeId x.pid items) mx' omx' os
      | some (some (x, false)) => loop (removeId x.pid items) mx omx os
  match (← loop items0 (some 0) (some 0) (iterModel other)) with
  | none => return false
  | some (items, mx, omx) =>
    if !items.isEmpty then return false
    return choiceTail self.hi other.hi mx omx

/-- `Xsd11Group.is_restriction` (groups.py:1287-1308) -/
def groupRestr11 (C : Ctx) (rec : Rec) (self other : Particle) (co : Bool) : Except Err Bool := do
  match (← restrPrelude C rec self other co) with
  | some b => return b
  | none =>
    match other.kind with
    | .seq => sequenceRestriction11 rec self other
    | .all => allRestriction11 C rec self other
    | .choice => choiceRestriction11 C rec self other

/-! ### the recursion -/

/-- `x.is_restriction(other, check_occurs)` for any particle `x` -/
def isRestr (C : Ctx) : Nat → Particle → Particle → Bool → Except Err Bool
  | 0, _, _, _ => throw .fuel
  | n + 1, self, other, co =>
    match self with
    | .leaf (.elem ..) _ _ => elemRestr C (isRestr C n) self other co
    | .leaf (.any ..) _ _ => pure (anyRestr C self other co)
    | .group .. =>
      if C.v11 then groupRestr11 C (isRestr C n) self other co
      else groupRestr10 C (isRestr C n) self other co

mutual
def psize : Particle → Nat
  | .leaf .. => 1
  | .group _ _ _ _ ps => pssize ps + 1
def pssize : Particles → Nat
  | .nil => 0
  | .cons p ps => psize p + pssize ps
end

/-- the verdict of the post-build check `xsd_type.content.is_restriction(base_type.content)`
    (xsd_globals.py:660-662); fuel = a bound on the recursion depth that suffices for every call
    chain (each nested call strictly shrinks `self` or `other`). -/
def contentRestriction (C : Ctx) (d b : Particle) : Except Err Bool :=
  isRestr C (2 * (psize d + psize b) + 4) d b true

/-- `base_type.content.admits_restriction(content.model)` (groups.py:663-671, 1279-1285), the
    parse-time test of complex_types.py:377 -/
def admitsRestriction (C : Ctx) (b : Particle) (model : GKind) : Bool :=
  let n := if (C.of b.pid).gref then
      (match b.items with
       | x :: _ => if x.items.isEmpty then b.items.length else x.items.length
       | [] => 0)
    else b.items.length
  if b.kind == model then true
  else match b.kind with
    | .all => C.v11 || model == .seq
    | .choice => model == .seq || n ≤ 1
    | .seq => model == .choice || n ≤ 1

/-- `XsdGroup.is_empty` (groups.py:676) -/
def groupIsEmpty (C : Ctx) (g : Particle) : Bool :=
  !(C.of g.pid).mixed && (g.items.isEmpty || g.hi == some 0)

/-- M: the schema-level verdict on a complex-content restriction: the derived type is accepted iff
    none of the three restriction errors is raised (complex_types.py:377-380, 392-394 and
    xsd_globals.py:660-662). -/
def typeRestrictionAccepted (C : Ctx) (d b : Particle) : Except Err Bool := do
  let r ← contentRestriction C d b
  return admitsRestriction C b d.kind && !(groupIsEmpty C b && !groupIsEmpty C d) && r

/-! ### XSD 1.1 open content -/

/-- `XsdOpenContent` as built: the mode and the wildcard (`any_element`, with its particle id) -/
structure OC where
  mode : OpenMode
  any : Option (Nat × Wc) := none
  deriving Repr, Inhabited

/-- `XsdOpenContent.is_restriction` (wildcards.py:934-940); the wildcards of an open content carry the
    default occurrences {1,1} (the element xs:any under xs:openContent has no occurrence attributes) -/
def ocRestriction (C : Ctx) (self : OC) (other : Option OC) : Bool :=
  match other with
  | none => self.mode == .none
  | some o =>
    if o.mode == .none then self.mode == .none
    else match self.any with
      | none => false
      | some (i, w) =>
        if self.mode == .interleave && o.mode == .suffix then false
        else match o.any with
          | some (j, ow) => anyRestr C (.leaf (.any i w) 1 (some 1)) (.leaf (.any j ow) 1 (some 1)) true
          | none => false

/-- the open-content clause of the complex-content restriction (complex_types.py:402-405); the pinned
    code checks it only when the derived content group has items (finding C14-F7) -/
def ocAccepted (C : Ctx) (d : Particle) (ocd ocb : Option OC) : Bool :=
  match ocd with
  | none => true
  | some o => (!C.repairedOC && d.items.isEmpty) || ocRestriction C o ocb

/-- the language of a type: its content model under its open content -/
def typeRx (p : Particle) (oc : Option OC) : Rx Leaf :=
  match oc with
  | some ⟨mode, some (i, w)⟩ => withOpen mode (.any i w) p.toRx
  | _ => p.toRx

/-- the rule answered `True` (neither `False` nor an error value) -/
def okTrue : Except Err Bool → Bool
  | .ok true => true
  | _ => false

end XsVerif.Restr
