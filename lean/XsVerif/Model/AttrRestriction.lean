/-
  C14, layer M (attributes): port of the checks that `XsdAttributeGroup._parse` makes on the attribute
  uses and the attribute wildcard of a complex type derived by restriction, and of the attribute group
  the derived type ends up with.

    attributes.py:508-565   "Check and copy base attributes": every attribute the restriction declares
                            against the base type's attributes (undeclared name → must be admitted by the
                            base wildcard; wildcard → `is_restriction` of the base wildcard (C16);
                            type derivation; use; fixed)
    attributes.py:567-611   the resulting `_attribute_group`: base attributes, overridden / extended by
                            the declared ones; a base wildcard that the restriction does not repeat is
                            replaced by a copy that admits no namespace

  Validation of an attribute set against a group is the finished C03 model
  (`XsVerif.Attributes.errors`, port of `XsdAttributeGroup.raw_decode`); the wildcard operations are the
  C16 model (`XsVerif.Wildcard`).  Both are imported, not copied.
  The model is the code as it is NOW (C14-F1 fixed: a prohibited base attribute cannot be re-admitted);
  `anyExempt = true` is the pinned exemption of xs:anySimpleType from the type-derivation clause
  (finding C14-F4), `false` the repaired rule (notes/fixes/C14-anysimpletype-attribute-exemption.patch:
  only `use="prohibited"` redeclarations are exempt).
  No Mathlib import.
-/
import XsVerif.Model.Attributes

namespace XsVerif.AttrRestr
open XsVerif.Wildcard XsVerif.Attributes

/-- what the check reads from the schema besides the two groups -/
structure RCtx where
  /-- `attr.type.is_derived(base_attr.type, 'restriction')` -/
  tyDerived : Nat → Nat → Bool
  /-- `attr.type.name == xs:anySimpleType` -/
  tyIsAnySimple : Nat → Bool
  /-- `type.normalize(fixed)` -/
  norm : Nat → String → String
  /-- the exemption of xs:anySimpleType in attributes.py:540-542 (pinned: true) -/
  anyExempt : Bool := true

inductive RErr where
  | unexpected (n : QN)        -- "Unexpected attribute {!r} in restriction"
  | unexpectedWildcard         -- the same message for the key None (no base wildcard)
  | wildcard                   -- "Attribute wildcard is not a restriction of the base wildcard"
  | type (n : QN)              -- "Attribute type is not a restriction of the base attribute type"
  | use (n : QN)               -- "Attribute {!r}: unmatched attribute use in restriction"
  | fixed (n : QN)             -- "Attribute {!r}: derived attribute has a different fixed value"
  deriving DecidableEq, Repr, Inhabited

/-- `wildcard is None or not wildcard.is_matching(name)` -/
def baseAdmits (env : Env) (B : Group) (n : QN) : Bool :=
  match B.any with
  | some w => anyMatches env w n
  | none => false

/-- the declarations that the type-derivation clause does not look at (attributes.py:540-542):
    pinned code: those of type xs:anySimpleType; repaired code: the prohibited ones -/
def typeExempt (R : RCtx) (d : Decl) : Bool :=
  if R.anyExempt then R.tyIsAnySimple d.ty else d.use == .prohibited

/-- the clauses for an attribute that the base type declares too (attributes.py:537-561) -/
def declErrsR (R : RCtx) (env : Env) (B : Group) (d b : Decl) : List RErr :=
  (if !(typeExempt R d) && !R.tyDerived d.ty b.ty then [RErr.type d.name] else []) ++
  (if (b.use != .optional && d.use == .optional) || (b.use == .required && d.use != .required) then
     [RErr.use d.name]
   else if b.use == .prohibited && d.use != .prohibited && !baseAdmits env B d.name then
     [RErr.unexpected d.name]
   else []) ++
  (match b.fixed with
   | some bf =>
     (match d.fixed with
      | some df => if R.norm d.ty df != R.norm b.ty bf then [RErr.fixed d.name] else []
      | none => [RErr.fixed d.name])
   | none => [])

/-- the loop over the attributes the restriction declares (attributes.py:511-561) -/
def checkDecl (R : RCtx) (env : Env) (B : Group) (d : Decl) : List RErr :=
  match lookup B.decls d.name with
  | none => if baseAdmits env B d.name then [] else [RErr.unexpected d.name]
  | some b => declErrsR R env B d b

/-- the wildcard entry of the loop (key `None`, attributes.py:512-535) -/
def checkAny (B D : Group) : List RErr :=
  match D.any with
  | none => []
  | some w =>
    match B.any with
    | none => [RErr.unexpectedWildcard]
    | some bw => if isRestriction w.wc bw.wc w.pc bw.pc then [] else [RErr.wildcard]

/-- every restriction error the build reports for the declared group `D` against the base group `B` -/
def check (R : RCtx) (env : Env) (B D : Group) : List RErr :=
  D.decls.flatMap (checkDecl R env B) ++ checkAny B D

def accepted (R : RCtx) (env : Env) (B D : Group) : Bool := (check R env B D).isEmpty

/-- `dict.update` on the ordered attribute dict: declared attributes replace the base ones in place,
    new names are appended -/
def updateDecls (base : List Decl) : List Decl → List Decl
  | [] => base
  | d :: ds =>
    updateDecls (if (lookup base d.name).isSome then base.map (fun b => if b.name == d.name then d else b)
                 else base ++ [d]) ds

/-- a wildcard that admits no namespace (attributes.py:606-611) -/
def emptied (a : AnyAttr) : AnyAttr :=
  { a with wc := { a.wc with ns := .set [], notNs := [], notQ := [], notDefined := false, notSibling := false } }

/-- the attribute group of the derived type (attributes.py:567-611) -/
def merged (B D : Group) : Group :=
  { decls := updateDecls B.decls D.decls,
    any := match D.any with
      | some w => some w
      | none => B.any.map emptied }

/-- validity of an attribute set (lax validation, no error collected) -/
def validFor (s : Sem) (env : Env) (o : Opts) (G : Group) (A : List Attr) : Bool :=
  (errors s env o G A).isEmpty

/-! ### the guards of `attr_restriction_sound_partial` (decidable; evaluated by the driver too) -/

/-- the wildcard of the derived type admits `n` -/
def mergedAdmits (env : Env) (B D : Group) (n : QN) : Bool :=
  match (merged B D).any with
  | some w => anyMatches env w n
  | none => false

/-- guard 1 (C14-F4): no declared attribute that can occur relies on the exemption from the
    type-derivation clause -/
def noAnyExempt (R : RCtx) (D : Group) : Bool :=
  D.decls.all fun d => d.use == .prohibited || !typeExempt R d

/-- guard 2 (C14-F2): an attribute that the restriction prohibits and the base type declares (not
    prohibited) is not admitted by the derived type's wildcard -/
def noProhibitedThroughWildcard (env : Env) (B D : Group) : Bool :=
  D.decls.all fun d =>
    !(d.use == .prohibited && (match lookup B.decls d.name with
        | some b => b.use != .prohibited | none => false) && mergedAdmits env B D d.name)

/-- guard 3 (C14-F5): an attribute that the restriction declares and that the base type admits through
    its wildcard only is not assessed by the base wildcard (skip, or lax without a global declaration) -/
def wildcardDoesNotAssess (env : Env) (B D : Group) : Bool :=
  D.decls.all fun d =>
    d.use == .prohibited ||
    (match lookup B.decls d.name with | some b => b.use != .prohibited | none => false) ||
    (match B.any with
     | some bw => bw.pc == .skip ||
         (bw.pc == .lax && (!env.loaded.contains d.name.ns || (lookup env.globals d.name).isNone))
     | none => true)

/-- the two facts of `TypeSem` (Lemmas/AttrRestriction.lean) checked on the attributes that both groups
    declare and on a finite list of values: what the driver can observe of the hypothesis `hsem` for
    the pair at hand -/
def typeSemOn (R : RCtx) (s : Sem) (B D : Group) (vals : List String) : Bool :=
  D.decls.all fun d =>
    match lookup B.decls d.name with
    | none => true
    | some b =>
      !R.tyDerived d.ty b.ty ||
      vals.all fun v =>
        (!s.validT d.ty v || s.validT b.ty v) &&
        (match d.fixed, b.fixed with
         | some df, some bf =>
           !(R.norm d.ty df == R.norm b.ty bf) || !s.validT d.ty v ||
           !(v == df || s.valueEq d.ty v df) || (v == bf || s.valueEq b.ty v bf)
         | _, _ => true)

end XsVerif.AttrRestr
