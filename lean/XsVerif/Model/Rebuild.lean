/-
  C09 — "building twice": the registries of XsdGlobals that live BESIDE the six staged global maps, and
  what `clear()` / `build()` do to them.

  Port of (file:line of /repo/xmlschema):
    validators/xsd_globals.py:506-538  XsdGlobals.clear      (global maps, substitution_groups, identities,
                                                              cache, cached properties of the schemas)
    validators/xsd_globals.py:540-578  XsdGlobals.build      (clear, then load + build of every owned schema)
    validators/builders.py:432-436     StagedMap.load        (a name that is still in `_store` is refused:
                                                              "global xs:… is already built")
    validators/elements.py:341-361     identity registration (first registration of a name wins; the same
                                                              XSD node again is silently accepted; another
                                                              node → "duplicated identity constraint")
    validators/elements.py:411-416     substitution_groups[head].add(member)
    validators/identities.py:286-311   XsdKeyref.build       (`refer` is searched among the constraints of the
                                                              keyref's own element first, then in maps.identities)
    validators/elements.py:641-645, 873-887; identities.py:403-412
                                       validation counters are keyed by the identity OBJECT: the key declared
                                       on the element under validation fills the counter of the current
                                       object, the keyref reads the counter of the object it is bound to
                                       (a counter that nobody filled is created empty)
    validators/schemas.py:718-758, 838-841  cached views of a schema (components, root_elements, …), dropped
                                       by schema.clear()

  Objects are abstracted to (what they were built from, GENERATION): the generation is the number of the
  build that created the object.  Component constructors are deterministic functions of the declarations
  and of the looked-up components (Model/Staged.lean), so two objects built from the same declaration in the
  same generation are the same object; an object of an older generation that survives a `clear()` is a
  different object bound to the components of its own generation.   No Mathlib.
-/
namespace XsVerif.Rebuild

abbrev Name := String

/-- What one build asks of the registries, in the order the constructors issue the requests. -/
inductive Req where
  | glob (name : Name)                 -- a declared global: loaded, built, stored under its name
  | ident (name : Name) (node : Name)  -- xs:key/xs:unique/xs:keyref `name` declared at XSD node `node`
  | subst (head member : Name)         -- global element `member` with substitutionGroup = `head`
  deriving DecidableEq, Repr

structure Entry where
  node : Name
  gen : Nat
  deriving DecidableEq, Repr

/-- The part of an XsdGlobals that a build writes to (dicts as insertion ordered association lists). -/
structure Maps where
  store : List (Name × Nat)                  -- the six `_store` dicts: name ↦ generation of the component
  idents : List (Name × Entry)               -- maps.identities
  subst : List (Name × List (Name × Nat))    -- maps.substitution_groups: head ↦ set of member objects
  views : Option Nat                         -- cached views of the schemas: generation they were computed from
  errors : List Name                         -- parse errors of the current build
  deriving Repr

def empty : Maps := ⟨[], [], [], none, []⟩

/-- Which containers a (hypothetical) `clear()` leaves alone.  The code of /repo is `faithful`. -/
structure Keep where
  store : Bool
  idents : Bool
  subst : Bool
  views : Bool
  deriving Repr

def faithful : Keep := ⟨false, false, false, false⟩

/-- `XsdGlobals.clear` (xsd_globals.py:506-538); the errors of the previous build are not carried over
    (they belong to the components that are dropped). -/
def clear (k : Keep) (m : Maps) : Maps :=
  { store := if k.store then m.store else [],
    idents := if k.idents then m.idents else [],
    subst := if k.subst then m.subst else [],
    views := if k.views then m.views else none,
    errors := [] }

/-- `set.add` on the members of one head -/
def addMember (l : List (Name × List (Name × Nat))) (head : Name) (x : Name × Nat) :
    List (Name × List (Name × Nat)) :=
  match l with
  | [] => [(head, [x])]
  | (h, ms) :: rest =>
    if h = head then (h, if x ∈ ms then ms else ms ++ [x]) :: rest
    else (h, ms) :: addMember rest head x

/-- one request of generation `g` -/
def step (g : Nat) (m : Maps) : Req → Maps
  | .glob n =>
    match m.store.lookup n with
    | some _ => { m with errors := m.errors ++ [n] }          -- "is already built" (builders.py:433-436)
    | none => { m with store := m.store ++ [(n, g)] }
  | .ident n node =>
    match m.idents.lookup n with
    | some e => if e.node = node then m else { m with errors := m.errors ++ [n] }
    | none => { m with idents := m.idents ++ [(n, ⟨node, g⟩)] }
  | .subst h x => { m with subst := addMember m.subst h (x, g) }

def build (g : Nat) (reqs : List Req) (m : Maps) : Maps := reqs.foldl (step g) m

/-- reading a cached view of a schema: computed from the current components unless a value is cached -/
def touch (g : Nat) (m : Maps) : Maps :=
  match m.views with
  | some _ => m
  | none => { m with views := some g }

/-- `clear()` followed by `build()` (generation `g`), then the caller reads the views -/
def rebuild (k : Keep) (g : Nat) (reqs : List Req) (m : Maps) : Maps := touch g (build g reqs (clear k m))

/-- a history of builds of one maps object; the i-th build creates the objects of generation `g + i` -/
def runFrom (k : Keep) : Nat → Maps → List (List Req) → Maps
  | _, m, [] => m
  | g, m, r :: rs => runFrom k (g + 1) (rebuild k g r m) rs

def run (k : Keep) (hist : List (List Req)) : Maps := runFrom k 0 empty hist

/-- `XsdKeyref.build`: generation of the key/unique object the keyref is bound to (`none` = missing) -/
def resolve (own : Bool) (g : Nat) (m : Maps) (refer : Name) : Option Nat :=
  if own then some g else (m.idents.lookup refer).map (·.gen)

/-- the "value … not found" errors of a keyref bound to the object of generation `bound`, on an element of
    the current generation `cur` whose key collected `keys`: a stale object's counter is never filled -/
def notFound (bound cur : Nat) (keys refs : List String) : List String :=
  if bound = cur then refs.filter (fun r => !keys.contains r) else refs

/-- object `x` is in the member set registered for `head` -/
def MemberOf (l : List (Name × List (Name × Nat))) (head : Name) (x : Name × Nat) : Prop :=
  ∃ ms, (head, ms) ∈ l ∧ x ∈ ms

/-! ### components shared between constructors (findings C09-F1, C09-F2)

  The staged build of Model/Staged.lean abstracts constructors as PURE functions of the looked-up components.
  Two places of /repo where the outcome depends on something else:

  * attributes.py:486-488, 523-530 — a type that refers to an attribute group keeps the group's xs:anyAttribute
    OBJECT; an extension then unions the base type's wildcard INTO that object (`inPlace`).  Another user of the
    group that computes its complete wildcard while it is built reads whatever the object holds at that moment.
    The repair (`copied`, notes/fixes/C09-attribute-wildcard-extension-copy.patch) unions into a copy.
  * wildcards.py:880-886 — `##defined` asks whether the global attribute was declared by the same DOCUMENT
    (`definedDoc`); the repair asks for the same target namespace (`definedNs`). -/

/-- builds that touch one shared group wildcard, in build order -/
inductive Act where
  | ext (base : List String)     -- an extension of a type whose wildcard admits `base`, referring to the group
  | other                        -- a type that refers to the group and snapshots its wildcard
  deriving DecidableEq, Repr

structure Shared where
  ag : List String               -- namespaces admitted by the group's wildcard object
  snaps : List (List String)     -- complete wildcards computed by the `other` users so far
  deriving DecidableEq, Repr

def unionNs (a b : List String) : List String := a ++ b.filter (fun x => !a.contains x)

def inPlace (s : Shared) : Act → Shared
  | .ext b => { s with ag := unionNs s.ag b }
  | .other => { s with snaps := s.snaps ++ [s.ag] }

def copied (s : Shared) : Act → Shared
  | .ext _ => s                                    -- the union goes into the extension's own copy
  | .other => { s with snaps := s.snaps ++ [s.ag] }

/-! #### the general form: constructors that read and (should not) write a component that is already built

  Every constructor that refers to a built component may read it (snapshot it into its own complete wildcard)
  and — if it is not pure — leave something else in it.  The harness fingerprints every global component when
  its constructor returns and again at the end of the build and after validation: that is the hypothesis
  `PureCtor` checked on the real objects.  (wildcards.py:411-416, the `##other` × explicit-list branch of
  `intersection`: the receiver must get a COPY of the other list; seed C09-3 aliased it, so that the following
  `discard(target namespace)`, `discard('')` narrowed the other wildcard: `aliasedInter`.) -/

structure Ctor where
  write : List String → List String      -- what the constructor leaves in the shared object
  read : Bool                             -- does it snapshot the shared object for its own use?

def runCtor (s : Shared) (c : Ctor) : Shared :=
  let s' : Shared := if c.read then { s with snaps := s.snaps ++ [s.ag] } else s
  { s' with ag := c.write s'.ag }

def PureCtor (c : Ctor) : Prop := ∀ l, c.write l = l

/-- `##other` ∩ list with the list ALIASED: the shared list loses the target namespace and the absent one -/
def aliasedInter (tns : String) : Ctor := ⟨fun l => l.filter (fun x => x != tns && x != ""), false⟩
/-- a user of the group that snapshots its wildcard (`##any` ∩ list = the list) -/
def reader : Ctor := ⟨id, true⟩

/-! #### XPath machinery: one parser / token per component (assertions.py:84-121)

  `XsdAssert.build` creates a parser bound to the assertion of ITS complex type (schema proxy with that base
  element, `$value` type, namespaces) and parses the test with it.  A build-time cache of parsed tests (seed C09-5)
  hands the parser of another component out whenever the cache key does not determine the component.  `bindAll`
  processes the assertions in build order with a cache keyed by `key`; the result says, for every assertion, the
  component whose typing its parser carries. -/

def bindOne (key : String → String → String) (st : List (String × String) × List (String × String))
    (a : String × String) : List (String × String) × List (String × String) :=
  match st.1.lookup (key a.1 a.2) with
  | some owner => (st.1, st.2 ++ [(a.1, owner)])
  | none => (st.1 ++ [(key a.1 a.2, a.1)], st.2 ++ [(a.1, a.1)])

/-- `asserts` = (component, test text) in build order ↦ (component, component its parser is bound to) -/
def bindAll (key : String → String → String) (asserts : List (String × String)) : List (String × String) :=
  (asserts.foldl (bindOne key) ([], [])).2

/-- `##defined` as /repo decides it: the declaration exists and lives in the wildcard's document -/
def definedDoc (declared : Name → Bool) (docOf : Name → Nat) (wdoc : Nat) (n : Name) : Bool :=
  declared n && docOf n == wdoc

/-- repaired: the declaration exists in a document of the wildcard's namespace (every included document) -/
def definedNs (declared : Name → Bool) (nsOf : Name → Name) (wns : Name) (n : Name) : Bool :=
  declared n && nsOf n == wns

end XsVerif.Rebuild
