/-
  Model of the part of the validating descent whose events depend on VALUE CONSTRAINTS
  (default / fixed) and on DOCUMENT-LEVEL state (property C04).

  Ported code (the one code path that every entry point runs, whether it only validates —
  `ValidationContext`, `validation_only` — or also builds data — `DecodeContext`):

    XsdAttributeGroup.iter_value_constraints     attributes.py:644-657
    XsdAttributeGroup.raw_decode                 attributes.py:666-749
        missing required attributes                  673-675
        value constraints of the missing attributes  677-683   (`effective`)
        fresh `id_list`                              685-687  (XSD 1.0; XSD 1.1: elements.py:699-702)
        per attribute: lookup / XSI / not allowed / prohibited      694-724
    XsdAttribute.raw_decode (fixed value)        attributes.py:256-262
    XsdElement.raw_decode, simple content        elements.py:773-788  (fixed / default text)
    XsdAtomicBuiltin.raw_decode, post-decoding   simple_types.py:742-783  (QName prefix, IDREF, ID)
    XsdList.raw_decode (xs:IDREFS)               simple_types.py:990-996
    XMLSchemaBase._validate_references           schemas.py:1402-1408

  `validation_only` occurs in the ported lines only at attributes.py:692/728 (whether a result list
  is built): it does not select the attributes that are processed.  The model therefore has no such
  parameter, and the harness compares the *same* prediction with the run of `iter_errors` and with
  the run of `iter_decode`.

  Scope (checked by the harness before a document is sent): no attribute wildcards, values are
  whitespace-normalised and lexically valid for their type, value-constrained `plain` types compare
  as strings, ID-typed values occur in attributes only (so the `id_list` of an element is exactly the
  list of its own attribute group).

  The two string functions (`toks`: split of a list value, `pfx`: prefix of a QName) are parameters:
  the theorems hold for every choice; the driver instantiates them with `String.splitOn`.

  No Mathlib import: linked into the native driver `drv_c04`.
-/
namespace XsVerif.AttrDefaults

inductive Use where
  | optional | required | prohibited
  deriving DecidableEq, Repr, Inhabited

/-- what the post-decoding step of the attribute's / element's simple type does (simple_types.py:696):
    nothing, xs:ID, xs:IDREF, list of xs:IDREF, xs:QName -/
inductive Kind where
  | plain | id | idref | idrefs | qname
  deriving DecidableEq, Repr, Inhabited

/-- an attribute use of an attribute group (`self._attribute_group[name]`) -/
structure Decl where
  name : String
  use : Use
  fixed : Option String
  dflt : Option String
  kind : Kind
  deriving Repr, DecidableEq

/-- `obj`: the attributes of the instance element, in document order -/
abbrev Attrs := List (String × String)

/-- value constraint of the simple content of an element declaration -/
structure TextDecl where
  fixed : Option String
  dflt : Option String
  kind : Kind
  deriving Repr, DecidableEq

structure Elem where
  /-- attribute group of the type the element is validated with (after xsi:type) -/
  decls : List Decl
  attrs : Attrs
  /-- simple content: declaration and the text of the instance ("" when empty) -/
  text : Option (TextDecl × String)
  deriving Repr

/-- error events of the modelled classes (everything else is filtered out by the harness) -/
inductive Ev where
  | missing (name : String)          -- "missing required attribute"
  | notAllowed (name : String)       -- "attribute not allowed for element"
  | notXsi (name : String)           -- "is not an attribute of the XSI namespace"
  | prohibited (name : String)       -- "use of attribute is prohibited"
  | fixedMismatch (name : String)    -- attribute ("" = element text) differs from its fixed value
  | unmapped (pfx : String)          -- "unmapped prefix in a QName"
  | dupId (v : String)               -- "duplicated xs:ID value"
  | multiId                          -- "no more than one attribute of type ID" (XSD 1.0)
  | dangling (v : String)            -- "IDREF not found in XML document"
  deriving DecidableEq, Repr

/-! ### which attributes are processed -/

def hasKey (k : String) (a : Attrs) : Bool := a.any (·.1 == k)

/-- `iter_value_constraints(use_defaults)` (attributes.py:644-657) -/
def valueConstraints (useDefaults : Bool) : List Decl → Attrs
  | [] => []
  | d :: ds =>
    let rest := valueConstraints useDefaults ds
    if d.use = .prohibited then rest
    else match d.fixed with
      | some f => (d.name, f) :: rest
      | none =>
        match d.dflt with
        | some v => if useDefaults then (d.name, v) :: rest else rest
        | none => rest

/-- attributes.py:677-683: the instance attributes followed by the value constraints of the
    attributes that the instance omits (`dict.update` keeps the order). -/
def effective (useDefaults : Bool) (ds : List Decl) (obj : Attrs) : Attrs :=
  obj ++ (valueConstraints useDefaults ds).filter (fun kv => !hasKey kv.1 obj)

/-- the behaviour that is NOT in the code (kept for the counter-example theorem): value constraints
    of missing attributes are not processed -/
def effectiveIgnoringConstraints (_useDefaults : Bool) (_ds : List Decl) (obj : Attrs) : Attrs := obj

/-! ### actions: the descent flattened to what touches the document-level state -/

inductive Act where
  | ev (e : Ev)
  /-- a new attribute group starts: `context.id_list = []` -/
  | reset
  /-- post-decoding of a value by a type of the given kind -/
  | post (k : Kind) (v : String)
  deriving Repr, DecidableEq

def lookup (n : String) (ds : List Decl) : Option Decl := ds.find? (·.name == n)

def xsiPrefix : String := "{http://www.w3.org/2001/XMLSchema-instance}"

/-- XsdAttribute.raw_decode for a present value (attributes.py:256-267) -/
def declActs (d : Decl) (v : String) : List Act :=
  (match d.fixed with
   | some f => if v ≠ f then [Act.ev (.fixedMismatch d.name)] else []
   | none => []) ++ [Act.post d.kind v]

/-- one iteration of the loop attributes.py:703-754 (no wildcard in the group).  `inj`: the pair was injected
    from a value constraint (the instance omits the attribute); an injected xs:QName literal belongs to the
    schema and is decoded with `'skip'` (attributes.py:745-751): no post-decoding, no event. -/
def attrActs (isXsi : String → Bool) (xsi ds : List Decl) (inj : Bool) (nv : String × String) : List Act :=
  match lookup nv.1 ds with
  | none =>
    if isXsi nv.1 then
      match lookup nv.1 xsi with
      | some d => declActs d nv.2
      | none => [.ev (.notXsi nv.1)]
    else [.ev (.notAllowed nv.1)]
  | some d =>
    (if d.use = .prohibited then [Act.ev (.prohibited nv.1)] else []) ++
      (if inj = true ∧ d.kind = .qname then [] else declActs d nv.2)

def missingActs (ds : List Decl) (obj : Attrs) : List Act :=
  (ds.filter (fun d => d.use = .required && !hasKey d.name obj)).map (fun d => .ev (.missing d.name))

/-- XsdAttributeGroup.raw_decode, parameterised by the function that selects the processed attributes -/
def groupActsWith (eff : Bool → List Decl → Attrs → Attrs) (isXsi : String → Bool) (ud : Bool)
    (xsi ds : List Decl) (obj : Attrs) : List Act :=
  missingActs ds obj ++ Act.reset ::
    (eff ud ds obj).flatMap (fun nv => attrActs isXsi xsi ds (!hasKey nv.1 obj) nv)

/-- elements.py:773-788 followed by the decoding of the text -/
def textActs (ud : Bool) (td : TextDecl) (text : String) : List Act :=
  match td.fixed with
  | some f =>
    if text = "" then [.post td.kind f]
    else if text = f then [.post td.kind text]
    else [.ev (.fixedMismatch ""), .post td.kind text]
  | none =>
    match td.dflt with
    | some v => if text = "" ∧ ud = true then [.post td.kind v] else [.post td.kind text]
    | none => [.post td.kind text]

def elemActsWith (eff : Bool → List Decl → Attrs → Attrs) (isXsi : String → Bool) (ud : Bool)
    (xsi : List Decl) (e : Elem) : List Act :=
  groupActsWith eff isXsi ud xsi e.decls e.attrs ++
    (match e.text with
     | some (td, t) => textActs ud td t
     | none => [])

def docActsWith (eff : Bool → List Decl → Attrs → Attrs) (isXsi : String → Bool) (ud : Bool)
    (xsi : List Decl) (doc : List Elem) : List Act :=
  doc.flatMap (elemActsWith eff isXsi ud xsi)

/-! ### the document-level state -/

/-- `context.id_map` (a Counter whose values are 0 or 1) as the insertion order of its keys and the
    keys whose value is 1; `context.id_list`. -/
structure St where
  order : List String
  defined : List String
  idList : List String
  deriving Repr, DecidableEq

def St.init : St := ⟨[], [], []⟩

/-- `if obj not in context.id_map: context.id_map[obj] = 0` (simple_types.py:763-765) -/
def regRef (st : St) (v : String) : St :=
  if v ∈ st.order then st else { st with order := st.order ++ [v] }

/-- simple_types.py:766-783 with `context.id_list` a list (attribute of an element) -/
def regId (v11 : Bool) (st : St) (v : String) : St × List Ev :=
  if v ∉ st.defined then
    let st' : St := { order := if v ∈ st.order then st.order else st.order ++ [v],
                      defined := v :: st.defined, idList := st.idList ++ [v] }
    (st', if st'.idList.length > 1 ∧ v11 = false then [.multiId] else [])
  else if v ∉ st.idList ∨ v11 = false then (st, [.dupId v])
  else (st, [])

def postStep (toks : String → List String) (pfx : String → Option String) (ns : List String)
    (v11 : Bool) (st : St) (k : Kind) (v : String) : St × List Ev :=
  match k with
  | .plain => (st, [])
  | .idref => (regRef st v, [])
  | .idrefs => ((toks v).foldl regRef st, [])
  | .id => regId v11 st v
  | .qname =>
    match pfx v with
    | some p => if p ∈ ns then (st, []) else (st, [.unmapped p])
    | none => (st, [])

def exec (toks : String → List String) (pfx : String → Option String) (ns : List String)
    (v11 : Bool) : St → List Act → St × List Ev
  | st, [] => (st, [])
  | st, .ev e :: r => let (s, es) := exec toks pfx ns v11 st r; (s, e :: es)
  | st, .reset :: r => exec toks pfx ns v11 { st with idList := [] } r
  | st, .post k v :: r =>
    let (s1, e1) := postStep toks pfx ns v11 st k v
    let (s2, e2) := exec toks pfx ns v11 s1 r
    (s2, e1 ++ e2)

/-- `_validate_references`: the keys of `id_map` whose value is still 0, in insertion order -/
def danglings (st : St) : List String := st.order.filter (fun k => k ∉ st.defined)

/-- the error events (of the modelled classes) of a lax run over the whole document -/
def runWith (eff : Bool → List Decl → Attrs → Attrs) (toks : String → List String)
    (pfx : String → Option String) (isXsi : String → Bool) (ns : List String) (v11 ud : Bool)
    (xsi : List Decl) (doc : List Elem) : List Ev :=
  let r := exec toks pfx ns v11 St.init (docActsWith eff isXsi ud xsi doc)
  r.2 ++ (danglings r.1).map Ev.dangling

/-- the code as it is -/
def run := runWith effective

/-! ### specification vocabulary -/

def Act.refs (toks : String → List String) : Act → List String
  | .post .idref v => [v]
  | .post .idrefs v => toks v
  | _ => []

def Act.ids : Act → List String
  | .post .id v => [v]
  | _ => []

/-- every IDREF value that the descent decodes, explicit or supplied by a value constraint -/
def refsOf (toks : String → List String) (acts : List Act) : List String := acts.flatMap (Act.refs toks)
/-- every ID value that the descent decodes -/
def idsOf (acts : List Act) : List String := acts.flatMap Act.ids

end XsVerif.AttrDefaults
