/-
  C14 — accepted type restrictions only ever narrow what instances are valid.
  ONLY property theorems and non-vacuity examples live here.

  S  `Incl d b`  : every child sequence of the derived content model is one of the base model.
  O  `inclDecide`: exploration of derivative pairs; both answers are backed by theorems below.
  M  `Restr.*`   : port of the restriction rules of /repo (Model/Restriction.lean).
-/
import XsVerif.Lemmas.Incl
import XsVerif.Model.Restriction
import XsVerif.Props.C16
import XsVerif.Lemmas.Facets
import XsVerif.Lemmas.AttrRestriction

namespace XsVerif.Props.C14
open XsVerif XsVerif.Rx XsVerif.CM XsVerif.Wildcard XsVerif.Restr

/-- S: language inclusion of two content models. -/
def Incl (d b : Particle) : Prop := ∀ w, InModel d w → InModel b w

/-- inclusion on the words over a set of representative names. -/
def InclOn (sig : List QN) (d b : Particle) : Prop :=
  ∀ w : List QN, (∀ c ∈ w, c ∈ sig) → InModel d w → InModel b w

/-! ### O: the inclusion oracle -/

/-- A set of pairs (derivative of d, derivative of b) in which `nullable rd → nullable rb` holds
    and which is closed under simultaneous normalised derivation by every name of `sig` is a
    simulation: inclusion holds for each of its pairs, for words of any length over `sig`. -/
theorem incl_certificate_sound (sig : List QN) (S : List (Rx Leaf × Rx Leaf))
    (h : closedB Leaf.matches sig S = true) (d b : Particle) (hmem : (d.toRx, b.toRx) ∈ S) :
    InclOn sig d b :=
  fun w hw hd => closed_sound Leaf.matches sig S h w hw _ _ hmem hd

/-- `included` is a proof of inclusion (no bound on the word length, any fuel). -/
theorem incl_included_sound (sig : List QN) (fuel : Nat) (d b : Particle)
    (h : inclDecide Leaf.matches sig fuel d.toRx b.toRx = .included) : InclOn sig d b :=
  inclDecide_included Leaf.matches sig fuel _ _ h

/-- a returned witness is a child sequence of the derived model that the base model rejects. -/
theorem incl_witness_sound (sig : List QN) (fuel : Nat) (d b : Particle) (w : List QN)
    (h : inclDecide Leaf.matches sig fuel d.toRx b.toRx = .witness w) :
    InModel d w ∧ ¬ InModel b w :=
  inclDecide_witness Leaf.matches sig fuel _ _ w h

/-! ### the regular operators are monotone (what the pointwise rules of the code rely on) -/

section
variable {L σ : Type} (m : L → σ → Bool)

/-- `has_occurs_restriction` (particles.py:128-138) implies inclusion of the repetitions, for any
    body — including the `maxOccurs=0` clause. -/
theorem occurs_restriction_sound (x : Rx L) (lo : Nat) (hi : Option Nat) (olo : Nat) (ohi : Option Nat)
    (h : hasOccursRestriction lo hi olo ohi = true) :
    ∀ w, Lang m (.rep x lo hi) w → Lang m (.rep x olo ohi) w := by
  unfold hasOccursRestriction at h
  split at h
  · cases h
  · rename_i hlo
    apply rep_mono_range m (Nat.le_of_not_lt hlo)
    intro n hn
    split at h
    · rename_i h0
      have : hi = some 0 := by simpa using h0
      subst this
      simp only [leHi] at hn
      cases ohi <;> simp only [leHi]; omega
    · cases ohi with
      | none => trivial
      | some oh =>
        cases hi with
        | none => simp at h
        | some hh => simp only [leHi] at *; simp at h; omega

theorem rep_body_monotone {x y : Rx L} (lo : Nat) (hi : Option Nat)
    (h : ∀ w, Lang m x w → Lang m y w) : ∀ w, Lang m (.rep x lo hi) w → Lang m (.rep y lo hi) w :=
  rep_mono_body m lo hi h

theorem cat_monotone {r r' s s' : Rx L} (hr : ∀ w, Lang m r w → Lang m r' w)
    (hs : ∀ w, Lang m s w → Lang m s' w) : ∀ w, Lang m (.cat r s) w → Lang m (.cat r' s') w :=
  cat_mono m hr hs

theorem alt_monotone {r r' s s' : Rx L} (hr : ∀ w, Lang m r w → Lang m r' w)
    (hs : ∀ w, Lang m s w → Lang m s' w) : ∀ w, Lang m (.alt r s) w → Lang m (.alt r' s') w :=
  alt_mono m hr hs

theorem shuffle_monotone {r r' s s' : Rx L} (hr : ∀ w, Lang m r w → Lang m r' w)
    (hs : ∀ w, Lang m s w → Lang m s' w) :
    ∀ w, Lang m (.shuffle r s) w → Lang m (.shuffle r' s') w :=
  shuffle_mono m hr hs

theorem shuffle_commutative (r s : Rx L) (w : List σ) :
    Lang m (.shuffle r s) w ↔ Lang m (.shuffle s r) w :=
  shuffle_comm m r s w
end

/-! ### M, leaf level: the rules for two leaf particles imply inclusion -/

def qa : QN := ⟨"urn:t", "a"⟩
def qb : QN := ⟨"urn:t", "b"⟩
def qc : QN := ⟨"urn:t", "c"⟩
def el (i : Nat) (q : QN) (lo : Nat) (hi : Option Nat) : Particle := .leaf (.elem i [q]) lo hi
def grp (i : Nat) (k : GKind) (lo : Nat) (hi : Option Nat) (l : List Particle) : Particle :=
  .group i k lo hi (l.foldr Particles.cons .nil)
def C10 : Ctx := { v11 := false, info := #[] }
def C11 : Ctx := { v11 := true, info := #[] }


/-- `okTrue` (used where a statement has to be decidable) is the same as `= .ok true` -/
theorem okTrue_iff (x : Except Err Bool) : okTrue x = true ↔ x = .ok true := by
  cases x with
  | error e => simp [okTrue]
  | ok b => cases b <;> simp [okTrue]

theorem leaf_inModel_iff (l : Leaf) (lo : Nat) (hi : Option Nat) (w : List QN) :
    InModel (.leaf l lo hi) w ↔ lo ≤ w.length ∧ leHi w.length hi ∧ ∀ c ∈ w, l.matches c = true := by
  unfold InModel
  simp only [Particle.toRx]
  exact rep_sym_iff Leaf.matches l lo hi w

theorem occurs_counts {lo olo : Nat} {hi ohi : Option Nat}
    (h : hasOccursRestriction lo hi olo ohi = true) {n : Nat} (h1 : lo ≤ n) (h2 : leHi n hi) :
    olo ≤ n ∧ leHi n ohi := by
  have := occurs_restriction_sound (fun (_ : Unit) (_ : Unit) => true) (.sym ()) lo hi olo ohi h
    (List.replicate n ())
  rw [rep_sym_iff, rep_sym_iff] at this
  simpa using this ⟨by simpa using h1, by simpa using h2, by simp⟩

/-- Element against element (elements.py:1139-1175): when the rule accepts with the occurrence
    check on, every child sequence of the derived particle is one of the base particle.
    `hsub` is the one fact about the schema the rule takes for granted: substitution groups are
    transitively closed (a member's substitutes are substitutes of the head). -/
theorem elem_restriction_sound (C : Ctx) (i j : Nat) (names onames : List QN) (lo olo : Nat)
    (hi ohi : Option Nat)
    (hsub : (names.head? = onames.head? ∨ ∃ q, names.head? = some q ∧ q ∈ (C.of j).subs) →
      ∀ q ∈ names, q ∈ onames)
    (h : elemElemRestr C i names lo hi j onames olo ohi true = true) :
    Incl (.leaf (.elem i names) lo hi) (.leaf (.elem j onames) olo ohi) := by
  intro w
  rw [leaf_inModel_iff, leaf_inModel_iff]
  rintro ⟨h1, h2, h3⟩
  have hname : elemNameOk C i names hi j onames olo ohi = true := by
    cases hh : elemNameOk C i names hi j onames olo ohi <;> simp [elemElemRestr, hh] at h ⊢
  have hocc : hasOccursRestriction lo hi olo ohi = true := by
    cases hh : hasOccursRestriction lo hi olo ohi <;> simp [elemElemRestr, hname, hh] at h ⊢
  obtain ⟨c1, c2⟩ := occurs_counts hocc h1 h2
  refine ⟨c1, c2, ?_⟩
  have hnm : names.head? = onames.head? ∨ ∃ q, names.head? = some q ∧ q ∈ (C.of j).subs := by
    by_cases heq : names.head? = onames.head?
    · exact .inl heq
    · right
      unfold elemNameOk at hname
      simp only [bne_iff_ne, ne_eq, heq, not_false_eq_true, ↓reduceIte] at hname
      split at hname
      · cases hname
      · cases hq : names.head? with
        | none => simp [hq] at hname
        | some q =>
          simp only [hq] at hname
          exact ⟨q, rfl, by simpa using hname⟩
  intro c hc
  have hc' := h3 c hc
  simp only [Leaf.matches, List.contains_iff_mem] at hc' ⊢
  exact hsub hnm c hc'

/-- Wildcard against wildcard (wildcards.py:214-267, 491-493).
    Full statement (false for the pinned code, see `wildcard_zero_counterexample`):
      anyRestr … = true → Incl self other
    Proved under the guard `hi ≠ some 0`, for wildcards of any two target namespaces; names of the xsi
    namespace are excluded as in C16. -/
theorem wildcard_restriction_sound_partial (C : Ctx) (i j : Nat) (w ow : Wc) (lo olo : Nat)
    (hi ohi : Option Nat) (hguard : hi ≠ some 0)
    (h : anyRestr C (.leaf (.any i w) lo hi) (.leaf (.any j ow) olo ohi) true = true) :
    ∀ word : List QN, (∀ q ∈ word, q.ns ≠ xsiNs) →
      InModel (.leaf (.any i w) lo hi) word → InModel (.leaf (.any j ow) olo ohi) word := by
  intro word hx
  rw [leaf_inModel_iff, leaf_inModel_iff]
  rintro ⟨h1, h2, h3⟩
  simp only [anyRestr, Bool.true_and] at h
  split at h
  · cases h
  · rename_i hocc
    have hocc' : hasOccursRestriction lo hi olo ohi = true := by
      cases hh : hasOccursRestriction lo hi olo ohi
      · exfalso; apply hocc
        have : (hi == some 0) = false := by simpa using hguard
        simp [this, hh]
      · rfl
    obtain ⟨c1, c2⟩ := occurs_counts hocc' h1 h2
    refine ⟨c1, c2, ?_⟩
    intro q hq
    have ha := h3 q hq
    simp only [Leaf.matches] at ha ⊢
    have hA : allows w (fun _ => false) (fun _ => false) q = true := by
      simpa [allows, allowsQ] using ha
    have := C16.restriction_sound w ow _ _ h (fun _ => false) (fun _ => false) q (hx q hq) hA
    simpa [allows, allowsQ] using this

def wAny : Wc := { ns := .any, tns := "urn:t" }

/-- The pinned `_has_occurs_restriction` accepts a wildcard with `maxOccurs=0` whatever the base
    requires: `any{0,0}` is accepted as a restriction of `any{1,1}`, but the empty sequence is a word
    of the first only. -/
theorem wildcard_zero_counterexample :
    anyRestr default (.leaf (.any 0 wAny) 0 (some 0)) (.leaf (.any 1 wAny) 1 (some 1)) true = true ∧
    inModel (.leaf (.any 0 wAny) 0 (some 0)) [] = true ∧
    inModel (.leaf (.any 1 wAny) 1 (some 1)) [] = false := by decide


/-- Element against wildcard (elements.py:1132-1138): the rule looks at the element's own name only
    and accepts `maxOccurs=0` elements whatever the wildcard requires.
    Full statement (false, see `elem_wildcard_counterexample`):  elemRestr … = ok true → Incl.
    Proved for elements that can occur and whose substitutes (the tail of `names`) are admitted by the
    wildcard as well. -/
theorem elem_wildcard_restriction_sound_partial (C : Ctx) (rec : Rec) (i j : Nat) (names : List QN)
    (ow : Wc) (lo olo : Nat) (hi ohi : Option Nat)
    (hzero : ¬ (lo = 0 ∧ hi = some 0))
    (hguard : ∀ q ∈ names, names.head? ≠ some q → allowsQ ow q = true)
    (hnq : C.v11 = false → ow.notQ = [])
    (h : elemRestr C rec (.leaf (.elem i names) lo hi) (.leaf (.any j ow) olo ohi) true = .ok true) :
    Incl (.leaf (.elem i names) lo hi) (.leaf (.any j ow) olo ohi) := by
  intro w
  rw [leaf_inModel_iff, leaf_inModel_iff]
  rintro ⟨h1, h2, h3⟩
  simp only [elemRestr, Bool.true_and] at h
  split at h
  · rename_i h0
    simp only [Bool.and_eq_true, beq_iff_eq] at h0
    exact absurd h0 hzero
  · split at h
    · cases h
    · rename_i hocc
      have hocc' : hasOccursRestriction lo hi olo ohi = true := by
        cases hh : hasOccursRestriction lo hi olo ohi <;> simp_all
      obtain ⟨c1, c2⟩ := occurs_counts hocc' h1 h2
      refine ⟨c1, c2, ?_⟩
      intro c hc
      have hc' := h3 c hc
      simp only [Leaf.matches, List.contains_iff_mem] at hc' ⊢
      cases hq : names.head? with
      | none => simp [hq, pure, Except.pure] at h
      | some q =>
        simp only [hq, pure, Except.pure, Except.ok.injEq] at h
        by_cases hcq : c = q
        · subst hcq
          unfold wcMatchesElem at h
          split at h
          · simp only [allows, Bool.and_eq_true] at h
            simp only [allowsQ, Bool.and_eq_true]
            exact ⟨h.1.1.1, h.2⟩
          · rename_i hv
            -- XSD 1.0 wildcards have no notQName
            simp [allowsQ, h, hnq (by simpa using hv)]
        · exact hguard c hc' (by rw [hq]; intro he; exact hcq (Option.some.inj he).symm)

def qh : QN := ⟨"urn:t", "h"⟩
def qm : QN := ⟨"urn:o", "m"⟩
def wT : Wc := { ns := .set ["urn:t"], tns := "urn:t" }

/-- The head `t:h` of a substitution group with a member `o:m` of a foreign namespace is accepted as a
    restriction of `<xs:any namespace="urn:t"/>` (only the element's own name is tested), but the child
    `o:m` is valid for the derived particle only.  Reproduced on the real code (both versions). -/
theorem elem_wildcard_counterexample :
    okTrue (elemRestr C10 (fun _ _ _ => .ok false) (.leaf (.elem 0 [qh, qm]) 1 (some 1))
      (.leaf (.any 1 wT) 1 (some 1)) true) = true ∧
    inModel (.leaf (.elem 0 [qh, qm]) 1 (some 1)) [qm] = true ∧
    inModel (.leaf (.any 1 wT) 1 (some 1)) [qm] = false := by decide

/-- `maxOccurs=0` element against a required wildcard: accepted, but the empty sequence is not a word
    of the base. -/
theorem elem_wildcard_zero_counterexample :
    okTrue (elemRestr C10 (fun _ _ _ => .ok false) (.leaf (.elem 0 [qa]) 0 (some 0))
      (.leaf (.any 1 wT) 1 (some 1)) true) = true ∧
    inModel (.leaf (.elem 0 [qa]) 0 (some 0)) [] = true ∧
    inModel (.leaf (.any 1 wT) 1 (some 1)) [] = false := by decide

/-! ### M, group level: the pinned rules accept restrictions that are not inclusions (C14-F0)

  Full statement (false for the pinned code):
      theorem group_restriction_sound (C : Ctx) (d b : Particle) :
        okTrue (typeRestrictionAccepted C d b) = true → Incl d b
  The three theorems below are concrete refutations (each is replayed on the real code by the
  harness, `WITNESSES` in harness/props/c14.py). -/

/-- XSD 1.0 and 1.1: an empty derived group is accepted as a restriction of any base (`not self._group`,
    groups.py:681): `()` restricts `(a)`, but the empty sequence is valid for the derived type only. -/
theorem restriction_counterexample_empty_group :
    okTrue (typeRestrictionAccepted C10 (grp 0 .seq 1 (some 1) []) (grp 1 .seq 1 (some 1) [el 2 qa 1 (some 1)])) = true ∧
    okTrue (typeRestrictionAccepted C11 (grp 0 .seq 1 (some 1) []) (grp 1 .seq 1 (some 1) [el 2 qa 1 (some 1)])) = true ∧
    inModel (grp 0 .seq 1 (some 1) []) [] = true ∧
    inModel (grp 1 .seq 1 (some 1) [el 2 qa 1 (some 1)]) [] = false := by decide

/-- XSD 1.1: `choice(c{2,3}){1,∞}` restricted to `choice(c{2,3}){0,1}` is accepted (effective occurs
    arithmetic of groups.py:1310-1329 and 1525-1542); the empty sequence is valid for the derived type only. -/
theorem restriction_counterexample_choice11 :
    okTrue (typeRestrictionAccepted C11 (grp 0 .choice 0 (some 1) [el 1 qc 2 (some 3)])
      (grp 2 .choice 1 none [el 3 qc 2 (some 3)])) = true ∧
    inModel (grp 0 .choice 0 (some 1) [el 1 qc 2 (some 3)]) [] = true ∧
    inModel (grp 2 .choice 1 none [el 3 qc 2 (some 3)]) [] = false := by decide

/-- XSD 1.0: `(a+|b+)?` restricted to the sequence `(a+,b+)?` is accepted (a sequence whose items map
    to distinct branches of a choice, groups.py:797-848); `ab` is valid for the derived type only. -/
theorem restriction_counterexample_choice_to_sequence :
    okTrue (typeRestrictionAccepted C10
      (grp 0 .seq 0 (some 1) [el 1 qa 1 none, el 2 qb 1 none])
      (grp 3 .choice 0 (some 1) [el 4 qa 1 none, el 5 qb 1 none])) = true ∧
    inModel (grp 0 .seq 0 (some 1) [el 1 qa 1 none, el 2 qb 1 none]) [qa, qb] = true ∧
    inModel (grp 3 .choice 0 (some 1) [el 4 qa 1 none, el 5 qb 1 none]) [qa, qb] = false := by decide

/-! ### M, rule level: the order-preserving pointwise rule is sound when its item rule is -/

/-- concatenation of the languages of a list of particles (the body of a sequence group) -/
def seqRx (l : List Particle) : Rx Leaf := l.foldr (fun p acc => .cat p.toRx acc) .eps

/-- One pass of the XSD 1.1 sequence rule (groups.py:1336-1346): derived items are mapped in order to
    base items, base items that are skipped must be emptiable.  If the item-level rule `rec` is sound
    on the pairs it accepts and `is_emptiable` is right about the skipped base items, every word of the
    derived sequence body is a word of the base sequence body — for any lists, any nesting. -/
theorem sequence_pass_sound (rec : Rec) (co : Bool) (others : List Particle) :
    ∀ (items : List Particle),
    (∀ x ∈ items, ∀ o ∈ others, rec x o co = .ok true → Incl x o) →
    (∀ o ∈ others, emptiable o = true → InModel o []) →
    seqPass11 rec co items others = .ok true →
    ∀ w, Lang Leaf.matches (seqRx items) w → Lang Leaf.matches (seqRx others) w := by
  induction others with
  | nil =>
    intro items _ _ h w hw
    cases items with
    | nil => exact hw
    | cons a t => simp [seqPass11, pure, Except.pure] at h
  | cons o os ih =>
    intro items hrec hemp h w hw
    have skip : ∀ its : List Particle, (∀ x ∈ its, ∀ o' ∈ os, rec x o' co = .ok true → Incl x o') →
        emptiable o = true → seqPass11 rec co its os = .ok true →
        Lang Leaf.matches (seqRx its) w → Lang Leaf.matches (seqRx (o :: os)) w := by
      intro its hr he hp hl
      have := ih its hr (fun o' ho' => hemp o' (by simp [ho'])) hp w hl
      exact ⟨[], w, rfl, hemp o (by simp) he, this⟩
    cases items with
    | nil =>
      simp only [seqPass11] at h
      cases he : emptiable o with
      | false => simp [he, pure, Except.pure] at h
      | true =>
        simp only [he, Bool.not_true, Bool.false_eq_true, ↓reduceIte] at h
        exact skip [] (by simp) he h hw
    | cons item rest =>
      simp only [seqPass11, bind, Except.bind] at h
      cases hr : rec item o co with
      | error e => simp [hr] at h
      | ok r =>
        simp only [hr] at h
        cases r with
        | true =>
          simp only [↓reduceIte] at h
          obtain ⟨u, v, rfl, hu, hv⟩ := hw
          have h1 : Incl item o := hrec item (by simp) o (by simp) hr
          have h2 := ih rest (fun x hx o' ho' => hrec x (by simp [hx]) o' (by simp [ho']))
            (fun o' ho' => hemp o' (by simp [ho'])) h v hv
          exact ⟨u, v, rfl, h1 u hu, h2⟩
        | false =>
          simp only [Bool.false_eq_true, ↓reduceIte] at h
          cases he : emptiable o with
          | false => simp [he, pure, Except.pure] at h
          | true =>
            simp only [he, Bool.not_true, Bool.false_eq_true, ↓reduceIte] at h
            exact skip (item :: rest) (fun x hx o' ho' => hrec x hx o' (by simp [ho'])) he h hw

/-! ### non-vacuity: concrete inputs meeting the hypotheses of the theorems above -/

-- the oracle answers `included` on a genuine restriction and a witness on a widened one
example : inclDecide Leaf.matches [qa, qb] 100 (grp 0 .seq 1 (some 1) [el 1 qa 1 (some 2)]).toRx
    (grp 2 .seq 1 (some 1) [el 3 qa 0 none, el 4 qb 0 (some 1)]).toRx = .included := by decide
example : inclDecide Leaf.matches [qa, qb] 100 (grp 2 .seq 1 (some 1) [el 3 qa 0 none, el 4 qb 0 (some 1)]).toRx
    (grp 0 .seq 1 (some 1) [el 1 qa 1 (some 2)]).toRx = .witness [] := by decide
-- occurrence ranges
example : hasOccursRestriction 2 (some 3) 1 none = true ∧ hasOccursRestriction 1 (some 0) 1 (some 1) = true ∧
    hasOccursRestriction 0 (some 2) 1 (some 2) = false := by decide
-- element rule: `s` (member of the group of `h`) restricting `h{0,2}`
example : elemElemRestr { v11 := false, info := #[{}, { subs := [⟨"urn:t", "s"⟩] }] } 0 [⟨"urn:t", "s"⟩] 1 (some 1)
    1 [qh, ⟨"urn:t", "s"⟩] 0 (some 2) true = true := by decide
-- wildcard rule with a positive maximum
example : anyRestr default (.leaf (.any 0 wT) 1 (some 1)) (.leaf (.any 1 wAny) 0 none) true = true := by decide
-- element against wildcard, no substitutes
example : okTrue (elemRestr C10 (fun _ _ _ => .ok false) (.leaf (.elem 0 [qa]) 1 (some 1))
    (.leaf (.any 1 wT) 0 (some 2)) true) = true := by decide
-- a pass of the sequence rule that skips an emptiable base item
example : okTrue (seqPass11 (isRestr C11 5) true [el 0 qa 1 (some 1)]
    [el 1 qb 0 (some 1), el 2 qa 1 (some 2)]) = true := by decide

/-! ### element against a choice: every matching branch on its own -/

/-- Element against a choice group (elements.py:1213-1227): the loop over the branches answers yes only
    through ONE branch — a leaf branch `e` that the element restricts and whose own occurrence range,
    multiplied by the range of the choice (`OccursCalculator`, reset for every branch), covers the element's
    range.  The ranges of different matching branches are never added up. -/
theorem elem_choice_accepts_through_one_branch (C : Ctx) (rec : Rec) (self : Particle)
    (lo : Nat) (hi : Option Nat) (olo : Nat) (ohi : Option Nat) :
    ∀ (branches : List Particle), elemRestr.loop C rec self lo hi olo ohi branches = .ok true →
    ∃ e ∈ branches, e.isGroup = false ∧ rec self e (!C.v11) = .ok true ∧
      hasOccursRestriction lo hi (occMul (occAdd (0, some 0) e.lo e.hi) olo ohi).1
        (occMul (occAdd (0, some 0) e.lo e.hi) olo ohi).2 = true := by
  intro branches
  induction branches with
  | nil => intro h; simp [elemRestr.loop, pure, Except.pure] at h
  | cons e es ih =>
    intro h
    unfold elemRestr.loop at h
    cases hg : e.isGroup with
    | true => simp [hg, pure, Except.pure] at h
    | false =>
      simp only [hg, Bool.false_eq_true, ↓reduceIte, bind, Except.bind] at h
      cases hr : rec self e (!C.v11) with
      | error x => simp [hr] at h
      | ok r =>
        simp only [hr] at h
        cases r with
        | false =>
          simp only [Bool.not_false, ↓reduceIte] at h
          obtain ⟨e', he', h'⟩ := ih h
          exact ⟨e', by simp [he'], h'⟩
        | true =>
          simp only [Bool.not_true, Bool.false_eq_true, ↓reduceIte] at h
          split at h
          · rename_i hocc
            exact ⟨e, by simp, hg, hr, hocc⟩
          · obtain ⟨e', he', h'⟩ := ih h
            exact ⟨e', by simp [he'], h'⟩

/-- why the calculator is reset: `a{5,5}` against `choice(a{2,2} | any{3,3})` — both branches match `a`,
    neither admits five occurrences, their sum does; the rule refuses (each branch on its own), and
    `a a a a a` is indeed not a word of the base choice. -/
theorem elem_choice_sum_counterexample :
    let base := grp 9 .choice 1 (some 1) [el 1 qa 2 (some 2), .leaf (.any 2 wAny) 3 (some 3)]
    okTrue (elemRestr C11 (isRestr C11 5) (el 0 qa 5 (some 5)) base true) = false ∧
    hasOccursRestriction 5 (some 5) (2 + 3) (some (2 + 3)) = true ∧
    inModel (el 0 qa 5 (some 5)) [qa, qa, qa, qa, qa] = true ∧ inModel base [qa, qa, qa, qa, qa] = false := by
  decide

-- non-vacuity: a{2,2} is accepted through the first branch
example : okTrue (elemRestr C11 (isRestr C11 5) (el 0 qa 2 (some 2))
    (grp 9 .choice 1 (some 1) [el 1 qa 2 (some 2), .leaf (.any 2 wAny) 3 (some 3)]) true) = true := by decide

/-! ### XSD 1.0 sequence rule: the left-over base particles -/

/-- XSD 1.0 order-preserving rule (groups.py:743-772): against a base that is not a choice, the rule answers
    yes only if the base particles LEFT OVER after the last derived item was placed are all emptiable —
    whatever the model of the DERIVED group is (the test is on `other.model`, not on `self.model`). -/
theorem sequence_rule_checks_leftover (C : Ctx) (rec : Rec) (self other : Particle)
    (hk : other.kind ≠ .choice) (h : sequenceRestriction10 C rec self other = .ok true) :
    ∃ rest, seqLoop10 C rec false ((iterModel self).all fun e => e.hi == some 0) (other.hi != some 0)
        (iterModel self) (iterModel other) = .ok (some rest) ∧ rest.all emptiable = true := by
  have hk' : (other.kind == GKind.choice) = false := by simpa using hk
  simp only [sequenceRestriction10, hk', bind, Except.bind, pure, Except.pure] at h
  split at h
  · cases h
  · split at h
    · cases h
    · rename_i r hr
      cases r with
      | none => simp at h
      | some rest =>
        refine ⟨rest, hr, ?_⟩
        simpa using h

/-- a single-branch choice over a base sequence: `choice(a)` is refused as a restriction of
    `sequence(a, b{1,2})` (the required `b` is left over); the child sequence `a` is valid for it only -/
theorem single_branch_choice_over_sequence_refused :
    let d := grp 0 .choice 1 (some 1) [el 1 qa 1 (some 1)]
    let b := grp 2 .seq 1 (some 1) [el 3 qa 1 (some 1), el 4 qb 1 (some 2)]
    okTrue (typeRestrictionAccepted C10 d b) = false ∧ inModel d [qa] = true ∧ inModel b [qa] = false := by
  decide

example : okTrue (typeRestrictionAccepted C10 (grp 0 .choice 1 (some 1) [el 1 qa 1 (some 1)])
    (grp 2 .seq 1 (some 1) [el 3 qa 1 (some 1), el 4 qb 0 (some 2)])) = true := by decide

/-! ### the three repaired clauses of C14-F0 (`Ctx.repaired`) -/

/-- With the repaired zero-occurrence clause (`C.repaired`, notes/fixes/C14-zero-occurs-and-empty-group.patch)
    the wildcard rule is sound without any guard: the full statement of
    `wildcard_restriction_sound_partial`. -/
theorem wildcard_restriction_sound_repaired (C : Ctx) (hrep : C.repaired = true) (i j : Nat) (w ow : Wc)
    (lo olo : Nat) (hi ohi : Option Nat)
    (h : anyRestr C (.leaf (.any i w) lo hi) (.leaf (.any j ow) olo ohi) true = true) :
    ∀ word : List QN, (∀ q ∈ word, q.ns ≠ xsiNs) →
      InModel (.leaf (.any i w) lo hi) word → InModel (.leaf (.any j ow) olo ohi) word := by
  intro word hx
  rw [leaf_inModel_iff, leaf_inModel_iff]
  rintro ⟨h1, h2, h3⟩
  simp only [anyRestr, Bool.true_and, hrep, Bool.not_true, Bool.false_and, Bool.false_or] at h
  split at h
  · cases h
  · rename_i hocc
    have hocc' : hasOccursRestriction lo hi olo ohi = true := by
      cases hh : hasOccursRestriction lo hi olo ohi <;> simp_all
    obtain ⟨c1, c2⟩ := occurs_counts hocc' h1 h2
    refine ⟨c1, c2, ?_⟩
    intro q hq
    have ha := h3 q hq
    simp only [Leaf.matches] at ha ⊢
    have hA : allows w (fun _ => false) (fun _ => false) q = true := by
      simpa [allows, allowsQ] using ha
    have := C16.restriction_sound w ow _ _ h (fun _ => false) (fun _ => false) q (hx q hq) hA
    simpa [allows, allowsQ] using this

/-- Element against wildcard with the repaired zero-occurrence clause: the guard "not {0,0}" of
    `elem_wildcard_restriction_sound_partial` is not needed any more (the guard on substitution-group
    members of foreign namespaces stays: that clause follows XSD). -/
theorem elem_wildcard_restriction_sound_repaired_partial (C : Ctx) (hrep : C.repaired = true) (rec : Rec)
    (i j : Nat) (names : List QN) (ow : Wc) (lo olo : Nat) (hi ohi : Option Nat)
    (hguard : ∀ q ∈ names, names.head? ≠ some q → allowsQ ow q = true)
    (hnq : C.v11 = false → ow.notQ = [])
    (h : elemRestr C rec (.leaf (.elem i names) lo hi) (.leaf (.any j ow) olo ohi) true = .ok true) :
    Incl (.leaf (.elem i names) lo hi) (.leaf (.any j ow) olo ohi) := by
  by_cases hz : lo = 0 ∧ hi = some 0
  · obtain ⟨rfl, rfl⟩ := hz
    intro w
    rw [leaf_inModel_iff, leaf_inModel_iff]
    rintro ⟨_, h2, _⟩
    simp only [elemRestr, hrep, beq_self_eq_true, Bool.and_self, ↓reduceIte, Bool.not_true,
      Bool.false_or, pure, Except.pure, Except.ok.injEq, beq_iff_eq] at h
    have hw : w.length = 0 := by simpa [leHi] using h2
    have : w = [] := List.eq_nil_of_length_eq_zero hw
    subst this
    refine ⟨by simp [h], by cases ohi <;> simp [leHi], by simp⟩
  · exact elem_wildcard_restriction_sound_partial C rec i j names ow lo olo hi ohi hz hguard hnq h

/-- the pinned witnesses are refused by the repaired clauses -/
theorem repaired_clauses_refuse_witnesses :
    anyRestr { (default : Ctx) with repaired := true } (.leaf (.any 0 wAny) 0 (some 0)) (.leaf (.any 1 wAny) 1 (some 1)) true = false ∧
    okTrue (elemRestr { C10 with repaired := true } (fun _ _ _ => .ok false) (.leaf (.elem 0 [qa]) 0 (some 0))
      (.leaf (.any 1 wT) 1 (some 1)) true) = false ∧
    okTrue (typeRestrictionAccepted { C10 with repaired := true } (grp 0 .seq 1 (some 1) [])
      (grp 1 .seq 1 (some 1) [el 2 qa 1 (some 1)])) = false ∧
    okTrue (typeRestrictionAccepted { C11 with repaired := true } (grp 0 .seq 1 (some 1) [])
      (grp 1 .seq 1 (some 1) [el 2 qa 1 (some 1)])) = false := by decide

example : anyRestr { (default : Ctx) with repaired := true } (.leaf (.any 0 wAny) 0 (some 0)) (.leaf (.any 1 wAny) 0 (some 1)) true = true := by decide
example : okTrue (elemRestr { C10 with repaired := true } (fun _ _ _ => .ok false) (.leaf (.elem 0 [qa]) 0 (some 0))
    (.leaf (.any 1 wT) 0 (some 1)) true) = true := by decide

/-! ### XSD 1.1 open content (wildcards.py:934-940, complex_types.py:402-405) -/

theorem interleave_append {σ : Type} : ∀ (u v : List σ), Interleave u v (u ++ v)
  | [], [] => .nil
  | [], c :: v => .right c (interleave_append [] v)
  | c :: u, v => .left c (interleave_append u v)

/-- a suffix is an interleaving -/
theorem cat_sub_shuffle {L σ : Type} (m : L → σ → Bool) (r s : Rx L) :
    ∀ w, Lang m (.cat r s) w → Lang m (.shuffle r s) w := by
  rintro w ⟨u, v, rfl, h1, h2⟩
  exact ⟨u, v, interleave_append u v, h1, h2⟩

/-- XSD 1.1 open content (wildcards.py:934-940): when the rule accepts the open content of the derived
    type against the base type's, the content models are included (`hbody`) and the accepted wildcard pair
    is an inclusion on names (`hsym`: C16 `restriction_sound`, as in `wildcard_restriction_sound_partial`),
    every child sequence of the derived type — content model interleaved with / followed by wildcard
    matches — is one of the base type.  The mode clause is what this theorem adds: equal modes, or a suffix
    restricting an interleave, never the converse. -/
theorem open_content_restriction_sound (C : Ctx) (sd : OC) (sb : Option OC)
    (h : ocRestriction C sd sb = true) (d b : Particle)
    (hbody : ∀ u, Lang Leaf.matches d.toRx u → Lang Leaf.matches b.toRx u)
    (hsym : ∀ i w j ow, sd.any = some (i, w) → (∀ o, sb = some o → o.any = some (j, ow)) →
      ∀ q, Leaf.matches (.any i w) q = true → Leaf.matches (.any j ow) q = true) :
    ∀ word, Lang Leaf.matches (typeRx d (some sd)) word → Lang Leaf.matches (typeRx b sb) word := by
  intro word hw
  obtain ⟨md, ad⟩ := sd
  cases sb with
  | none =>
    simp only [ocRestriction, beq_iff_eq] at h
    subst h
    cases ad with
    | none => exact hbody word (by simpa [typeRx] using hw)
    | some p => obtain ⟨i, w⟩ := p; exact hbody word (by simpa [typeRx, withOpen] using hw)
  | some ob =>
    obtain ⟨mb, ab⟩ := ob
    simp only [ocRestriction] at h
    by_cases hbn : mb = .none
    · subst hbn
      simp only [beq_self_eq_true, ↓reduceIte, beq_iff_eq] at h
      subst h
      have : Lang Leaf.matches d.toRx word := by
        cases ad with
        | none => simpa [typeRx] using hw
        | some p => obtain ⟨i, w⟩ := p; simpa [typeRx, withOpen] using hw
      cases ab with
      | none => simpa [typeRx] using hbody word this
      | some p => obtain ⟨j, ow⟩ := p; simpa [typeRx, withOpen] using hbody word this
    · have hbn' : (mb == OpenMode.none) = false := by simpa using hbn
      simp only [hbn', Bool.false_eq_true, ↓reduceIte] at h
      cases ad with
      | none => simp at h
      | some p =>
        obtain ⟨i, w⟩ := p
        simp only at h
        split at h
        · cases h
        · rename_i hmode
          cases ab with
          | none => simp at h
          | some p2 =>
            obtain ⟨j, ow⟩ := p2
            have hs : ∀ u, Lang Leaf.matches (.rep (.sym (Leaf.any i w)) 0 none) u →
                Lang Leaf.matches (.rep (.sym (Leaf.any j ow)) 0 none) u := by
              apply rep_body_monotone
              rintro u ⟨c, rfl, hc⟩
              exact ⟨c, rfl, hsym i w j ow rfl (fun o ho => by cases ho; rfl) c hc⟩
            have heps : Lang Leaf.matches (.rep (.sym (Leaf.any j ow)) 0 none) [] :=
              ⟨[], by simp, by simp, by simp [leHi], by simp⟩
            simp only [typeRx] at hw ⊢
            match md, mb, hmode, hbn with
            | .none, .interleave, _, _ =>
              exact ⟨word, [], by simpa using interleave_append word [], hbody word hw, heps⟩
            | .none, .suffix, _, _ => exact ⟨word, [], by simp, hbody word hw, heps⟩
            | .interleave, .interleave, _, _ => exact shuffle_monotone Leaf.matches hbody hs word hw
            | .suffix, .interleave, _, _ =>
              exact cat_sub_shuffle _ _ _ word (cat_monotone Leaf.matches hbody hs word hw)
            | .suffix, .suffix, _, _ => exact cat_monotone Leaf.matches hbody hs word hw
            | .interleave, .suffix, hm, _ => exact absurd (by decide) hm
            | _, .none, _, hb => exact absurd rfl hb
def wO : Wc := { ns := .set ["urn:o"], tns := "urn:t" }

/-- C14-F7: the pinned clause is not evaluated for a derived type with an empty content group: `()` with an
    interleaved ##any open content is accepted as a restriction of `(a?)` with an interleaved urn:o open
    content (content rule, emptiness test and open-content clause all answer yes); the child `t:b` is valid
    for the derived type only.  The repaired clause (`repairedOC`) refuses the pair. -/
theorem open_content_empty_group_counterexample :
    let d := grp 0 .seq 1 (some 1) []
    let b := grp 1 .seq 1 (some 1) [el 2 qa 0 (some 1)]
    let ocd : Option OC := some ⟨.interleave, some (5, wAny)⟩
    let ocb : Option OC := some ⟨.interleave, some (6, wO)⟩
    okTrue (typeRestrictionAccepted C11 d b) = true ∧ ocAccepted C11 d ocd ocb = true ∧
    ocAccepted { C11 with repairedOC := true } d ocd ocb = false ∧
    Rx.accepts Leaf.matches (typeRx d ocd) [qb] = true ∧ Rx.accepts Leaf.matches (typeRx b ocb) [qb] = false := by
  decide

-- non-vacuity: a suffix open content restricting an interleaved one, a narrower wildcard; refused: the converse
example : ocRestriction C11 ⟨.suffix, some (5, wO)⟩ (some ⟨.interleave, some (6, wAny)⟩) = true ∧
    ocRestriction C11 ⟨.interleave, some (5, wO)⟩ (some ⟨.suffix, some (6, wAny)⟩) = false ∧
    ocRestriction C11 ⟨.interleave, some (5, wAny)⟩ (some ⟨.interleave, some (6, wO)⟩) = false := by decide

set_option linter.unusedSectionVars false

/-! ## Facets: the build checks on a simple-type restriction step (facets.py, simple_types.py:148-289) -/
section Facets
open XsVerif.Facets XsVerif.Datatypes

variable {α : Type} [LE α] [LT α] [DecidableLE α] [DecidableLT α] [DecidableEq α]
  [Std.IsLinearOrder α] [Std.LawfulOrderLT α]

/-- "restricted facets accept a subset of values": when the build reports no error for the restriction
    step `D` of a type with facet chain `C`, every value that satisfies the effective facets of the
    derived type (its own facets overriding the inherited ones, kind by kind — the {facets} of the XSD
    type definition, what `get_facet` reports) satisfies the effective facets of the base type.
    Any linear order of values, any chain length, fixed or not. -/
theorem facet_restriction_narrows (C : Chain α) (D : FSet α) (h : accepts C D = true) :
    ∀ v, validEff (D :: C) v = true → validEff C v = true :=
  eff_narrows C D h

/-- On a type all of whose restriction steps were accepted, the effective facets denote exactly the
    set of values that the implementation's chained validation (`raw_decode`: base type first, then the
    step's validators) accepts: the overriding reading of the schema and the code's reading coincide. -/
theorem facet_effective_iff_chain (C : Chain α) (h : Accepted C) (v : Val α) :
    validEff C v = true ↔ validChain C v = true :=
  eff_iff_chain C h v

/-- What the build stores for an accepted type is what the schema declares: no enumeration value was
    dropped (`stored` keeps only the values the base type accepts, facets.py:631-655), so the theorems
    above, stated on declared steps, speak about the built objects. -/
theorem facet_stored_chain_of_accepted (C : Chain α) (h : Accepted C) : storedChain C = C :=
  storedChain_of_accepted C h

/-- The chained validation narrows by construction, whatever the build checked: a value valid for the
    derived type passed every validator of the base type. -/
theorem facet_derived_valid_base_valid (C : Chain α) (D : FSet α) (v : Val α)
    (h : validChain (D :: C) v = true) : validChain C v = true := by
  simp only [validChain, List.all_cons, Bool.and_eq_true] at h ⊢
  exact h.2

/-- Without the build checks the effective facets of a derived type need not narrow: a step that
    lowers minInclusive is refused, and if it were not, 0 would satisfy the effective facets of the derived
    type only (non-vacuity of `accepts` in `facet_restriction_narrows`). -/
theorem facet_unchecked_widening_counterexample :
    let C : Chain Int := [{ minInc := some ⟨{ ord := 5 }, false⟩ }]
    let D : FSet Int := { minInc := some ⟨{ ord := 0 }, false⟩ }
    accepts C D = false ∧ validEff (D :: C) { ord := 0 } = true ∧ validEff C { ord := 0 } = false := by
  decide

/-- a bound facet of an accepted step is itself a value of the base type (minInclusive / maxInclusive;
    for the exclusive bounds up to an equal exclusive bound of the base) -/
theorem facet_bound_is_base_value (C : Chain α) (D : FSet α) (h : accepts C D = true) :
    (∀ f, D.minInc = some f → validChain C f.v = true) ∧
    (∀ f, D.maxInc = some f → validChain C f.v = true) ∧
    (∀ f, D.minExc = some f → validChainBut C (some f.v.ord) none f.v = true) ∧
    (∀ f, D.maxExc = some f → validChainBut C none (some f.v.ord) f.v = true) ∧
    (∀ l, D.enum = some l → ∀ e ∈ l, validChain C e = true) := by
  rw [Facets.accepts_iff] at h
  obtain ⟨_, _, _, hb, _, he, _, _, _⟩ := h
  refine ⟨fun f hf => bound_minInc C D hb f hf, fun f hf => bound_maxInc C D hb f hf,
    fun f hf => bound_minExc C D hb f hf, fun f hf => bound_maxExc C D hb f hf, ?_⟩
  intro l hl e hm
  simp only [enumErrs, hl, err_nil, Bool.not_eq_false', List.all_eq_true] at he
  exact he e hm

/-- a fixed facet of the base cannot be changed by an accepted step (facets.py:82-85) -/
theorem facet_fixed_preserved (C : Chain α) (D : FSet α) (h : accepts C D = true) :
    (∀ f b, D.length = some f → nearest (·.length) C = some b → b.fixed = true → f.v = b.v) ∧
    (∀ f b, D.minLength = some f → nearest (·.minLength) C = some b → b.fixed = true → f.v = b.v) ∧
    (∀ f b, D.maxLength = some f → nearest (·.maxLength) C = some b → b.fixed = true → f.v = b.v) ∧
    (∀ f b, D.minInc = some f → nearest (·.minInc) C = some b → b.fixed = true → f.v.ord = b.v.ord) ∧
    (∀ f b, D.minExc = some f → nearest (·.minExc) C = some b → b.fixed = true → f.v.ord = b.v.ord) ∧
    (∀ f b, D.maxInc = some f → nearest (·.maxInc) C = some b → b.fixed = true → f.v.ord = b.v.ord) ∧
    (∀ f b, D.maxExc = some f → nearest (·.maxExc) C = some b → b.fixed = true → f.v.ord = b.v.ord) ∧
    (∀ f b, D.totalDigits = some f → nearest (·.totalDigits) C = some b → b.fixed = true → f.v = b.v) ∧
    (∀ f b, D.fractionDigits = some f → nearest (·.fractionDigits) C = some b → b.fixed = true → f.v = b.v) ∧
    (∀ f b, D.ws = some f → nearest (·.ws) C = some b → b.fixed = true → f.v = b.v) := by
  rw [Facets.accepts_iff] at h
  have hf := h.1
  simp only [fixedErrs, List.append_eq_nil_iff] at hf
  obtain ⟨⟨⟨⟨⟨⟨⟨⟨⟨h1, h2⟩, h3⟩, h4⟩, h5⟩, h6⟩, h7⟩, h8⟩, h9⟩, h10⟩ := hf
  refine ⟨?_, ?_, ?_, ?_, ?_, ?_, ?_, ?_, ?_, ?_⟩ <;> intro f b hD hn hfx
  · simpa [fixedErr, hD, hn, err_nil, hfx, neNat] using h1
  · simpa [fixedErr, hD, hn, err_nil, hfx, neNat] using h2
  · simpa [fixedErr, hD, hn, err_nil, hfx, neNat] using h3
  · simpa [fixedErr, hD, hn, err_nil, hfx, neOrd] using h4
  · simpa [fixedErr, hD, hn, err_nil, hfx, neOrd] using h5
  · simpa [fixedErr, hD, hn, err_nil, hfx, neOrd] using h6
  · simpa [fixedErr, hD, hn, err_nil, hfx, neOrd] using h7
  · simpa [fixedErr, hD, hn, err_nil, hfx, neNat] using h8
  · simpa [fixedErr, hD, hn, err_nil, hfx, neNat] using h9
  · simpa [fixedErr, hD, hn, err_nil, hfx, neWs] using h10

/-- whiteSpace can only move along preserve → replace → collapse (facets.py:139-150) -/
theorem facet_whitespace_monotone (C : Chain α) (D : FSet α) (h : accepts C D = true)
    (f b : F Ws) (hD : D.ws = some f) (hn : nearest (·.ws) C = some b) :
    wsRank b.v ≤ wsRank f.v := by
  rw [Facets.accepts_iff] at h
  have hw := h.2.1
  simp only [wsErrs, hD, hn, Option.map_some] at hw
  cases hf : f.v <;> cases hb : b.v <;> simp [hf, hb, wsRank, err] at hw ⊢

/-- Full statement at the lexical level (false for the code, and for XSD itself):
      accepts C D → ∀ text, lexValid (D :: C) text → lexValid C text
    whiteSpace is a pre-lexical facet: a derived type that collapses white space accepts ' abc ' as the
    three-character value 'abc', while its base type (length 3, white space preserved) sees five
    characters.  Replayed on the real code. -/
theorem facet_whitespace_lexical_counterexample :
    let C : Chain Int := [{ length := some ⟨3, false⟩ }, { ws := some ⟨.preserve, false⟩ }]
    let D : FSet Int := { ws := some ⟨.collapse, false⟩ }
    accepts C D = true ∧ lexValid (fun _ => 0) (D :: C) " abc ".toList = true ∧
      lexValid (fun _ => 0) C " abc ".toList = false := by
  decide

/-- lexical level, proved part: on a type whose steps were all accepted, when the step does not change
    the effective white space value, texts valid for the derived type are valid for the base type
    (the text reaching the validators is the one normalised with the type's own value,
    `normChain_eq`: a coarser normalisation after a finer one changes nothing) -/
theorem facet_lexical_narrows_partial (keyOf : Str → Nat) (C : Chain Int) (D : FSet Int)
    (hacc : Accepted (D :: C)) (hws : effWs (D :: C) = effWs C) (s : Str)
    (h : lexValid keyOf (D :: C) s = true) : lexValid keyOf C s = true := by
  simp only [lexValid] at h ⊢
  rw [normChain_eq _ hacc, hws] at h
  rw [normChain_eq _ hacc.2]
  exact facet_derived_valid_base_valid C D _ h

end Facets
/-! ### non-vacuity (facets) -/
section
open XsVerif.Facets

-- an accepted two-step chain on integers whose derived step tightens both bounds and adds an enumeration
def fB : FSet Int := { minInc := some ⟨{ ord := 0 }, false⟩, maxExc := some ⟨{ ord := 10 }, false⟩ }
def fD : FSet Int := { minExc := some ⟨{ ord := 2 }, false⟩, maxInc := some ⟨{ ord := 8 }, false⟩,
                       enum := some [{ ord := 3 }, { ord := 8 }] }
example : accepts [fB] fD = true ∧ Accepted [fD, fB] ∧ validEff [fD, fB] { ord := 3 } = true ∧
    validEff [fD, fB] { ord := 5 } = false :=
  ⟨by decide, ⟨by decide, by decide, trivial⟩, by decide, by decide⟩
-- refused steps: a widened bound, an exclusive bound equal to the base maximum, a changed fixed facet
example : checkStep [fB] ({ minInc := some ⟨{ ord := -1 }, false⟩ } : FSet Int) = [.boundInvalid] ∧
    checkStep [({ maxInc := some ⟨{ ord := 5 }, false⟩ } : FSet Int)] { minExc := some ⟨{ ord := 5 }, false⟩ }
      = [.alsoMaximum] ∧
    checkStep [({ maxLength := some ⟨3, true⟩ } : FSet Int)] { maxLength := some ⟨2, false⟩ } = [.fixedChanged] := by
  decide
-- an exclusive bound equal to the base's exclusive bound is accepted (the ignored failure)
example : accepts [({ minExc := some ⟨{ ord := 5 }, false⟩ } : FSet Int)] { minExc := some ⟨{ ord := 5 }, false⟩ } = true := by
  decide
end

/-! ## Attribute uses and attribute wildcards of a complex type derived by restriction
    (attributes.py:508-611; validation = the C03 model of `XsdAttributeGroup.raw_decode`) -/
section Attrs
open XsVerif.Wildcard XsVerif.Attributes XsVerif.AttrRestr

/-- "restricted attribute uses and wildcards admit a subset of attribute sets".
    Full statement (false for the code, see the three counterexamples below):
      accepted R env B D → ∀ A, validFor … (merged B D) A → validFor … B A
    Proved under three decidable guards, each of which excludes exactly one way in which the code (two of
    them: XSD itself) accepts a widening:
      g1  no attribute that can occur is exempt from the type-derivation clause           (C14-F4)
      g2  no attribute prohibited by the restriction, declared by the base, is admitted by the
          derived type's wildcard                                                           (C14-F2)
      g3  an attribute declared by the restriction and admitted by the base wildcard only is not
          assessed by that wildcard (skip, or lax without a global declaration)             (C14-F5)
    `hsem`: the two facts about simple types the rules rely on (restriction narrows; equal normalised
    fixed values denote the same constraint) — C02's business, parameters here.  `hB`: the value
    constraints of the base type are valid for their own types (checked when the attribute is built).
    Any number of attributes, any wildcards (C16 model, all XSD 1.1 features), any instance. -/
theorem attr_restriction_sound_partial (R : RCtx) (s : Sem) (env : Env) (o : Opts)
    (ho : o.legacy = false) (B D : Group) (hsem : TypeSem R s)
    (hndB : (B.decls.map (·.name)).Nodup) (hndD : (D.decls.map (·.name)).Nodup)
    (hacc : accepted R env B D = true)
    (g1 : noAnyExempt R D = true) (g2 : noProhibitedThroughWildcard env B D = true)
    (g3 : wildcardDoesNotAssess env B D = true)
    (hB : ∀ b ∈ B.decls, ∀ v, constraintOf o b = some v → declErrs s b b.name v = [])
    (A : List Attr) (hxA : ∀ a ∈ A, a.1.ns ≠ xsiNs)
    (h : validFor s env o (merged B D) A = true) : validFor s env o B A = true :=
  AttrRestr.attr_restriction_sound_partial R s env o ho B D hsem hndB hndD hacc g1 g2 g3 hB A hxA h

/-- every attribute the base type requires is required by the derived type -/
theorem attr_required_preserved (R : RCtx) (env : Env) (B D : Group)
    (hndB : (B.decls.map (·.name)).Nodup) (hndD : (D.decls.map (·.name)).Nodup)
    (hacc : accepted R env B D = true) (b : Decl) (hb : b ∈ B.decls) (hreq : b.use = .required) :
    ∃ d ∈ (merged B D).decls, d.name = b.name ∧ d.use = .required :=
  required_preserved R env B D hndB hndD hacc b hb hreq

/-- the attribute wildcard of the derived type (declared, or the emptied copy of the base wildcard when
    the restriction declares none) admits a subset of the names the base wildcard admits — through the
    C16 theorem `restriction_sound`, for wildcards of any target namespaces -/
theorem attr_wildcard_narrows (R : RCtx) (env : Env) (B D : Group) (hacc : accepted R env B D = true)
    (n : QN) (hx : n.ns ≠ xsiNs) (h : mergedAdmits env B D n = true) : baseAdmits env B n = true :=
  wildcard_narrows R env B D hacc n hx h

/-! concrete witnesses (replayed on the real code by the harness): type 0 = xs:integer-like (valid
    values "1", "2"), type 1 = xs:string-like, type 2 = xs:anySimpleType -/
def semT : Sem := { validT := fun t v => t != 0 || v == "1" || v == "2", valueEq := fun _ a b => a == b }
def RT : RCtx := { tyDerived := fun d b => d == b || b == 2, tyIsAnySimple := fun t => t == 2, norm := fun _ x => x }
def envT : Env := { globals := [], loaded := ["", "urn:t"] }
def qAt : QN := ⟨"", "a"⟩
def anyLax : AnyAttr := { wc := { ns := .any, tns := "urn:t" }, pc := .lax }
def anyStrict : AnyAttr := { wc := { ns := .any, tns := "urn:t" }, pc := .strict }

/-- C14-F2 (guard g2): the restriction prohibits `a` and keeps a lax ##any wildcard: `a="x"` is
    validated through the wildcard for the derived type, against xs:integer for the base type -/
theorem attr_prohibited_wildcard_counterexample :
    let B : Group := ⟨[{ name := qAt, ty := 0 }], some anyLax⟩
    let D : Group := ⟨[{ name := qAt, ty := 0, use := .prohibited }], some anyLax⟩
    accepted RT envT B D = true ∧ noProhibitedThroughWildcard envT B D = false ∧
    validFor semT envT {} (merged B D) [(qAt, "x")] = true ∧ validFor semT envT {} B [(qAt, "x")] = false := by
  decide

/-- C14-F4 (guard g1): the restriction redeclares `a` with type xs:anySimpleType over xs:integer;
    accepted by the pinned rule (`anyExempt = true`), refused by the repaired one -/
theorem attr_anysimpletype_counterexample :
    let B : Group := ⟨[{ name := qAt, ty := 0 }], none⟩
    let D : Group := ⟨[{ name := qAt, ty := 2 }], none⟩
    accepted RT envT B D = true ∧ noAnyExempt RT D = false ∧
    accepted { RT with anyExempt := false } envT B D = false ∧
    validFor semT envT {} (merged B D) [(qAt, "x")] = true ∧ validFor semT envT {} B [(qAt, "x")] = false := by
  decide

/-- C14-F5 (guard g3): the base type admits `a` through a strict wildcard only (no global declaration:
    invalid), the restriction declares it locally (valid) -/
theorem attr_strict_wildcard_counterexample :
    let B : Group := ⟨[], some anyStrict⟩
    let D : Group := ⟨[{ name := qAt, ty := 0 }], none⟩
    accepted RT envT B D = true ∧ wildcardDoesNotAssess envT B D = false ∧
    validFor semT envT {} (merged B D) [(qAt, "1")] = true ∧ validFor semT envT {} B [(qAt, "1")] = false := by
  decide

/-! non-vacuity: a restriction that tightens the use, narrows the type, fixes the value and narrows the
    wildcard meets every hypothesis of `attr_restriction_sound_partial` -/
example :
    let B : Group := ⟨[{ name := qAt, ty := 2 }, { name := ⟨"", "b"⟩, ty := 1, use := .required }], some anyLax⟩
    let D : Group := ⟨[{ name := qAt, ty := 0, use := .required, fixed := some "1" }],
                      some { wc := { ns := .set ["urn:o"], tns := "urn:t" }, pc := .lax }⟩
    accepted RT envT B D = true ∧ noAnyExempt RT D = true ∧ noProhibitedThroughWildcard envT B D = true ∧
    wildcardDoesNotAssess envT B D = true ∧
    validFor semT envT {} (merged B D) [(qAt, "1"), (⟨"", "b"⟩, "z"), (⟨"urn:o", "k"⟩, "v")] = true ∧
    validFor semT envT {} (merged B D) [(qAt, "2"), (⟨"", "b"⟩, "z")] = false := by decide
example : TypeSem RT semT :=
  ⟨by intro d b v h hv; simp [RT, semT] at *; grind, by intro d b v df bf _ h _ hv; simp [RT, semT] at *; grind⟩

end Attrs
end XsVerif.Props.C14
