/-
  C19 — errors point at the offending node.
  ONLY property theorems and non-vacuity examples.

  The path attached to a validation error is `etree_getpath(elem, root, namespaces, relative=False,
  add_position=True)`.  Theorem `path_selects_unique`: for every tree and every element position, the path
  computed for that position selects, under the XPath child-step semantics, exactly that position — for
  trees of any size, depth and any repetition pattern of sibling names.
-/
import XsVerif.Model.Paths
import XsVerif.Lemmas.NsMapper

set_option linter.unusedSimpArgs false

namespace XsVerif.Props.C19
open XsVerif.Paths

/-- a position is valid when every index is within the children list on the way down -/
def Valid : T → List Nat → Prop
  | _, [] => True
  | .node _ ch, i :: is => ∃ c, ch[i]? = some c ∧ Valid c is

theorem idxOf_length_offset (name : String) (l : List T) (k k' : Nat) :
    (idxOf name l k).length = (idxOf name l k').length := by
  induction l generalizing k k' with
  | nil => rfl
  | cons c cs ih =>
    simp only [idxOf]
    split
    · simp only [List.length_cons]; rw [ih (k + 1) (k' + 1)]
    · exact ih _ _

/-- the same-name children split around child `i` -/
theorem idxOf_split (l : List T) (i : Nat) (c : T) (k : Nat) (h : l[i]? = some c) :
    idxOf c.tag l k = idxOf c.tag (l.take i) k ++ (k + i) :: idxOf c.tag (l.drop (i + 1)) (k + i + 1) := by
  induction l generalizing i k with
  | nil => simp at h
  | cons d cs ih =>
    cases i with
    | zero =>
      simp only [List.getElem?_cons_zero, Option.some.injEq] at h
      subst h
      simp [idxOf]
    | succ i =>
      simp only [List.getElem?_cons_succ] at h
      have := ih i (k + 1) h
      simp only [idxOf, List.take_succ_cons, List.drop_succ_cons]
      have e1 : k + 1 + i = k + (i + 1) := by omega
      have e2 : k + 1 + i + 1 = k + (i + 1) + 1 := by omega
      rw [e1] at this
      split
      · rw [this]; simp
      · exact this

/-- the step computed for child `i` selects exactly child `i` -/
theorem selectStep_stepFor (l : List T) (i : Nat) (s : Step) (h : stepFor l i = some s) :
    selectStep l s = [i] := by
  unfold stepFor at h
  cases hc : l[i]? with
  | none => simp [hc] at h
  | some c =>
    simp only [hc, Option.some.injEq] at h
    have hs := idxOf_split l i c 0 hc
    simp only [Nat.zero_add] at hs
    split at h
    · -- a single child with this name: no predicate
      rename_i h1
      subst h
      simp only [selectStep]
      rw [hs] at h1 ⊢
      simp only [List.length_append, List.length_cons] at h1
      have ha : (idxOf c.tag (l.take i) 0).length = 0 := by omega
      have hb : (idxOf c.tag (l.drop (i + 1)) (i + 1)).length = 0 := by omega
      rw [List.length_eq_zero_iff] at ha hb
      rw [ha, hb]; rfl
    · subst h
      simp only [selectStep, Nat.add_one_ne_zero, if_false, Nat.add_sub_cancel]
      rw [hs, List.getElem?_append_right (Nat.le_refl _)]
      simp

/-- **Every error path selects exactly the element it was computed for.** -/
theorem path_selects_unique (t : T) (pos : List Nat) (p : String × List Step)
    (h : getPath t pos = some p) : selectAbs t p = [pos] := by
  unfold getPath at h
  cases hs : getSteps t pos with
  | none => simp [hs] at h
  | some steps =>
    simp only [hs, Option.map_some, Option.some.injEq] at h
    subst h
    simp only [selectAbs, if_true]
    induction pos generalizing t steps with
    | nil =>
      cases t; simp only [getSteps, Option.some.injEq] at hs; subst hs; rfl
    | cons i is ih =>
      obtain ⟨tag, ch⟩ := t
      simp only [getSteps] at hs
      cases h1 : stepFor ch i with
      | none => simp [h1] at hs
      | some s =>
        cases h2 : ch[i]? with
        | none => simp [h1, h2] at hs
        | some c =>
          simp only [h1, h2] at hs
          cases h3 : getSteps c is with
          | none => simp [h3] at hs
          | some rest =>
            simp only [h3, Option.map_some, Option.some.injEq] at hs
            subst hs
            simp only [select, selectStep_stepFor ch i s h1, List.flatMap_cons, List.flatMap_nil,
              List.append_nil, h2, ih c rest h3, List.map_cons, List.map_nil]

/-- a path is computed for every valid position (the `None` outcome only for non-descendants) -/
theorem path_exists (t : T) (pos : List Nat) (h : Valid t pos) : ∃ p, getPath t pos = some p := by
  unfold getPath
  suffices ∃ s, getSteps t pos = some s by obtain ⟨s, hs⟩ := this; exact ⟨_, by rw [hs]; rfl⟩
  induction pos generalizing t with
  | nil => exact ⟨[], by cases t; rfl⟩
  | cons i is ih =>
    obtain ⟨tag, ch⟩ := t
    obtain ⟨c, hc, hv⟩ := h
    obtain ⟨s, hs⟩ := ih c hv
    simp only [getSteps, stepFor, hc, hs]
    exact ⟨_, rfl⟩

/-- distinct elements get distinct paths (a path cannot denote two nodes) -/
theorem path_injective (t : T) (p1 p2 : List Nat) (p : String × List Step)
    (h1 : getPath t p1 = some p) (h2 : getPath t p2 = some p) : p1 = p2 := by
  have a := path_selects_unique t p1 p h1
  have b := path_selects_unique t p2 p h2
  rw [a] at b
  exact (List.cons.inj b).1

/-- b is the 2nd of three `b` children among other names: `/r/b[2]` selects position [2] only -/
example : let t := T.node "r" [.node "b" [], .node "a" [], .node "b" [.node "c" []], .node "b" []]
    getPath t [2, 0] = some ("r", [⟨"b", some 2⟩, ⟨"c", none⟩]) ∧
    selectAbs t ("r", [⟨"b", some 2⟩, ⟨"c", none⟩]) = [[2, 0]] ∧ Valid t [2, 0] := by
  refine ⟨by decide, by decide, ?_⟩
  exact ⟨_, rfl, _, rfl, trivial⟩


/-! ### names in the path: rendered with the error's namespace map, read back with the same map -/
open XsVerif.NsMapper

/-- how a reader of the path resolves a step name (XPath 2.0 with the default element namespace
    taken from the map's empty prefix — the convention of `XMLResource.find`/elementpath) -/
def resolveName (ns : Map) : PName → Option QN
  | .braced u l => some ⟨u, l⟩
  | .pre p l => match ns.get p with
    | some u => if u = "" then none else some ⟨u, l⟩
    | none => none
  | .loc l => match ns.get "" with
    | some d => some ⟨d, l⟩
    | none => some ⟨"", l⟩

theorem head_filter_mem {ns : Map} {u p : String} {rest : List String}
    (h : (ns.filter fun e => e.2 = u).map (·.1) = p :: rest) : ns.Nodup → ns.get p = some u := by
  intro hn
  have : p ∈ (ns.filter fun e => e.2 = u).map (·.1) := by rw [h]; exact List.mem_cons_self
  obtain ⟨⟨a, b⟩, hm, e⟩ := List.mem_map.mp this
  simp only [List.mem_filter, decide_eq_true_eq] at hm
  simp only at e; subst e
  rw [Map.get_of_mem hn hm.1, hm.2]

/-  Full statement (false for the code as it is, finding C19-F1):
      ∀ ns q, ns.Nodup → resolveName ns (renderName ns q) = some q
    A tag in no namespace is written as a bare local name; when the map binds the empty prefix the
    reader takes it into that namespace and the path selects nothing. -/
theorem render_resolves_partial (ns : Map) (q : QN) (hn : ns.Nodup)
    (hguard : q.ns = "" → ns.get "" = none ∨ ns.get "" = some "") :
    resolveName ns (renderName ns q) = some q := by
  obtain ⟨u, l⟩ := q
  unfold renderName
  by_cases h0 : u = ""
  · subst h0
    simp only [if_true, resolveName]
    rcases hguard rfl with h | h <;> simp [h]
  · simp only [h0, if_false]
    split
    · rfl
    · split
      · rfl
      · rename_i p rest hf
        have hp := head_filter_mem hf hn
        split
        · simp [resolveName, hp, h0]
        · rename_i hpe
          have hpe' : p = "" := by
            by_cases e : p = ""
            · exact e
            · exact absurd e hpe
          subst hpe'
          split
          · rename_i p2 r2
            have : (ns.filter fun e => e.2 = u).map (·.1) = "" :: p2 :: r2 := hf
            have hm : p2 ∈ (ns.filter fun e => e.2 = u).map (·.1) := by rw [this]; simp
            obtain ⟨⟨a, b⟩, hm2, e⟩ := List.mem_map.mp hm
            simp only [List.mem_filter, decide_eq_true_eq] at hm2
            simp only at e; subst e
            simp [resolveName, Map.get_of_mem hn hm2.1, hm2.2, h0]
          · simp [resolveName, hp]

example : resolveName [("t", "urn:t")] (renderName [("t", "urn:t")] ⟨"urn:t", "item"⟩) = some ⟨"urn:t", "item"⟩ := by
  decide

/-- `<root xmlns="urn:t"><head xmlns=""><date>…`: the step for the no-namespace `date` is written
    `date` and read as `{urn:t}date`. -/
theorem render_counterexample :
    renderName [("", "urn:t")] ⟨"", "date"⟩ = .loc "date" ∧
    resolveName [("", "urn:t")] (.loc "date") = some ⟨"urn:t", "date"⟩ := by decide

end XsVerif.Props.C19
