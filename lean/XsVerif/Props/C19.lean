/-
  C19 — errors point at the offending node.
  ONLY property theorems and non-vacuity examples.

  The path attached to a validation error is `etree_getpath(elem, root, namespaces, relative=False,
  add_position=True)`.  Theorem `path_selects_unique`: for every tree and every element position, the path
  computed for that position selects, under the XPath child-step semantics, exactly that position — for
  trees of any size, depth and any repetition pattern of sibling names.
-/
import XsVerif.Model.Paths
import XsVerif.Lemmas.NsMapper
import XsVerif.Lemmas.Localise

set_option linter.unusedSimpArgs false

namespace XsVerif.Props.C19
open XsVerif.Paths

/-- a position is valid when every index is within the children list on the way down -/
def Valid : T → List Nat → Prop
  | _, [] => True
  | .node _ ch, i :: is => ∃ c, ch[i]? = some c ∧ Valid c is

theorem idxOf_length_offset (name : String) (l : List T) (k k' : Nat) :
    (idxOf name l k).length = (idxOf name l k').length := by
  induction l generalizing k k' with
  | nil => rfl
  | cons c cs ih =>
    simp only [idxOf]
    split
    · simp only [List.length_cons]; rw [ih (k + 1) (k' + 1)]
    · exact ih _ _

/-- the same-name children split around child `i` -/
theorem idxOf_split (l : List T) (i : Nat) (c : T) (k : Nat) (h : l[i]? = some c) :
    idxOf c.tag l k = idxOf c.tag (l.take i) k ++ (k + i) :: idxOf c.tag (l.drop (i + 1)) (k + i + 1) := by
  induction l generalizing i k with
  | nil => simp at h
  | cons d cs ih =>
    cases i with
    | zero =>
      simp only [List.getElem?_cons_zero, Option.some.injEq] at h
      subst h
      simp [idxOf]
    | succ i =>
      simp only [List.getElem?_cons_succ] at h
      have := ih i (k + 1) h
      simp only [idxOf, List.take_succ_cons, List.drop_succ_cons]
      have e1 : k + 1 + i = k + (i + 1) := by omega
      have e2 : k + 1 + i + 1 = k + (i + 1) + 1 := by omega
      rw [e1] at this
      split
      · rw [this]; simp
      · exact this

/-- the step computed for child `i` selects exactly child `i` -/
theorem selectStep_stepFor (l : List T) (i : Nat) (s : Step) (h : stepFor l i = some s) :
    selectStep l s = [i] := by
  unfold stepFor at h
  cases hc : l[i]? with
  | none => simp [hc] at h
  | some c =>
    simp only [hc, Option.some.injEq] at h
    have hs := idxOf_split l i c 0 hc
    simp only [Nat.zero_add] at hs
    split at h
    · -- a single child with this name: no predicate
      rename_i h1
      subst h
      simp only [selectStep]
      rw [hs] at h1 ⊢
      simp only [List.length_append, List.length_cons] at h1
      have ha : (idxOf c.tag (l.take i) 0).length = 0 := by omega
      have hb : (idxOf c.tag (l.drop (i + 1)) (i + 1)).length = 0 := by omega
      rw [List.length_eq_zero_iff] at ha hb
      rw [ha, hb]; rfl
    · subst h
      simp only [selectStep, Nat.add_one_ne_zero, if_false, Nat.add_sub_cancel]
      rw [hs, List.getElem?_append_right (Nat.le_refl _)]
      simp

/-- **Every error path selects exactly the element it was computed for.** -/
theorem path_selects_unique (t : T) (pos : List Nat) (p : String × List Step)
    (h : getPath t pos = some p) : selectAbs t p = [pos] := by
  unfold getPath at h
  cases hs : getSteps t pos with
  | none => simp [hs] at h
  | some steps =>
    simp only [hs, Option.map_some, Option.some.injEq] at h
    subst h
    simp only [selectAbs, if_true]
    induction pos generalizing t steps with
    | nil =>
      cases t; simp only [getSteps, Option.some.injEq] at hs; subst hs; rfl
    | cons i is ih =>
      obtain ⟨tag, ch⟩ := t
      simp only [getSteps] at hs
      cases h1 : stepFor ch i with
      | none => simp [h1] at hs
      | some s =>
        cases h2 : ch[i]? with
        | none => simp [h1, h2] at hs
        | some c =>
          simp only [h1, h2] at hs
          cases h3 : getSteps c is with
          | none => simp [h3] at hs
          | some rest =>
            simp only [h3, Option.map_some, Option.some.injEq] at hs
            subst hs
            simp only [select, selectStep_stepFor ch i s h1, List.flatMap_cons, List.flatMap_nil,
              List.append_nil, h2, ih c rest h3, List.map_cons, List.map_nil]

/-- a path is computed for every valid position (the `None` outcome only for non-descendants) -/
theorem path_exists (t : T) (pos : List Nat) (h : Valid t pos) : ∃ p, getPath t pos = some p := by
  unfold getPath
  suffices ∃ s, getSteps t pos = some s by obtain ⟨s, hs⟩ := this; exact ⟨_, by rw [hs]; rfl⟩
  induction pos generalizing t with
  | nil => exact ⟨[], by cases t; rfl⟩
  | cons i is ih =>
    obtain ⟨tag, ch⟩ := t
    obtain ⟨c, hc, hv⟩ := h
    obtain ⟨s, hs⟩ := ih c hv
    simp only [getSteps, stepFor, hc, hs]
    exact ⟨_, rfl⟩

/-- distinct elements get distinct paths (a path cannot denote two nodes) -/
theorem path_injective (t : T) (p1 p2 : List Nat) (p : String × List Step)
    (h1 : getPath t p1 = some p) (h2 : getPath t p2 = some p) : p1 = p2 := by
  have a := path_selects_unique t p1 p h1
  have b := path_selects_unique t p2 p h2
  rw [a] at b
  exact (List.cons.inj b).1

/-- b is the 2nd of three `b` children among other names: `/r/b[2]` selects position [2] only -/
example : let t := T.node "r" [.node "b" [], .node "a" [], .node "b" [.node "c" []], .node "b" []]
    getPath t [2, 0] = some ("r", [⟨"b", some 2⟩, ⟨"c", none⟩]) ∧
    selectAbs t ("r", [⟨"b", some 2⟩, ⟨"c", none⟩]) = [[2, 0]] ∧ Valid t [2, 0] := by
  refine ⟨by decide, by decide, ?_⟩
  exact ⟨_, rfl, _, rfl, trivial⟩


/-! ### names in the path: rendered with the error's namespace map, read back with the same map -/
open XsVerif.NsMapper

/-- how a reader of the path resolves a step name (XPath 2.0 with the default element namespace
    taken from the map's empty prefix — the convention of `XMLResource.find`/elementpath) -/
def resolveName (ns : Map) : PName → Option QN
  | .braced u l => some ⟨u, l⟩
  | .pre p l => match ns.get p with
    | some u => if u = "" then none else some ⟨u, l⟩
    | none => none
  | .loc l => match ns.get "" with
    | some d => some ⟨d, l⟩
    | none => some ⟨"", l⟩

theorem head_filter_mem {ns : Map} {u p : String} {rest : List String}
    (h : (ns.filter fun e => e.2 = u).map (·.1) = p :: rest) : ns.Nodup → ns.get p = some u := by
  intro hn
  have : p ∈ (ns.filter fun e => e.2 = u).map (·.1) := by rw [h]; exact List.mem_cons_self
  obtain ⟨⟨a, b⟩, hm, e⟩ := List.mem_map.mp this
  simp only [List.mem_filter, decide_eq_true_eq] at hm
  simp only at e; subst e
  rw [Map.get_of_mem hn hm.1, hm.2]

/-  Full statement (false for the code as it is, finding C19-F1):
      ∀ ns q, ns.Nodup → resolveName ns (renderName ns q) = some q
    A tag in no namespace is written as a bare local name; when the map binds the empty prefix the
    reader takes it into that namespace and the path selects nothing. -/
theorem render_resolves_partial (ns : Map) (q : QN) (hn : ns.Nodup)
    (hguard : q.ns = "" → ns.get "" = none ∨ ns.get "" = some "") :
    resolveName ns (renderName ns q) = some q := by
  obtain ⟨u, l⟩ := q
  unfold renderName
  by_cases h0 : u = ""
  · subst h0
    simp only [if_true, resolveName]
    rcases hguard rfl with h | h <;> simp [h]
  · simp only [h0, if_false]
    split
    · rfl
    · split
      · rfl
      · rename_i p rest hf
        have hp := head_filter_mem hf hn
        split
        · simp [resolveName, hp, h0]
        · rename_i hpe
          have hpe' : p = "" := by
            by_cases e : p = ""
            · exact e
            · exact absurd e hpe
          subst hpe'
          split
          · rename_i p2 r2
            have : (ns.filter fun e => e.2 = u).map (·.1) = "" :: p2 :: r2 := hf
            have hm : p2 ∈ (ns.filter fun e => e.2 = u).map (·.1) := by rw [this]; simp
            obtain ⟨⟨a, b⟩, hm2, e⟩ := List.mem_map.mp hm
            simp only [List.mem_filter, decide_eq_true_eq] at hm2
            simp only at e; subst e
            simp [resolveName, Map.get_of_mem hn hm2.1, hm2.2, h0]
          · simp [resolveName, hp]

example : resolveName [("t", "urn:t")] (renderName [("t", "urn:t")] ⟨"urn:t", "item"⟩) = some ⟨"urn:t", "item"⟩ := by
  decide

/-- `<root xmlns="urn:t"><head xmlns=""><date>…`: the step for the no-namespace `date` is written
    `date` and read as `{urn:t}date`. -/
theorem render_counterexample :
    renderName [("", "urn:t")] ⟨"", "date"⟩ = .loc "date" ∧
    resolveName [("", "urn:t")] (.loc "date") = some ⟨"urn:t", "date"⟩ := by decide


/-! ## The fault-localisation clause

  "If a valid document is damaged at a single node, the document is reported invalid and at least one error is
  located at the damaged node or its parent, while no error is located outside the damaged node's ancestor chain
  and subtree" — for the compositional validator `Val` of Model/Localise.lean (the shape of
  elements.py:597-878 / groups.py:953-1087).  Modelling assumptions, all checked on the real code by the
  correspondence run (harness/props/c19.py, `hypotheses`):
    (H-own)  the errors an element owns are a function of its declaration, tag, attributes, character data and
             the names of its children                                  — built into `Val.pre`/`Val.post`;
    (H-gov)  `GovLocal`: the declaration of a child is a function of the parent's declaration, the parent's
             attributes and the child's name (false with a wildcard beside a same-named declaration:
             `gov_nonlocal_counterexample`, finding C19-F2);
    (H-eff)  `Effective`: the damaged site is governed (the run descends to it) and its own check rejects the
             damaged input (the catalogue damages "by construction"; that the content-model / datatype checks
             reject is the subject of C01/C07 and C11–C13). -/
open XsVerif.Localise

variable {D E : Type}

/-- (bad value, bad / missing / extra attribute) the errors of the damaged document are exactly the errors of the
    relabelled element's subtree: one of them at the damaged node, all of them at or below it. -/
theorem relabel_fault_localised (v : Val D E) (d : D) (t : Doc) (p : List Nat) (a' : Attrs) (tx' : String)
    (dp : D) (tg : String) (a : Attrs) (tx : String) (cs : List Doc)
    (hv : errs v d t = []) (hr : reach v d t p = some (dp, .node tg a tx cs))
    (heff : own v dp tg a' tx' (names cs) ≠ []) :
    (∃ e ∈ errs v d ((Fault.relabel p a' tx').apply t), e.1 = p) ∧
    (∀ e ∈ errs v d ((Fault.relabel p a' tx').apply t), p <+: e.1) ∧
    ((∀ j, v.gov dp a' (names cs) j = v.gov dp a (names cs) j) →
       ∀ e ∈ errs v d ((Fault.relabel p a' tx').apply t), e.1 = p) := by
  have key := errs_editAt v (setLabel a' tx') d t p dp _ hv hr (by simp [setLabel, Doc.tag])
  simp only [Fault.apply, key, setLabel, errs_node]
  refine ⟨?_, ?_, ?_⟩
  · obtain ⟨e, he, h0⟩ := exists_here_of_own v dp tg a' tx' (names cs) (errsKids v dp a' (names cs) 0 cs) heff
    exact ⟨(p ++ e.1, e.2), by simp only [below, List.mem_map]; exact ⟨e, he, rfl⟩, by simp [h0]⟩
  · intro e he
    obtain ⟨e0, _, rfl⟩ := mem_below he
    exact List.prefix_append _ _
  · intro hg e he
    have hsub := reach_valid v d t p dp _ hv hr
    rw [errs_node] at hsub
    simp only [List.append_eq_nil_iff] at hsub
    rw [errsKids_congr_gov v dp a a' (names cs) cs 0 hg, hsub.1.2] at he
    obtain ⟨e0, h0, rfl⟩ := mem_below he
    simp only [List.append_nil, List.mem_append] at h0
    rcases h0 with h0 | h0 <;> simp [mem_here h0]

/-- (extra child, misplaced child) under `GovLocal`, when the children of a governed element are replaced by
    `l1 ++ c :: l2` where `l1`, `l2` only contain former children: every error is located at that element or in
    the subtree of the new child `c`, and the element's own rejection surfaces at the element. -/
theorem child_fault_localised (v : Val D E) (hl : GovLocal v) (d : D) (t : Doc) (q : List Nat)
    (dq : D) (tg : String) (a : Attrs) (tx : String) (cs l1 l2 : List Doc) (c : Doc)
    (hv : errs v d t = []) (hr : reach v d t q = some (dq, .node tg a tx cs))
    (hm : ∀ x ∈ l1 ++ l2, x ∈ cs) :
    (∀ e ∈ errs v d (editAt (setKids fun _ => l1 ++ c :: l2) t q), e.1 = q ∨ (q ++ [l1.length]) <+: e.1) ∧
    (own v dq tg a tx (names (l1 ++ c :: l2)) ≠ [] →
       ∃ e ∈ errs v d (editAt (setKids fun _ => l1 ++ c :: l2) t q), e.1 = q) := by
  have key := errs_editAt v (setKids fun _ => l1 ++ c :: l2) d t q dq _ hv hr (by simp [setKids, Doc.tag])
  have hsub := reach_valid v d t q dq _ hv hr
  rw [errs_node] at hsub
  simp only [List.append_eq_nil_iff] at hsub
  have hk := hsub.1.2
  simp only [key, setKids, errs_node]
  constructor
  · intro e he
    obtain ⟨e0, h0, rfl⟩ := mem_below he
    simp only [List.mem_append] at h0
    rcases h0 with (h0 | h0) | h0
    · left; simp [mem_here h0]
    · rw [errsKids_append] at h0
      have h1 : errsKids v dq a (names (l1 ++ c :: l2)) 0 l1 = [] := by
        apply errsKids_old_nil v hl dq a cs hk
        · intro k x hx
          simp only [Nat.zero_add, names_getElem?]
          have hlt : k < l1.length := by
            rcases Nat.lt_or_ge k l1.length with h | h
            · exact h
            · simp [List.getElem?_eq_none h] at hx
          rw [List.getElem?_append_left hlt, hx]; rfl
        · intro x hx; exact hm x (List.mem_append_left _ hx)
      have h2 : errsKids v dq a (names (l1 ++ c :: l2)) (0 + l1.length + 1) l2 = [] := by
        apply errsKids_old_nil v hl dq a cs hk
        · intro k x hx
          simp only [Nat.zero_add, names_getElem?]
          have e1 : l1.length + 1 + k = l1.length + (k + 1) := by omega
          rw [e1, List.getElem?_append_right (Nat.le_add_right _ _)]
          simp [hx]
        · intro x hx; exact hm x (List.mem_append_right _ hx)
      simp only [Nat.zero_add] at h2
      simp only [h1, List.nil_append, errsKids, Nat.zero_add, h2, List.append_nil] at h0
      right
      cases hg : v.gov dq a (names (l1 ++ c :: l2)) l1.length with
      | none => simp [hg] at h0
      | some d' =>
        simp only [hg, under, List.mem_map] at h0
        obtain ⟨e1, _, rfl⟩ := h0
        exact ⟨e1.1, by simp⟩
    · left; simp [mem_here h0]
  · intro heff
    obtain ⟨e, he, h0⟩ := exists_here_of_own v dq tg a tx (names (l1 ++ c :: l2))
      (errsKids v dq a (names (l1 ++ c :: l2)) 0 (l1 ++ c :: l2)) heff
    exact ⟨(q ++ e.1, e.2), by simp only [below, List.mem_map]; exact ⟨e, he, rfl⟩, by simp [h0]⟩

/-- (missing child, and any rearrangement of former children) under `GovLocal`, when the children of a governed
    element are replaced by a list of former children, every error is located at that element. -/
theorem child_removed_localised (v : Val D E) (hl : GovLocal v) (d : D) (t : Doc) (q : List Nat)
    (dq : D) (tg : String) (a : Attrs) (tx : String) (cs cs' : List Doc)
    (hv : errs v d t = []) (hr : reach v d t q = some (dq, .node tg a tx cs))
    (hm : ∀ x ∈ cs', x ∈ cs) :
    (∀ e ∈ errs v d (editAt (setKids fun _ => cs') t q), e.1 = q) ∧
    (own v dq tg a tx (names cs') ≠ [] → ∃ e ∈ errs v d (editAt (setKids fun _ => cs') t q), e.1 = q) := by
  have key := errs_editAt v (setKids fun _ => cs') d t q dq _ hv hr (by simp [setKids, Doc.tag])
  have hsub := reach_valid v d t q dq _ hv hr
  rw [errs_node] at hsub
  simp only [List.append_eq_nil_iff] at hsub
  have hk := hsub.1.2
  have h1 : errsKids v dq a (names cs') 0 cs' = [] := by
    apply errsKids_old_nil v hl dq a cs hk
    · intro k x hx
      simp only [Nat.zero_add, names_getElem?, hx]; rfl
    · exact hm
  simp only [key, setKids, errs_node, h1, List.append_nil]
  constructor
  · intro e he
    obtain ⟨e0, h0, rfl⟩ := mem_below he
    simp only [List.mem_append] at h0
    rcases h0 with h0 | h0 <;> simp [mem_here h0]
  · intro heff
    obtain ⟨e, he, h0⟩ := exists_here_of_own v dq tg a tx (names cs') [] heff
    simp only [List.append_nil] at he
    exact ⟨(q ++ e.1, e.2), by simp only [below, List.mem_map]; exact ⟨e, he, rfl⟩, by simp [h0]⟩

/-- (H-eff) the fault is effective: its site is governed in the valid document and the site's own check rejects
    the damaged input -/
def Effective (v : Val D E) (d : D) (t : Doc) : Fault → Prop
  | .relabel p a' tx' => ∃ dp tg a tx cs, reach v d t p = some (dp, .node tg a tx cs) ∧
      own v dp tg a' tx' (names cs) ≠ []
  | .insert q i c => ∃ dq tg a tx cs, reach v d t q = some (dq, .node tg a tx cs) ∧ i ≤ cs.length ∧
      own v dq tg a tx (names (insertAt i c cs)) ≠ []
  | .remove q i => ∃ dq tg a tx cs, reach v d t q = some (dq, .node tg a tx cs) ∧
      own v dq tg a tx (names (cs.eraseIdx i)) ≠ []
  | .move q i j => ∃ dq tg a tx cs, reach v d t q = some (dq, .node tg a tx cs) ∧ i < cs.length ∧
      own v dq tg a tx (names (moveTo i j cs)) ≠ []

theorem editAt_congr (f g : Doc → Doc) (d : D) (v : Val D E) (t : Doc) (p : List Nat) (dp : D) (sub : Doc)
    (hr : reach v d t p = some (dp, sub)) (h : f sub = g sub) : editAt f t p = editAt g t p := by
  induction p generalizing d t with
  | nil =>
    simp only [reach, Option.some.injEq, Prod.mk.injEq] at hr
    rw [← hr.2] at h
    simpa [editAt] using h
  | cons i is ih =>
    obtain ⟨tg, a, tx, cs⟩ := t
    simp only [reach] at hr
    cases hc : cs[i]? with
    | none => simp [hc] at hr
    | some c =>
      cases hg : v.gov d a (names cs) i with
      | none => simp [hc, hg] at hr
      | some d' =>
        simp only [hc, hg] at hr
        simp only [editAt, hc, ih d' c hr]

/-- **Fault localisation** (the clause of C19, for every document, declaration, validator of the shape `Val` with a
    local choice of declarations, and every effective single-node fault of the catalogue):
    (a) the damaged document has at least one error, (b) some error is located at the damaged node or its parent,
    (c) every error is located in the damaged node's ancestor chain or subtree. -/
theorem single_fault_localised (v : Val D E) (hl : GovLocal v) (d : D) (t : Doc) (f : Fault)
    (hv : errs v d t = []) (heff : Effective v d t f) :
    errs v d (f.apply t) ≠ [] ∧
    (∃ e ∈ errs v d (f.apply t), near f.damaged e.1 = true) ∧
    (∀ e ∈ errs v d (f.apply t), inZone f.damaged e.1 = true) := by
  suffices h : (∃ e ∈ errs v d (f.apply t), near f.damaged e.1 = true) ∧
      (∀ e ∈ errs v d (f.apply t), inZone f.damaged e.1 = true) by
    have h' := h
    obtain ⟨⟨e, he, _⟩, _⟩ := h'
    exact ⟨List.ne_nil_of_mem he, h⟩
  cases f with
  | relabel p a' tx' =>
    obtain ⟨dp, tg, a, tx, cs, hr, ho⟩ := heff
    obtain ⟨⟨e, he, hp⟩, hz, _⟩ := relabel_fault_localised v d t p a' tx' dp tg a tx cs hv hr ho
    refine ⟨⟨e, he, by simp [near, Fault.damaged, hp]⟩, fun e he => ?_⟩
    have := hz e he
    simp only [inZone, Fault.damaged, Bool.or_eq_true, List.isPrefixOf_iff_prefix]
    exact Or.inr this
  | insert q i c =>
    obtain ⟨dq, tg, a, tx, cs, hr, hi, ho⟩ := heff
    have hm : ∀ x ∈ cs.take i ++ cs.drop i, x ∈ cs := by
      intro x hx
      rcases List.mem_append.mp hx with h | h
      · exact List.mem_of_mem_take h
      · exact List.mem_of_mem_drop h
    have hlen : (cs.take i).length = i := by simp [List.length_take]; omega
    obtain ⟨hz, hn⟩ := child_fault_localised v hl d t q dq tg a tx cs (cs.take i) (cs.drop i) c hv hr hm
    have he : editAt (setKids (insertAt i c)) t q = editAt (setKids fun _ => cs.take i ++ c :: cs.drop i) t q :=
      editAt_congr _ _ d v t q dq _ hr (by simp [setKids, insertAt])
    simp only [Fault.apply, Fault.damaged, he]
    rw [hlen] at hz
    refine ⟨?_, fun e he => ?_⟩
    · obtain ⟨e, he, hq⟩ := hn ho
      exact ⟨e, he, by simp [near, hq]⟩
    · simp only [inZone, Bool.or_eq_true, List.isPrefixOf_iff_prefix]
      rcases hz e he with h | h
      · left; rw [h]; exact List.prefix_append _ _
      · right; exact h
  | remove q i =>
    obtain ⟨dq, tg, a, tx, cs, hr, ho⟩ := heff
    obtain ⟨hz, hn⟩ := child_removed_localised v hl d t q dq tg a tx cs (cs.eraseIdx i) hv hr
      (fun x hx => List.mem_of_mem_eraseIdx hx)
    have he : editAt (setKids fun cs => cs.eraseIdx i) t q = editAt (setKids fun _ => cs.eraseIdx i) t q :=
      editAt_congr _ _ d v t q dq _ hr (by simp [setKids])
    simp only [Fault.apply, Fault.damaged, he]
    refine ⟨?_, fun e he => ?_⟩
    · obtain ⟨e, he, hq⟩ := hn ho
      exact ⟨e, he, by simp [near, hq]⟩
    · simp [inZone, hz e he]
  | move q i j =>
    obtain ⟨dq, tg, a, tx, cs, hr, hi, ho⟩ := heff
    have hm : ∀ x ∈ moveTo i j cs, x ∈ cs := by
      intro x hx
      unfold moveTo at hx
      cases hc : cs[i]? with
      | none => simpa [hc] using hx
      | some c =>
        simp only [hc, insertAt, List.mem_append, List.mem_cons] at hx
        rcases hx with h | rfl | h
        · exact List.mem_of_mem_eraseIdx (List.mem_of_mem_take h)
        · exact List.mem_of_getElem? hc
        · exact List.mem_of_mem_eraseIdx (List.mem_of_mem_drop h)
    obtain ⟨hz, hn⟩ := child_removed_localised v hl d t q dq tg a tx cs (moveTo i j cs) hv hr hm
    have he : editAt (setKids (moveTo i j)) t q = editAt (setKids fun _ => moveTo i j cs) t q :=
      editAt_congr _ _ d v t q dq _ hr (by simp [setKids])
    simp only [Fault.apply, Fault.damaged, he]
    refine ⟨?_, fun e he => ?_⟩
    · obtain ⟨e, he, hq⟩ := hn ho
      exact ⟨e, he, by simp [near, hq]⟩
    · rw [hz e he]
      simp only [inZone, Bool.or_eq_true, List.isPrefixOf_iff_prefix]
      left; exact List.prefix_append _ _


/-- the validator denoted by observation tables chooses declarations locally, by construction -/
theorem tableVal_local (own : List OwnRow) (gov : List GovRow) : GovLocal (tableVal own gov) := by
  intro d a ns ns' j j' x h1 h2
  simp [tableVal, h1, h2]

/-- the computed (H-eff) implies `Effective` -/
theorem effectiveB_sound (v : Val D E) (d : D) (t : Doc) (f : Fault) (h : effectiveB v d t f = true) :
    Effective v d t f := by
  cases f with
  | relabel p a' tx' =>
    simp only [effectiveB] at h
    split at h
    · rename_i dp tg a tx cs hr
      exact ⟨dp, tg, a, tx, cs, hr, by simpa using h⟩
    · simp at h
  | insert q i c =>
    simp only [effectiveB] at h
    split at h
    · rename_i dq tg a tx cs hr
      simp only [Bool.and_eq_true, decide_eq_true_eq] at h
      exact ⟨dq, tg, a, tx, cs, hr, h.1, by simpa using h.2⟩
    · simp at h
  | remove q i =>
    simp only [effectiveB] at h
    split at h
    · rename_i dq tg a tx cs hr
      exact ⟨dq, tg, a, tx, cs, hr, by simpa using h⟩
    · simp at h
  | move q i j =>
    simp only [effectiveB] at h
    split at h
    · rename_i dq tg a tx cs hr
      simp only [Bool.and_eq_true, decide_eq_true_eq] at h
      exact ⟨dq, tg, a, tx, cs, hr, h.1, by simpa using h.2⟩
    · simp at h

/-- **What the correspondence run instantiates**: for every pair of observation tables, every document the
    tables accept and every fault the tables make effective, the errors the tables predict for the damaged
    document satisfy the three clauses.  (The harness compares these predicted errors with the errors of the real
    validator, position by position and in order.) -/
theorem observed_fault_localised (own : List OwnRow) (gov : List GovRow) (d : Nat) (t : Doc) (f : Fault)
    (hv : errs (tableVal own gov) d t = []) (heff : effectiveB (tableVal own gov) d t f = true) :
    errs (tableVal own gov) d (f.apply t) ≠ [] ∧
    (∃ e ∈ errs (tableVal own gov) d (f.apply t), near f.damaged e.1 = true) ∧
    (∀ e ∈ errs (tableVal own gov) d (f.apply t), inZone f.damaged e.1 = true) :=
  single_fault_localised _ (tableVal_local own gov) d t f hv (effectiveB_sound _ d t f heff)

/-! ### non-vacuity: a validator with a local choice of declarations, a valid document, effective faults -/

/-- `<r id=…>` with content `a` (an integer, declaration 1) then `b` (any text, declaration 2) -/
def vLoc : Val Nat String where
  pre := fun d _ at_ tx _ =>
    if d = 0 then (if at_.any (fun p => p.1 == "id") then [] else ["missing attribute id"])
    else if d = 1 then (if tx = "foo" then ["not an integer"] else [])
    else []
  post := fun d _ _ _ ns => if d = 0 then (if ns = ["a", "b"] then [] else ["children"]) else []
  gov := fun d _ ns j =>
    if d = 0 then (match ns[j]? with
      | some x => if x = "a" then some 1 else if x = "b" then some 2 else none
      | none => none)
    else none

def tLoc : Doc := .node "r" [("id", "7")] "" [.node "a" [] "1" [], .node "b" [] "x" []]

theorem vLoc_local : GovLocal vLoc := by
  intro d a ns ns' j j' x h1 h2
  simp [vLoc, h1, h2]

example : GovLocal vLoc ∧ errs vLoc 0 tLoc = [] ∧
    Effective vLoc 0 tLoc (.relabel [0] [] "foo") ∧
    Effective vLoc 0 tLoc (.insert [] 1 (.node "zzz" [] "" [])) ∧
    Effective vLoc 0 tLoc (.remove [] 0) ∧
    Effective vLoc 0 tLoc (.move [] 0 1) ∧
    errs vLoc 0 ((Fault.relabel [0] [] "foo").apply tLoc) = [([0], "not an integer")] ∧
    errs vLoc 0 ((Fault.insert [] 1 (.node "zzz" [] "" [])).apply tLoc) = [([], "children")] ∧
    errs vLoc 0 ((Fault.move [] 0 1).apply tLoc) = [([], "children")] := by
  refine ⟨vLoc_local, by decide, ⟨1, "a", [], "1", [], rfl, by decide⟩,
    ⟨0, "r", [("id", "7")], "", _, rfl, by decide, by decide⟩,
    ⟨0, "r", [("id", "7")], "", _, rfl, by decide⟩,
    ⟨0, "r", [("id", "7")], "", _, rfl, by decide, by decide⟩, by decide, by decide, by decide⟩

/-  Full statement without (H-gov) — false for the code as it is (finding C19-F2):
      ∀ v d t f, errs v d t = [] → Effective v d t f → ∀ e ∈ errs v d (f.apply t), inZone f.damaged e.1
    groups.py:1013-1041: once the content model is broken the declaration of the remaining children is looked up
    by name (`self.match_element`), not by the model; with `sequence(a : xs:int, any*)` the second `a` of
    `<r><a>1</a><a>foo</a></r>` is matched by the wildcard, but after an extra first child it is validated against
    `a : xs:int` and an error appears at a sibling of the damaged node. -/
def vWild : Val Nat String where
  pre := fun d _ _ tx _ => if d = 1 then (if tx = "foo" then ["not an integer"] else []) else []
  post := fun d _ _ _ ns => if d = 0 then (if ns[0]? = some "a" then [] else ["children"]) else []
  gov := fun d _ ns j =>
    if d = 0 then
      (if ns[0]? = some "a" then (if j = 0 then some 1 else none)
       else if ns[j]? = some "a" then some 1 else none)
    else none

def tWild : Doc := .node "r" [] "" [.node "a" [] "1" [], .node "a" [] "foo" []]

theorem gov_nonlocal_counterexample :
    ¬ GovLocal vWild ∧ errs vWild 0 tWild = [] ∧
    Effective vWild 0 tWild (.insert [] 0 (.node "zzz" [] "" [])) ∧
    errs vWild 0 ((Fault.insert [] 0 (.node "zzz" [] "" [])).apply tWild)
      = [([2], "not an integer"), ([], "children")] ∧
    inZone (Fault.insert [] 0 (.node "zzz" [] "" [])).damaged [2] = false := by
  refine ⟨fun h => ?_, by decide, ⟨0, "r", [], "", _, rfl, by decide, by decide⟩, by decide, by decide⟩
  have := h 0 [] ["a", "a"] ["zzz", "a", "a"] 1 2 "a" (by decide) (by decide)
  revert this
  decide

/-! ## Every error path locates its element (`error_paths_locate`) -/

theorem toTs_getElem? (r : String → String) (cs : List Doc) (i : Nat) :
    (toTs r cs)[i]? = (cs[i]?).map (toT r) := by
  induction cs generalizing i with
  | nil => simp [toTs]
  | cons c cs ih => cases i <;> simp [toTs, ih]

theorem isPos_valid (r : String → String) (t : Doc) (p : List Nat) (h : IsPos t p) : Valid (toT r t) p := by
  induction p generalizing t with
  | nil => cases t; simp [toT, Valid]
  | cons i is ih =>
    obtain ⟨tg, a, tx, cs⟩ := t
    obtain ⟨c, hc, hp⟩ := h
    exact ⟨toT r c, by simp [toTs_getElem?, hc], ih c hp⟩

/-- **For every validator of the shape `Val`, every document and every reported error: `etree_getpath` computes a
    path for the error's element and that path selects exactly that element** (whatever the rendering `r` of the
    tags; `path_selects_unique` + the positions of errors are positions of the document). -/
theorem error_paths_locate (v : Val D E) (d : D) (t : Doc) (r : String → String) (e : Located E)
    (he : e ∈ errs v d t) :
    ∃ path, getPath (toT r t) e.1 = some path ∧ selectAbs (toT r t) path = [e.1] := by
  obtain ⟨path, hp⟩ := path_exists (toT r t) e.1 (isPos_valid r t e.1 (errs_pos v t d e he))
  exact ⟨path, hp, path_selects_unique _ _ _ hp⟩

/-- **The clause of C19 in terms of paths**: after an effective single-node fault, some error carries a path that
    selects exactly the damaged node or exactly its parent, and the path of every error selects exactly one node,
    which lies in the damaged node's ancestor chain or subtree. -/
theorem single_fault_paths_locate (v : Val D E) (hl : GovLocal v) (d : D) (t : Doc) (f : Fault)
    (r : String → String) (hv : errs v d t = []) (heff : Effective v d t f) :
    (∃ e ∈ errs v d (f.apply t), ∃ path, getPath (toT r (f.apply t)) e.1 = some path ∧
        (selectAbs (toT r (f.apply t)) path = [f.damaged] ∨
         selectAbs (toT r (f.apply t)) path = [f.damaged.dropLast])) ∧
    (∀ e ∈ errs v d (f.apply t), ∃ path n, getPath (toT r (f.apply t)) e.1 = some path ∧
        selectAbs (toT r (f.apply t)) path = [n] ∧ inZone f.damaged n = true) := by
  obtain ⟨_, ⟨e, he, hn⟩, hz⟩ := single_fault_localised v hl d t f hv heff
  constructor
  · obtain ⟨path, hp, hs⟩ := error_paths_locate v d (f.apply t) r e he
    refine ⟨e, he, path, hp, ?_⟩
    simp only [near, Bool.or_eq_true, beq_iff_eq] at hn
    rcases hn with h | h
    · left; rw [hs, h]
    · right; rw [hs, h]
  · intro e he
    obtain ⟨path, hp, hs⟩ := error_paths_locate v d (f.apply t) r e he
    exact ⟨path, e.1, hp, hs, hz e he⟩

example : ∃ e ∈ errs vLoc 0 ((Fault.relabel [0] [] "foo").apply tLoc),
    getPath (toT id ((Fault.relabel [0] [] "foo").apply tLoc)) e.1 = some ("r", [⟨"a", none⟩]) :=
  ⟨([0], "not an integer"), by decide, by decide⟩

/-! ## Lazy resources: what `error.path` of a pruned tree selects

  For a lazy resource the path is computed on the tree as it is when the error is created
  (`lazyState`: yielded depth-level elements cleared, elements not yet read by the parser absent). -/

theorem selectStep_pre (cs' cs : List T) (i : Nat) (s : Step) (hp : preF cs' cs = true)
    (h : stepFor cs' i = some s) : i ∈ selectStep cs s := by
  unfold stepFor at h
  cases hc : cs'[i]? with
  | none => simp [hc] at h
  | some c =>
    simp only [hc, Option.some.injEq] at h
    have hs := idxOf_split cs' i c 0 hc
    simp only [Nat.zero_add] at hs
    obtain ⟨C, hC⟩ := idxOf_preF c.tag cs' cs 0 hp
    split at h
    · rename_i h1
      subst h
      simp only [selectStep]
      rw [hC, hs]
      simp
    · subst h
      simp only [selectStep, Nat.add_one_ne_zero, if_false, Nat.add_sub_cancel]
      rw [hC, hs, List.append_assoc, List.getElem?_append_right (Nat.le_refl _)]
      simp

/-- **A lazy error path always selects the error's element in the full document** (possibly together with other
    elements: see `lazy_path_counterexample`): `t'` any prefix cut of the document `t`. -/
theorem lazy_path_contains (t' t : T) (pos : List Nat) (p : String × List Step)
    (hpre : pre t' t = true) (h : getPath t' pos = some p) : pos ∈ selectAbs t p := by
  unfold getPath at h
  cases hs : getSteps t' pos with
  | none => simp [hs] at h
  | some steps =>
    simp only [hs, Option.map_some, Option.some.injEq] at h
    subst h
    have htag : t'.tag = t.tag := by
      cases t'; cases t; simp only [pre, Bool.and_eq_true, beq_iff_eq] at hpre; exact hpre.1
    simp only [selectAbs, htag, if_true]
    clear htag
    induction pos generalizing t' t steps with
    | nil =>
      cases t'; simp only [getSteps, Option.some.injEq] at hs; subst hs; cases t; simp [select]
    | cons i is ih =>
      obtain ⟨tg', ch'⟩ := t'
      obtain ⟨tg, ch⟩ := t
      simp only [pre, Bool.and_eq_true, beq_iff_eq] at hpre
      simp only [getSteps] at hs
      cases h1 : stepFor ch' i with
      | none => simp [h1] at hs
      | some s =>
        cases h2 : ch'[i]? with
        | none => simp [h1, h2] at hs
        | some c' =>
          simp only [h1, h2] at hs
          cases h3 : getSteps c' is with
          | none => simp [h3] at hs
          | some rest =>
            simp only [h3, Option.map_some, Option.some.injEq] at hs
            subst hs
            obtain ⟨c, hc, hcp⟩ := preF_get ch' ch i c' hpre.2 h2
            have hi := selectStep_pre ch' ch i s hpre.2 h1
            simp only [select, List.mem_flatMap]
            exact ⟨i, hi, by simp only [hc, List.mem_map]; exact ⟨is, ih c' c hcp rest h3, rfl⟩⟩

/-- … in particular for every state a lazy resource goes through -/
theorem lazy_state_path_contains (k done n : Nat) (t t' : T) (pos : List Nat) (p : String × List Step)
    (hs : lazyState k done n t = some t') (h : getPath t' pos = some p) : pos ∈ selectAbs t p :=
  lazy_path_contains t' t pos p (lazyState_pre k done n t t' hs) h

theorem idxOf_tags (name : String) (l l' : List T) (k : Nat) (h : l.map T.tag = l'.map T.tag) :
    idxOf name l k = idxOf name l' k := by
  induction l generalizing l' k with
  | nil => cases l' <;> simp_all [idxOf]
  | cons c cs ih =>
    cases l' with
    | nil => simp at h
    | cons c' cs' =>
      simp only [List.map_cons, List.cons.injEq] at h
      simp only [idxOf, h.1, ih cs' (k + 1) h.2]

theorem stepFor_tags (l l' : List T) (i : Nat) (h : l.map T.tag = l'.map T.tag) :
    stepFor l i = stepFor l' i := by
  have hi : (l[i]?).map T.tag = (l'[i]?).map T.tag := by
    have := congrArg (fun x => x[i]?) h
    simpa using this
  have ht : (l.take i).map T.tag = (l'.take i).map T.tag := by
    rw [List.map_take, List.map_take, h]
  unfold stepFor
  cases h1 : l[i]? with
  | none =>
    cases h2 : l'[i]? with
    | none => rfl
    | some c' => simp [h1, h2] at hi
  | some c =>
    cases h2 : l'[i]? with
    | none => simp [h1, h2] at hi
    | some c' =>
      simp only [h1, h2, Option.map_some, Option.some.injEq] at hi
      simp only [hi, idxOf_tags c'.tag _ _ 0 ht, idxOf_tags c'.tag _ _ 0 h]

/-  Full statement (false for the code as it is): the path of a lazy error selects exactly its element in the
    document, `∀ t' t pos p, pre t' t → getPath t' pos = some p → selectAbs t p = [pos]`.
    Proved under the guard `completeAlong` (on the way to the element no sibling is missing in the lazy state). -/
theorem lazy_path_exact_partial (t' t : T) (pos : List Nat) (hc : completeAlong t' t pos = true)
    (htag : t'.tag = t.tag) : getPath t' pos = getPath t pos := by
  unfold getPath
  rw [htag]
  congr 1
  clear htag
  induction pos generalizing t' t with
  | nil => cases t'; cases t; rfl
  | cons i is ih =>
    obtain ⟨tg', ch'⟩ := t'
    obtain ⟨tg, ch⟩ := t
    simp only [completeAlong, Bool.and_eq_true, beq_iff_eq] at hc
    obtain ⟨hn, hrest⟩ := hc
    cases h2 : ch'[i]? with
    | none => simp [h2] at hrest
    | some c' =>
      cases h3 : ch[i]? with
      | none => simp [h2, h3] at hrest
      | some c =>
        simp only [h2, h3] at hrest
        have hstep : stepFor ch' i = stepFor ch i := stepFor_tags ch' ch i hn
        simp only [getSteps, hstep, h2, h3]
        cases stepFor ch i <;> simp [ih c' c hrest]

example : completeAlong (.node "r" [.node "a" [], .node "b" [.node "c" []]])
    (.node "r" [.node "a" [.node "x" []], .node "b" [.node "c" []]]) [1, 0] = true := by decide

/-- the first of two `item`s is being validated at lazy depth 2 while the parser has read 4 elements
    (`r`, `item`, `q`, `q`): the path of the second `q` is `/r/item/q[2]`, which selects two elements of the
    document (replayed on the real code by the harness with a document larger than the parser's read block). -/
theorem lazy_path_counterexample :
    let t := T.node "r" [.node "item" [.node "q" [], .node "q" []], .node "item" [.node "q" [], .node "q" []]]
    lazyState 2 0 4 t = some (.node "r" [.node "item" [.node "q" [], .node "q" []]]) ∧
    getPath (.node "r" [.node "item" [.node "q" [], .node "q" []]]) [0, 1]
      = some ("r", [⟨"item", none⟩, ⟨"q", some 2⟩]) ∧
    selectAbs t ("r", [⟨"item", none⟩, ⟨"q", some 2⟩]) = [[0, 1], [1, 1]] := by
  intro t
  exact ⟨rfl, by decide, by decide⟩

end XsVerif.Props.C19
