/-
  C01 (deepening) — the Lean port of the real algorithm (ModelVisitor + XsdGroup child loop,
  `XsVerif.CM.verdict`) is *exact* on syntactic fragments: for every word of any length its verdict
  is membership in the content-model language, and the fuel of the port is never exhausted.
  ONLY property theorems and non-vacuity examples live here (lemmas: Lemmas/VisitorExact*.lean).
-/
import XsVerif.Lemmas.VisitorExactLang
import XsVerif.Lemmas.VisitorExactEncode

namespace XsVerif.Props.C01Exact
open XsVerif XsVerif.CM XsVerif.Wildcard

/-- The fragment: one `sequence` group with minOccurs = maxOccurs = 1 whose items are k ≥ 0 element
    leaves (each with its substitutes) of arbitrary occurrence ranges `lo ≤ hi` (`hi` possibly
    unbounded, `lo = 0` and `hi = 0` included), no name claimed by two leaves; the arena has `n`
    slots, ids are distinct and in range. -/
def FlatSeq (n : Nat) : Particle → Bool
  | .group root .seq 1 (some 1) ps =>
    match leafSpecs ps with
    | some ls => wfFlat n root ls
    | none => false
  | _ => false

/-- **(a) The visitor is exact on flat sequences.**  For every flat sequence model and every child
    sequence of any length the verdict of the port of `ModelVisitor` + `XsdGroup.raw_decode` child loop
    is membership in the language of the model, and none of the port's fuel counters runs out
    (so the verdict is the algorithm's own, never a fuel artefact). -/
theorem visitor_exact_flat_sequence (n : Nat) (p : Particle) (h : FlatSeq n p = true) (w : List QN) :
    verdict (mkArena n p.flatten) n p.pid w = inModel p w ∧
    (childErrors (mkArena n p.flatten) n p.pid w).fuelOut = false := by
  match p, h with
  | .group root .seq 1 (some 1) ps, h =>
    simp only [FlatSeq] at h
    cases hls : leafSpecs ps with
    | none => rw [hls] at h; cases h
    | some ls =>
      rw [hls] at h
      have hps := leafSpecs_eq ps ls hls
      subst hps
      have F := flatA_of_wf n root .seq 1 (some 1) ls h
      simp only [wfFlat, Bool.and_eq_true, decide_eq_true_eq, List.all_eq_true] at h
      obtain ⟨⟨⟨_, hdis⟩, hok⟩, hlen⟩ := h
      obtain ⟨h1, h2⟩ := seq_exact F hok hlen w
      refine ⟨?_, h2⟩
      show verdict _ n root w = _
      rw [h1]
      -- the run automaton decides the language
      have hl := runSeq_lang ls hdis hok w
      have ho : inModel (Particle.group root .seq 1 (some 1) (ofSpecs ls)) w = true ↔ LangL (seqRx ls) w := by
        unfold inModel
        rw [Rx.accepts_iff]
        exact lang_rep_one _ w
      cases hr : runSeq ls w <;> cases hi : inModel (Particle.group root .seq 1 (some 1) (ofSpecs ls)) w <;> try rfl
      · exact absurd (hl.mpr (ho.mp hi)) (by rw [hr]; simp)
      · exact absurd (ho.mpr (hl.mp hr)) (by rw [hi]; simp)

/-- the same statement through the specification `InModel` (`Rx.Lang`) instead of the oracle -/
theorem visitor_exact_flat_sequence_lang (n : Nat) (p : Particle) (h : FlatSeq n p = true) (w : List QN) :
    verdict (mkArena n p.flatten) n p.pid w = true ↔ InModel p w := by
  rw [(visitor_exact_flat_sequence n p h w).1]
  unfold inModel InModel
  exact Rx.accepts_iff Leaf.matches p.toRx w

/-- **Fuel exhaustion is impossible on the fragment** (it is reported by the harness as a broken tie
    elsewhere): for flat sequences `fuelOut = false` for every word. -/
theorem visitor_fuel_sufficient_flat_sequence (n : Nat) (p : Particle) (h : FlatSeq n p = true) (w : List QN) :
    (childErrors (mkArena n p.flatten) n p.pid w).fuelOut = false :=
  (visitor_exact_flat_sequence n p h w).2

/-! ### strict encode is complete for the content model (all models, all open-content modes) -/

/-- **Strict encode is complete for the content model**: whenever the validator's child loop accepts a
    child sequence, the encoder's child loop (same ModelVisitor, different loop: groups.py:1146-1181)
    reports no error for it either — for EVERY model (any nesting, any ranges, wildcards, xs:all),
    every open-content mode and every sequence.  Converse of `C05.strict_encode_sound`. -/
theorem strict_encode_complete (A : Arena) (n root : Nat) (w : List QN) (oc : OC)
    (h : verdict A n root w oc = true) : encodeSilent A n root w oc = true := by
  unfold verdict childErrors at h
  simp only at h
  split at h
  · simp at h
  · rename_i hroot
    simp only [List.isEmpty_iff, List.append_eq_nil_iff] at h
    obtain ⟨h1, h2⟩ := h
    unfold encodeSilent emptyChoiceRoot encodeErrors
    simp only [Bool.and_eq_true, Bool.not_eq_true', List.isEmpty_iff]
    refine ⟨by simpa using hroot, ?_⟩
    rw [loop_simulation_conv A oc n root _ _ _ rfl rfl h1]
    rw [List.append_eq_nil_iff]
    refine ⟨h1, ?_⟩
    revert h2
    split
    · intro _; rfl
    · split <;> simp

/-- the two child loops agree on acceptance: strict encode raises for exactly the child sequences the
    validator rejects (content-model part), for every model and every word -/
theorem encodeSilent_eq_verdict (A : Arena) (n root : Nat) (w : List QN) (oc : OC) :
    encodeSilent A n root w oc = verdict A n root w oc := by
  cases hv : verdict A n root w oc
  · cases he : encodeSilent A n root w oc
    · rfl
    · rw [XsVerif.Props.C05.strict_encode_sound A n root w oc he] at hv; cases hv
  · exact strict_encode_complete A n root w oc hv

/-- on flat sequences strict encode is exact: it gets past the content model iff the emitted names are
    a word of the model -/
theorem encode_exact_flat_sequence (n : Nat) (p : Particle) (h : FlatSeq n p = true) (w : List QN) :
    encodeSilent (mkArena n p.flatten) n p.pid w = inModel p w := by
  rw [encodeSilent_eq_verdict, (visitor_exact_flat_sequence n p h w).1]

/-! ### the boundary: the group's own occurrence range

With `[glo, ghi] ≠ [1, 1]` on the group the full statement `verdict = inModel` is FALSE for the
pinned algorithm already on flat sequences / choices of ONE leaf; the witnesses below are
kernel-evaluated on the port and replayed on the real code by harness/props/c01_exact.py
(each is an instance of the known finding C01-F0). -/

private def qa : QN := ⟨"urn:t", "a"⟩
private def qb : QN := ⟨"urn:t", "b"⟩
private def qc : QN := ⟨"urn:t", "c"⟩

def flatGroup (k : GKind) (glo : Nat) (ghi : Option Nat) (ls : List LeafSpec) : Particle :=
  .group 0 k glo ghi (ofSpecs ls)

/-- greedy split, smallest instance: `(a{2,3}){1,2}` (maxOccurs of the group = 2, a leaf range with
    2 ≤ lo < hi): `aaaa` = `aa·aa` is a word, the visitor takes `aaa` first and rejects -/
theorem flat_sequence_counterexample_group_max :
    inModel (flatGroup .seq 1 (some 2) [⟨1, [qa], 2, some 3⟩]) [qa, qa, qa, qa] = true ∧
    verdict (mkArena 2 (flatGroup .seq 1 (some 2) [⟨1, [qa], 2, some 3⟩]).flatten) 2 0 [qa, qa, qa, qa] = false := by
  decide +kernel

/-- emptiable leaf under minOccurs = 2 of the group: `(a?){2,2}` contains `a` (= `a·ε`), the visitor
    counts one occurrence of the group and rejects -/
theorem flat_sequence_counterexample_group_min :
    inModel (flatGroup .seq 2 (some 2) [⟨1, [qa], 0, some 1⟩]) [qa] = true ∧
    verdict (mkArena 2 (flatGroup .seq 2 (some 2) [⟨1, [qa], 0, some 1⟩]).flatten) 2 0 [qa] = false := by
  decide +kernel

/-- the same for a flat choice: `(a? | b){2,2}` contains `b` (= `b·ε`), the visitor rejects -/
theorem flat_choice_counterexample_group_min :
    inModel (flatGroup .choice 2 (some 2) [⟨1, [qa], 0, some 1⟩, ⟨2, [qb], 1, some 1⟩]) [qb] = true ∧
    verdict (mkArena 3 (flatGroup .choice 2 (some 2) [⟨1, [qa], 0, some 1⟩, ⟨2, [qb], 1, some 1⟩]).flatten) 3 0 [qb]
      = false := by
  decide +kernel

/-- a flat choice counts `ceil(run / hi)` occurrences of the group for a run of one leaf and never
    asks whether the run splits into blocks of `lo..hi`: `(a{3,4}){1,2}` does not contain `aaaaa`
    (3+3 > 5 > 4), the visitor accepts it -/
theorem flat_choice_counterexample_gap :
    inModel (flatGroup .choice 1 (some 2) [⟨1, [qa], 3, some 4⟩]) [qa, qa, qa, qa, qa] = false ∧
    verdict (mkArena 2 (flatGroup .choice 1 (some 2) [⟨1, [qa], 3, some 4⟩]).flatten) 2 0 [qa, qa, qa, qa, qa]
      = true := by
  decide +kernel

/-! ### non-vacuity -/

/-- `(a{2,3}, b?, c{0,0}, s*)` with a substitution-group leaf -/
def mSeq : Particle := flatGroup .seq 1 (some 1)
  [⟨1, [qa], 2, some 3⟩, ⟨2, [qb], 0, some 1⟩, ⟨3, [qc], 0, some 0⟩, ⟨4, [⟨"urn:t", "h"⟩, ⟨"urn:t", "s"⟩], 0, none⟩]

example : FlatSeq 5 mSeq = true := by decide
example : FlatSeq 1 (flatGroup .seq 1 (some 1) []) = true := by decide
example : verdict (mkArena 5 mSeq.flatten) 5 0 [qa, qa, qb, ⟨"urn:t", "s"⟩, ⟨"urn:t", "h"⟩] = true := by decide +kernel
example : verdict (mkArena 5 mSeq.flatten) 5 0 [qa, qb] = false := by decide +kernel
example : InModel mSeq [qa, qa, qa] := (visitor_exact_flat_sequence_lang 5 mSeq (by decide) _).mp (by decide +kernel)
example : encodeSilent (mkArena 5 mSeq.flatten) 5 0 [qa, qa, qb] = true := by decide +kernel
-- the fragment excludes what the boundary theorems use
example : FlatSeq 2 (flatGroup .seq 1 (some 2) [⟨1, [qa], 2, some 3⟩]) = false := by decide

end XsVerif.Props.C01Exact
