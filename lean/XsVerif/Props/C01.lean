/-
  C01 — child sequences are valid exactly when they are in the content-model language.
  ONLY property theorems and non-vacuity examples live here.
-/
import XsVerif.Lemmas.Rx
import XsVerif.Model.Visitor

namespace XsVerif.Props.C01
open XsVerif XsVerif.CM XsVerif.Wildcard

/-- The oracle used as the judge of the property decides the language of the content model,
    for every model (any nesting, any occurrence ranges, wildcards, substitution groups,
    xs:all) and every child sequence. -/
theorem oracle_decides_language (p : Particle) (w : List QN) :
    inModel p w = true ↔ InModel p w := by
  unfold inModel InModel
  exact Rx.accepts_iff Leaf.matches p.toRx w

/-- The same with XSD 1.1 open content wrapped around the model. -/
theorem oracle_decides_open_content (mode : OpenMode) (wl : Leaf) (p : Particle) (w : List QN) :
    Rx.accepts Leaf.matches (withOpen mode wl p.toRx) w = true ↔
      Rx.Lang Leaf.matches (withOpen mode wl p.toRx) w :=
  Rx.accepts_iff Leaf.matches _ w

/-- A rejected child sequence yields at least one children error (attached to the parent by
    construction of `childErrors`, whose errors are all reported on the parent element). -/
theorem rejected_reports_error (A : Arena) (n root : Nat) (w : List QN) (oc : OC)
    (h : verdict A n root w oc = false) : (childErrors A n root w oc).errors ≠ [] := by
  unfold verdict at h
  intro he
  rw [he] at h
  simp at h

/-- every child step only appends errors carrying the index of the child it processes -/
theorem childStep_errors (A : Arena) (oc : OC) (n root i : Nat) (q : QN) :
    ∀ (fuel : Nat) (ls : LoopSt) (e : ChildErr), e ∈ (childStep A oc n root i q fuel ls).errors →
      e ∈ ls.errors ∨ e.index = i := by
  intro fuel
  induction fuel with
  | zero =>
    intro ls e h
    unfold childStep at h
    simp only [List.mem_append, List.mem_singleton] at h
    rcases h with h | h
    · exact .inl h
    · exact .inr (by rw [h])
  | succ f ih =>
    intro ls e h
    unfold childStep at h
    simp only at h
    repeat' split at h
    all_goals first
      | exact .inl h
      | (simp only [List.mem_append, List.mem_singleton] at h
         rcases h with h | h
         · exact .inl h
         · exact .inr (by rw [h]))
      | (simp only [List.mem_append, List.mem_map] at h
         rcases h with h | ⟨x, _, rfl⟩
         · exact .inl h
         · exact .inr rfl)
      | (rcases ih _ e h with h' | h'
         · exact .inl h'
         · exact .inr h')

/-- The index recorded with a children error designates a child of the parent, or `len` for
    "content ended too early": it never points outside the parent's child list. -/
theorem error_index_in_range (A : Arena) (n root : Nat) (w : List QN) (oc : OC) :
    ∀ e ∈ (childErrors A n root w oc).errors, e.index ≤ w.length := by
  intro e he
  unfold childErrors at he
  simp only at he
  split at he
  · simp only [List.mem_singleton] at he; subst he; exact Nat.zero_le _
  · simp only [List.mem_append] at he
    rcases he with he | he
    · -- errors accumulated by the fold carry indices of `zipIdx`
      have key : ∀ (l : List (QN × Nat)) (ls : LoopSt),
          (∀ x ∈ l, x.2 < w.length) → (∀ e ∈ ls.errors, e.index ≤ w.length) →
          ∀ e ∈ (l.foldl (fun ls (x : QN × Nat) => childStep A oc n root x.2 x.1 (4 * A.size + 8) ls) ls).errors,
            e.index ≤ w.length := by
        intro l
        induction l with
        | nil => intro ls _ h e he; exact h e he
        | cons x t ih =>
          intro ls hl h e he
          simp only [List.foldl_cons] at he
          apply ih _ (fun y hy => hl y (List.mem_cons_of_mem _ hy)) _ e he
          intro e' he'
          rcases childStep_errors A oc n root x.2 x.1 _ ls e' he' with h' | h'
          · exact h e' h'
          · rw [h']; exact Nat.le_of_lt (hl x (List.mem_cons_self))
      refine key w.zipIdx _ ?_ ?_ e he
      · intro x hx
        have := List.mem_zipIdx hx
        simp at this
        omega
      · intro e he; simp at he
    · split at he
      · simp at he
      · split at he
        · simp only [List.mem_singleton] at he; subst he; exact Nat.le_refl _
        · simp at he

/-! ### no foreign child is ever accepted (holds for the whole algorithm, every model) -/

theorem leafMatches_base (A : Arena) (c : Option Cnt) (e : Nat) (q : QN)
    (h : leafMatches A c e q = true) : baseMatch A e q = true := by
  unfold leafMatches at h
  unfold baseMatch
  simp only at h ⊢
  cases hk : (A.node e).kind <;> simp only [hk] at h ⊢
  · exact h
  · simp only [Bool.and_eq_true] at h
    exact h.1
  all_goals cases h

theorem visitorMatchO_base (A : Arena) (oc : OC) (s : St) (q : QN)
    (h : (visitorMatchO A oc s q).1 = true) : ∃ e, baseMatch A e q = true := by
  unfold visitorMatchO at h
  simp only at h
  have hv : visitorMatch A s q = true → ∃ e, baseMatch A e q = true := by
    intro hv
    unfold visitorMatch at hv
    split at hv
    · cases hv
    · rename_i e _
      split at hv
      · cases hv
      · exact ⟨e, leafMatches_base A _ e q hv⟩
  split at h
  · exact hv h
  · split at h
    · exact hv h
    · split at h
      · cases h
      · rename_i hw
        simp only [Bool.not_eq_true, Bool.not_eq_false'] at hw
        exact ⟨oc.wild, leafMatches_base A _ _ q (by simpa using hw)⟩

theorem append_singleton_ne_self {α : Type} (l : List α) (x : α) : l ++ [x] ≠ l := by
  intro h
  have := congrArg List.length h
  simp at this

/-- a child step that reports no new error has matched the child with some leaf -/
theorem childStep_silent_matched (A : Arena) (oc : OC) (n root i : Nat) (q : QN) :
    ∀ (fuel : Nat) (ls : LoopSt), (childStep A oc n root i q fuel ls).errors = ls.errors →
      ∃ e, baseMatch A e q = true := by
  intro fuel
  induction fuel with
  | zero =>
    intro ls h
    unfold childStep at h
    exact absurd h (append_singleton_ne_self _ _)
  | succ f ih =>
    intro ls h
    unfold childStep at h
    simp only at h
    split at h
    · -- model ended: model-less match
      split at h
      · exact absurd h (append_singleton_ne_self _ _)
      · rename_i e he
        have := List.find?_some he
        exact ⟨e, leafMatches_base A none e q this⟩
    · split at h
      · rename_i hm
        exact visitorMatchO_base A oc ls.s q hm
      · split at h <;> split at h
        all_goals first
          | exact absurd h (append_singleton_ne_self _ _)
          | exact ih _ h

/-- a child step never removes errors -/
theorem childStep_extends (A : Arena) (oc : OC) (n root i : Nat) (q : QN) :
    ∀ (fuel : Nat) (ls : LoopSt), ∃ t, (childStep A oc n root i q fuel ls).errors = ls.errors ++ t := by
  intro fuel
  induction fuel with
  | zero => intro ls; unfold childStep; exact ⟨_, rfl⟩
  | succ f ih =>
    intro ls
    unfold childStep
    simp only
    repeat' split
    all_goals first
      | exact ⟨_, rfl⟩
      | exact ih _
      | (refine ⟨[], ?_⟩; simp)

/-- **An accepted child sequence contains only children that some particle of the model (or the
    open-content wildcard) can match**: the implementation's algorithm never lets a foreign
    child through, for every model, nesting, occurrence range and word. -/
theorem accepted_children_admitted (A : Arena) (n root : Nat) (w : List QN) (oc : OC)
    (h : verdict A n root w oc = true) : ∀ q ∈ w, ∃ e, baseMatch A e q = true := by
  unfold verdict childErrors at h
  simp only at h
  split at h
  · simp at h
  · simp only [List.isEmpty_iff, List.append_eq_nil_iff] at h
    have key : ∀ (l : List (QN × Nat)) (ls : LoopSt),
        (l.foldl (fun ls (x : QN × Nat) => childStep A oc n root x.2 x.1 (4 * A.size + 8) ls) ls).errors = [] →
        ls.errors = [] ∧ ∀ x ∈ l, ∃ e, baseMatch A e x.1 = true := by
      intro l
      induction l with
      | nil => intro ls h; exact ⟨h, by simp⟩
      | cons x t ih =>
        intro ls h
        simp only [List.foldl_cons] at h
        obtain ⟨h1, h2⟩ := ih _ h
        obtain ⟨t', ht'⟩ := childStep_extends A oc n root x.2 x.1 (4 * A.size + 8) ls
        rw [ht'] at h1
        obtain ⟨hl, ht0⟩ := List.append_eq_nil_iff.mp h1
        refine ⟨hl, ?_⟩
        intro y hy
        rcases List.mem_cons.mp hy with rfl | hy
        · apply childStep_silent_matched A oc n root y.2 y.1 (4 * A.size + 8) ls
          rw [ht', ht0, List.append_nil]
        · exact h2 y hy
    obtain ⟨-, hall⟩ := key w.zipIdx _ h.1
    intro q hq
    obtain ⟨i, hi⟩ : ∃ i, (q, i) ∈ w.zipIdx := by
      obtain ⟨k, hk, rfl⟩ := List.getElem_of_mem hq
      exact ⟨k, by simp [List.mem_zipIdx_iff_getElem?, List.getElem?_eq_getElem hk]⟩
    exact hall (q, i) hi

/-! ### the pinned ModelVisitor is not a decision procedure (finding C01-F0)

The full statement  `∀ p w, Det p → verdict (arena p) w = inModel p w`  is FALSE for the pinned
algorithm; the three root causes below are kernel-evaluated on the port and replayed on the real
code by the harness (corpus/C01).  What is claimed for the visitor is the correspondence
(port = implementation on every explored case) and the exact-match rule of the known finding. -/

private def qa : QN := ⟨"urn:t", "a"⟩
private def qb : QN := ⟨"urn:t", "b"⟩
private def qc : QN := ⟨"urn:t", "c"⟩

/-- `(b{2,3}){1,2}` -/
def mGreedy : Particle := .group 0 .seq 1 (some 2) (.cons (.leaf (.elem 1 [qb]) 2 (some 3)) .nil)
/-- `(b?, choice(a?))` -/
def mChoiceExcess : Particle :=
  .group 0 .seq 1 (some 1) (.cons (.leaf (.elem 1 [qb]) 0 (some 1))
    (.cons (.group 2 .choice 1 (some 1) (.cons (.leaf (.elem 3 [qa]) 0 (some 1)) .nil)) .nil))
/-- `(c?){2,2}` -/
def mEmptiable : Particle := .group 0 .seq 2 (some 2) (.cons (.leaf (.elem 1 [qc]) 0 (some 1)) .nil)

/-- greedy split: `bbbb ∈ L((b{2,3}){1,2})` but the visitor rejects it -/
theorem visitor_counterexample_greedy_split :
    inModel mGreedy [qb, qb, qb, qb] = true ∧
    verdict (mkArena 2 mGreedy.flatten) 2 0 [qb, qb, qb, qb] = false := by decide +kernel

/-- nested choice never checks its excess: `baa ∉ L((b?, choice(a?)))` but the visitor accepts it -/
theorem visitor_counterexample_choice_excess :
    inModel mChoiceExcess [qb, qa, qa] = false ∧
    verdict (mkArena 4 mChoiceExcess.flatten) 4 0 [qb, qa, qa] = true := by decide +kernel

/-- emptiable repeated group: `c ∈ L((c?){2,2})` but the visitor rejects it -/
theorem visitor_counterexample_emptiable_repeat :
    inModel mEmptiable [qc] = true ∧
    verdict (mkArena 2 mEmptiable.flatten) 2 0 [qc] = false := by decide +kernel

/-! ### non-vacuity -/

example : InModel mGreedy [qb, qb, qb, qb] :=
  (oracle_decides_language _ _).mp (by decide +kernel)
example : ¬ InModel mChoiceExcess [qb, qa, qa] := fun h =>
  absurd ((oracle_decides_language _ _).mpr h) (by decide +kernel)
example : verdict (mkArena 2 mGreedy.flatten) 2 0 [qb, qb, qb] = true := by decide +kernel

end XsVerif.Props.C01
