/-
  C01 — child sequences are valid exactly when they are in the content-model language.
  ONLY property theorems and non-vacuity examples live here.
-/
import XsVerif.Lemmas.Rx
import XsVerif.Model.Visitor

namespace XsVerif.Props.C01
open XsVerif XsVerif.CM XsVerif.Wildcard

/-- The oracle used as the judge of the property decides the language of the content model,
    for every model (any nesting, any occurrence ranges, wildcards, substitution groups,
    xs:all) and every child sequence. -/
theorem oracle_decides_language (p : Particle) (w : List QN) :
    inModel p w = true ↔ InModel p w := by
  unfold inModel InModel
  exact Rx.accepts_iff Leaf.matches p.toRx w

/-- The same with XSD 1.1 open content wrapped around the model. -/
theorem oracle_decides_open_content (mode : OpenMode) (wl : Leaf) (p : Particle) (w : List QN) :
    Rx.accepts Leaf.matches (withOpen mode wl p.toRx) w = true ↔
      Rx.Lang Leaf.matches (withOpen mode wl p.toRx) w :=
  Rx.accepts_iff Leaf.matches _ w

/-- A rejected child sequence yields at least one children error (attached to the parent by
    construction of `childErrors`, whose errors are all reported on the parent element). -/
theorem rejected_reports_error (A : Arena) (n root : Nat) (w : List QN) (oc : OC)
    (h : verdict A n root w oc = false) : (childErrors A n root w oc).errors ≠ [] := by
  unfold verdict at h
  intro he
  rw [he] at h
  simp at h

/-- every child step only appends errors carrying the index of the child it processes -/
theorem childStep_errors (A : Arena) (oc : OC) (n root i : Nat) (q : QN) :
    ∀ (fuel : Nat) (ls : LoopSt) (e : ChildErr), e ∈ (childStep A oc n root i q fuel ls).errors →
      e ∈ ls.errors ∨ e.index = i := by
  intro fuel
  induction fuel with
  | zero => intro ls e h; exact .inl h
  | succ f ih =>
    intro ls e h
    unfold childStep at h
    simp only at h
    repeat' split at h
    all_goals first
      | exact .inl h
      | (simp only [List.mem_append, List.mem_singleton] at h
         rcases h with h | h
         · exact .inl h
         · exact .inr (by rw [h]))
      | (simp only [List.mem_append, List.mem_map] at h
         rcases h with h | ⟨x, _, rfl⟩
         · exact .inl h
         · exact .inr rfl)
      | (rcases ih _ e h with h' | h'
         · exact .inl h'
         · exact .inr h')

/-- The index recorded with a children error designates a child of the parent, or `len` for
    "content ended too early": it never points outside the parent's child list. -/
theorem error_index_in_range (A : Arena) (n root : Nat) (w : List QN) (oc : OC) :
    ∀ e ∈ (childErrors A n root w oc).errors, e.index ≤ w.length := by
  intro e he
  unfold childErrors at he
  simp only at he
  split at he
  · simp only [List.mem_singleton] at he; subst he; exact Nat.zero_le _
  · simp only [List.mem_append] at he
    rcases he with he | he
    · -- errors accumulated by the fold carry indices of `zipIdx`
      have key : ∀ (l : List (QN × Nat)) (ls : LoopSt),
          (∀ x ∈ l, x.2 < w.length) → (∀ e ∈ ls.errors, e.index ≤ w.length) →
          ∀ e ∈ (l.foldl (fun ls (x : QN × Nat) => childStep A oc n root x.2 x.1 (4 * A.size + 8) ls) ls).errors,
            e.index ≤ w.length := by
        intro l
        induction l with
        | nil => intro ls _ h e he; exact h e he
        | cons x t ih =>
          intro ls hl h e he
          simp only [List.foldl_cons] at he
          apply ih _ (fun y hy => hl y (List.mem_cons_of_mem _ hy)) _ e he
          intro e' he'
          rcases childStep_errors A oc n root x.2 x.1 _ ls e' he' with h' | h'
          · exact h e' h'
          · rw [h']; exact Nat.le_of_lt (hl x (List.mem_cons_self))
      refine key w.zipIdx _ ?_ ?_ e he
      · intro x hx
        have := List.mem_zipIdx hx
        simp at this
        omega
      · intro e he; simp at he
    · split at he
      · simp at he
      · split at he
        · simp only [List.mem_singleton] at he; subst he; exact Nat.le_refl _
        · simp at he

/-! ### the pinned ModelVisitor is not a decision procedure (finding C01-F0)

The full statement  `∀ p w, Det p → verdict (arena p) w = inModel p w`  is FALSE for the pinned
algorithm; the three root causes below are kernel-evaluated on the port and replayed on the real
code by the harness (corpus/C01).  What is claimed for the visitor is the correspondence
(port = implementation on every explored case) and the exact-match rule of the known finding. -/

private def qa : QN := ⟨"urn:t", "a"⟩
private def qb : QN := ⟨"urn:t", "b"⟩
private def qc : QN := ⟨"urn:t", "c"⟩

/-- `(b{2,3}){1,2}` -/
def mGreedy : Particle := .group 0 .seq 1 (some 2) (.cons (.leaf (.elem 1 [qb]) 2 (some 3)) .nil)
/-- `(b?, choice(a?))` -/
def mChoiceExcess : Particle :=
  .group 0 .seq 1 (some 1) (.cons (.leaf (.elem 1 [qb]) 0 (some 1))
    (.cons (.group 2 .choice 1 (some 1) (.cons (.leaf (.elem 3 [qa]) 0 (some 1)) .nil)) .nil))
/-- `(c?){2,2}` -/
def mEmptiable : Particle := .group 0 .seq 2 (some 2) (.cons (.leaf (.elem 1 [qc]) 0 (some 1)) .nil)

/-- greedy split: `bbbb ∈ L((b{2,3}){1,2})` but the visitor rejects it -/
theorem visitor_counterexample_greedy_split :
    inModel mGreedy [qb, qb, qb, qb] = true ∧
    verdict (mkArena 2 mGreedy.flatten) 2 0 [qb, qb, qb, qb] = false := by decide +kernel

/-- nested choice never checks its excess: `baa ∉ L((b?, choice(a?)))` but the visitor accepts it -/
theorem visitor_counterexample_choice_excess :
    inModel mChoiceExcess [qb, qa, qa] = false ∧
    verdict (mkArena 4 mChoiceExcess.flatten) 4 0 [qb, qa, qa] = true := by decide +kernel

/-- emptiable repeated group: `c ∈ L((c?){2,2})` but the visitor rejects it -/
theorem visitor_counterexample_emptiable_repeat :
    inModel mEmptiable [qc] = true ∧
    verdict (mkArena 2 mEmptiable.flatten) 2 0 [qc] = false := by decide +kernel

/-! ### non-vacuity -/

example : InModel mGreedy [qb, qb, qb, qb] :=
  (oracle_decides_language _ _).mp (by decide +kernel)
example : ¬ InModel mChoiceExcess [qb, qa, qa] := fun h =>
  absurd ((oracle_decides_language _ _).mpr h) (by decide +kernel)
example : verdict (mkArena 2 mGreedy.flatten) 2 0 [qb, qb, qb] = true := by decide +kernel

end XsVerif.Props.C01
