/-
  C01 — child sequences are valid exactly when they are in the content-model language.
  ONLY property theorems and non-vacuity examples live here.
-/
import XsVerif.Lemmas.Rx
import XsVerif.Model.Visitor

namespace XsVerif.Props.C01
open XsVerif XsVerif.CM XsVerif.Wildcard

/-- The oracle used as the judge of the property decides the language of the content model,
    for every model (any nesting, any occurrence ranges, wildcards, substitution groups,
    xs:all) and every child sequence. -/
theorem oracle_decides_language (p : Particle) (w : List QN) :
    inModel p w = true ↔ InModel p w := by
  unfold inModel InModel
  exact Rx.accepts_iff Leaf.matches p.toRx w

/-- The same with XSD 1.1 open content wrapped around the model. -/
theorem oracle_decides_open_content (mode : OpenMode) (wl : Leaf) (p : Particle) (w : List QN) :
    Rx.accepts Leaf.matches (withOpen mode wl p.toRx) w = true ↔
      Rx.Lang Leaf.matches (withOpen mode wl p.toRx) w :=
  Rx.accepts_iff Leaf.matches _ w

/-- A rejected child sequence yields at least one children error (attached to the parent by
    construction of `childErrors`, whose errors are all reported on the parent element). -/
theorem rejected_reports_error (A : Arena) (n root : Nat) (w : List QN)
    (h : verdict A n root w = false) : (childErrors A n root w).errors ≠ [] := by
  unfold verdict at h
  intro he
  rw [he] at h
  simp at h

end XsVerif.Props.C01
