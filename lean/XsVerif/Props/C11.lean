/-
  C11 — every input ends in a verdict or a library error; documented limits hold.
  ONLY property theorems and non-vacuity examples live here.

  English property (properties.jsonl):
    For any document (well-formed or not) and any built schema, validation and decoding terminate
    with a verdict or raise an exception of the library's own hierarchy - never another exception
    type - and lax mode never raises for invalid content.  Documents deeper than the configured
    depth limit, or larger than the element limit when fully loaded, are refused with the
    documented resource error, while documents within the limits are processed.

  What is proved here (for every document tree / every sequence of assignments / the tables
  regenerated from the source on each run): the limit arithmetic of the parse loops, the limit
  setters, the closure of the exception hierarchy, the coverage of the conversion handlers, and
  that lax / skip runs never raise.  Termination and the absence of foreign exceptions in the
  interpreter itself are runtime facts: they are monitored by the mutation/fuzz exploration
  (harness/props/c11.py), not proved.
-/
import XsVerif.Model.Limits
import XsVerif.Lemmas.Limits
import XsVerif.Lemmas.Modes
import XsVerif.Generated.C11

namespace XsVerif.Props.C11
open XsVerif.Limits XsVerif.Generated.C11

/-! ### documented limits -/

/-- **Eager (fully loaded) resources.**  For every document tree, every depth limit `L` and every
    element limit `E`: the parse loop completes exactly when the tree is at most `L` deep and has
    at most `E` elements — refused only when a limit is *exceeded*. -/
theorem eager_limit_spec (L E : Nat) (f : Forest) :
    eagerParse L E f.events = .ok ↔ f.depth ≤ L ∧ f.size ≤ E := by
  unfold eagerParse
  constructor
  · intro h
    by_cases hc : (L : Int) < f.depth ∨ (E : Int) < f.size
    · have := eagerGo_exceeds f [] L E (by omega) (by omega) hc
      simp [h] at this
    · omega
  · intro ⟨hd, hs⟩
    have := eagerGo_within f [] L E (by omega) (by omega)
    simpa [eagerGo] using this

/-- … and what it raises otherwise is the documented resource error. -/
theorem eager_refusal_is_resource_error (L E : Nat) (evs : List Ev) (h : eagerParse L E evs ≠ .ok) :
    (eagerParse L E evs).excName = some "XMLResourceExceeded" := by
  cases hr : eagerParse L E evs <;> simp_all [ParseRes.excName]

/-- **Lazy resources**: only the depth limit applies (the element limit "not affects lazy
    resources", limits.py). -/
theorem lazy_limit_spec (L : Nat) (f : Forest) : lazyParse L f.events = .ok ↔ f.depth ≤ L := by
  unfold lazyParse
  constructor
  · intro h
    by_cases hc : (L : Int) < f.depth
    · have := lazyGo_exceeds f [] L (by omega) hc
      simp [h] at this
    · omega
  · intro hd
    have := lazyGo_within f [] L (by omega)
    simpa [lazyGo] using this

/-- a two-level document with three elements: processed at (2, 3), refused at (1, 3) and (2, 2) -/
example : let f := Forest.cons 1 (.cons 0 (.nil 0) (.cons 2 (.nil 1) (.nil 0))) (.nil 0)
    f.depth = 2 ∧ f.size = 3 ∧ eagerParse 2 3 f.events = .ok ∧ eagerParse 1 3 f.events = .depthExceeded ∧
    eagerParse 2 2 f.events = .elementsExceeded ∧ lazyParse 2 f.events = .ok := by decide

/-- the loop before commit 478fd1c refused a document whose depth *equals* the limit (and one whose
    element count equals the limit): record of the repaired defect C11-F1. -/
theorem depth_limit_off_by_one_counterexample :
    let chain2 := Forest.cons 0 (.cons 0 (.nil 0) (.nil 0)) (.nil 0)
    chain2.depth = 2 ∧ chain2.size = 2 ∧
    eagerGoPinned chain2.events 2 10 = .depthExceeded ∧ eagerGoPinned chain2.events 10 2 = .elementsExceeded ∧
    eagerParse 2 2 chain2.events = .ok := by decide

/-! ### limit setters -/

def Limits.admissible (l : Limits) : Prop :=
  ∀ a : Limit, minOf a ≤ l.get a

theorem setLimit_ok_iff (l : Limits) (a : Limit) (v : Option Int) :
    (∃ l', setLimit l a v = .ok l') ↔ ∃ n, v = some n ∧ minOf a ≤ n := by
  unfold setLimit
  cases v with
  | none => simp
  | some n => by_cases h : n < minOf a <;> simp [h] <;> omega

/-- **Limit setters guard the minima**: whatever sequence of assignments is attempted (accepted or
    rejected, ints or not), every limit stays at or above its documented minimum — in particular
    the depth and element limits can never be switched off by a zero or negative value. -/
theorem limit_setters_guard (ops : List (Limit × Option Int)) (l : Limits) (h : Limits.admissible l) :
    Limits.admissible (applyAll l ops) := by
  induction ops generalizing l with
  | nil => exact h
  | cons op k ih =>
    obtain ⟨a, v⟩ := op
    unfold applyAll
    cases hv : v with
    | none => simpa [setLimit] using ih l h
    | some n =>
      by_cases hn : n < minOf a
      · simpa [setLimit, hn] using ih l h
      · simp only [setLimit, hn, if_false]
        apply ih
        intro b
        have hb := h b
        cases a <;> cases b <;> simp_all [Limits.put, Limits.get, minOf] <;> omega

/-- the defaults regenerated from the source are admissible and equal the documented values, and
    the minima probed through the real setter are the ones of the model. -/
theorem generated_limits_match : limitDefaults = defaults ∧ Limits.admissible limitDefaults ∧
    limitMinima = [(.modelDepth, minOf .modelDepth), (.schemaSources, minOf .schemaSources),
                   (.xmlDepth, minOf .xmlDepth), (.xmlElements, minOf .xmlElements)] := by
  refine ⟨by decide, ?_, by decide⟩
  intro a; cases a <;> decide

example : applyAll defaults [(.xmlDepth, some 0), (.xmlDepth, none), (.xmlElements, some 7), (.modelDepth, some 4)]
    = ⟨15, 1000, 1000, 7⟩ := by decide

/-! ### exception hierarchy (tables regenerated from the source on every run) -/

def lookup (n : String) : Option Exc := excTable.find? (·.name == n)

/-- every error class the package exports or defines derives from `XMLSchemaException`:
    catching the root catches every library error. -/
theorem library_errors_closed :
    ∀ n ∈ libraryErrors, ∃ c, lookup n = some c ∧ classify (some c) = .libraryError := by decide

theorem public_errors_are_library_errors : ∀ n ∈ publicErrors, n ∈ libraryErrors := by decide

/-- the documented resource error is a library error -/
theorem resource_exceeded_is_library_error :
    ∃ c, lookup "XMLResourceExceeded" = some c ∧ classify (some c) = .libraryError ∧
      "XMLResourceError" ∈ c.mro := by decide

/-- the classification is not trivial: the interpreter's own errors are foreign -/
theorem foreign_examples : ∀ n ∈ ["RecursionError", "OverflowError", "KeyError", "ValueError", "ParseError"],
    ∃ c, lookup n = some c ∧ classify (some c) = .foreign := by decide

/-! ### handler coverage

  Full statement (false for the code as it is — findings C11-F4, C11-F5, C11-F6, C11-F8, C11-F9):
    `∀ s ∈ sites, ∀ c ∈ raisableAt s.name, catches s.handlers c = true`.
  Proved with the listed gaps excluded; each gap has its counter-example on the handler list
  as written in the source today, and a fix in notes/fixes that closes it. -/

def raisableAt (site : String) : List Exc :=
  match raisable.find? (·.1 == site) with
  | some p => p.2
  | none => []

/-- (site, exception class) pairs known not to be covered -/
def knownGaps : List (String × String) :=
  [("builtin.to_python:skip", "OverflowError"), ("group.check_dynamic_context", "XMLSchemaKeyError"),
   ("xml_loader._parse", "LookupError"), ("xml_loader._parse", "ValueError"), ("xml_loader._parse", "UnicodeError"),
   ("xml_loader._lazy_iterparse", "LookupError"), ("xml_loader._lazy_iterparse", "ValueError"),
   ("xml_loader._lazy_iterparse", "UnicodeError"),
   ("assertion.evaluate", "InvalidOperation"), ("assertion.evaluate", "ValueError")]

/-- every exception class observed under a conversion site is caught by that site's handlers,
    except for the listed gaps -/
theorem handlers_cover_partial :
    ∀ s ∈ sites, ∀ c ∈ raisableAt s.name, (s.name, c.name) ∉ knownGaps → catches s.handlers c = true := by
  decide

example : (sites.map (·.name)).length = 7 ∧ (raisableAt "builtin.to_python:validate").length ≥ 3 := by decide

/-- C11-F4: the skip-mode handler `(ValueError, TypeError, DecimalException)` does not catch the
    OverflowError that the date/gYear converters raise for a huge year … -/
theorem handlers_cover_counterexample_skip :
    catches ["ValueError", "TypeError", "DecimalException"]
      ⟨"OverflowError", ["OverflowError", "ArithmeticError", "Exception", "BaseException", "object"]⟩ = false ∧
    catches ["ValueError", "TypeError", "ArithmeticError"]
      ⟨"OverflowError", ["OverflowError", "ArithmeticError", "Exception", "BaseException", "object"]⟩ = true := by
  decide

/-- C11-F5: … and `(XMLSchemaValidationError, TypeError)` around `check_dynamic_context` does not
    catch the XMLSchemaKeyError of an unknown xsi:type, while `(KeyError, TypeError)` (elements.py)
    and the proposed `(XMLSchemaValidationError, KeyError, TypeError)` do. -/
theorem handlers_cover_counterexample_xsi_type :
    let k : Exc := ⟨"XMLSchemaKeyError", ["XMLSchemaKeyError", "XMLSchemaException", "KeyError", "LookupError",
                                        "Exception", "BaseException", "object"]⟩
    catches ["XMLSchemaValidationError", "TypeError"] k = false ∧ catches ["KeyError", "TypeError"] k = true ∧
    catches ["XMLSchemaValidationError", "KeyError", "TypeError"] k = true := by decide

/-- C11-F6: `except SyntaxError` around the parse loops does not catch what the parser raises for an
    encoding it cannot handle (LookupError "unknown encoding", ValueError "multi-byte encodings are
    not supported"); the proposed `(SyntaxError, LookupError, ValueError)` does, and still catches
    ParseError. -/
theorem handlers_cover_counterexample_parse :
    let lk : Exc := ⟨"LookupError", ["LookupError", "Exception", "BaseException", "object"]⟩
    let ve : Exc := ⟨"ValueError", ["ValueError", "Exception", "BaseException", "object"]⟩
    let pe : Exc := ⟨"ParseError", ["ParseError", "SyntaxError", "Exception", "BaseException", "object"]⟩
    catches ["SyntaxError"] lk = false ∧ catches ["SyntaxError"] ve = false ∧ catches ["SyntaxError"] pe = true ∧
    catches ["SyntaxError", "LookupError", "ValueError"] lk = true ∧
    catches ["SyntaxError", "LookupError", "ValueError"] ve = true := by decide

/-- C11-F8 / C11-F9: `except ElementPathError` around the evaluation of an XSD 1.1 assertion does not
    catch the decimal.InvalidOperation of a NaN comparison (F8) nor the plain ValueError that
    elementpath raises for a malformed xsi:type QName in the subtree (F9). -/
theorem handlers_cover_counterexample_assert :
    let io : Exc := ⟨"InvalidOperation", ["InvalidOperation", "DecimalException", "ArithmeticError", "Exception",
                                          "BaseException", "object"]⟩
    let ve : Exc := ⟨"ValueError", ["ValueError", "Exception", "BaseException", "object"]⟩
    catches ["ElementPathError"] io = false ∧ catches ["ElementPathError"] ve = false ∧
    catches ["ElementPathError", "ValueError", "ArithmeticError"] io = true ∧
    catches ["ElementPathError", "ValueError", "ArithmeticError"] ve = true := by decide

/-! ### lax and skip never raise (raise_or_collect, shared with C04) -/

/-- whatever error events the descent produces, a lax run and a skip run end normally: the only
    primitive through which validation errors leave the descent raises in strict mode only. -/
theorem lax_and_skip_never_raise {D : Type} (s : List (Modes.Step D)) (buf : List Modes.Err) :
    (Modes.gen .lax s buf).raised = none ∧ (Modes.gen .skip s buf).raised = none :=
  ⟨Modes.gen_lax_raised s buf, Modes.gen_skip_raised s buf⟩

end XsVerif.Props.C11
