/-
  C11 — every input ends in a verdict or a library error; documented limits hold.
  ONLY property theorems and non-vacuity examples live here.

  English property (properties.jsonl):
    For any document (well-formed or not) and any built schema, validation and decoding terminate
    with a verdict or raise an exception of the library's own hierarchy - never another exception
    type - and lax mode never raises for invalid content.  Documents deeper than the configured
    depth limit, or larger than the element limit when fully loaded, are refused with the
    documented resource error, while documents within the limits are processed.

  What is proved here (for every document tree / every sequence of assignments / the tables
  regenerated from the source on each run): the limit arithmetic of the parse loops, the limit
  setters, the closure of the exception hierarchy, the coverage of the conversion handlers, and
  that lax / skip runs never raise.  Termination and the absence of foreign exceptions in the
  interpreter itself are runtime facts: they are monitored by the mutation/fuzz exploration
  (harness/props/c11.py), not proved.
-/
import XsVerif.Model.Limits
import XsVerif.Lemmas.Limits
import XsVerif.Lemmas.Modes
import XsVerif.Lemmas.RaisePolicy
import XsVerif.Generated.C11

namespace XsVerif.Props.C11
open XsVerif.Limits XsVerif.Generated.C11

/-! ### documented limits -/

/-- **Eager (fully loaded) resources.**  For every document tree, every depth limit `L` and every
    element limit `E`: the parse loop completes exactly when the tree is at most `L` deep and has
    at most `E` elements — refused only when a limit is *exceeded*. -/
theorem eager_limit_spec (L E : Nat) (f : Forest) :
    eagerParse L E f.events = .ok ↔ f.depth ≤ L ∧ f.size ≤ E := by
  unfold eagerParse
  constructor
  · intro h
    by_cases hc : (L : Int) < f.depth ∨ (E : Int) < f.size
    · have := eagerGo_exceeds f [] L E (by omega) (by omega) hc
      simp [h] at this
    · omega
  · intro ⟨hd, hs⟩
    have := eagerGo_within f [] L E (by omega) (by omega)
    simpa [eagerGo] using this

/-- … and what it raises otherwise is the documented resource error. -/
theorem eager_refusal_is_resource_error (L E : Nat) (evs : List Ev) (h : eagerParse L E evs ≠ .ok) :
    (eagerParse L E evs).excName = some "XMLResourceExceeded" := by
  cases hr : eagerParse L E evs <;> simp_all [ParseRes.excName]

/-- **Lazy resources**: only the depth limit applies (the element limit "not affects lazy
    resources", limits.py). -/
theorem lazy_limit_spec (L : Nat) (f : Forest) : lazyParse L f.events = .ok ↔ f.depth ≤ L := by
  unfold lazyParse
  constructor
  · intro h
    by_cases hc : (L : Int) < f.depth
    · have := lazyGo_exceeds f [] L (by omega) hc
      simp [h] at this
    · omega
  · intro hd
    have := lazyGo_within f [] L (by omega)
    simpa [lazyGo] using this

/-- a two-level document with three elements: processed at (2, 3), refused at (1, 3) and (2, 2) -/
example : let f := Forest.cons 1 (.cons 0 (.nil 0) (.cons 2 (.nil 1) (.nil 0))) (.nil 0)
    f.depth = 2 ∧ f.size = 3 ∧ eagerParse 2 3 f.events = .ok ∧ eagerParse 1 3 f.events = .depthExceeded ∧
    eagerParse 2 2 f.events = .elementsExceeded ∧ lazyParse 2 f.events = .ok := by decide

/-- the loop before commit 478fd1c refused a document whose depth *equals* the limit (and one whose
    element count equals the limit): record of the repaired defect C11-F1. -/
theorem depth_limit_off_by_one_counterexample :
    let chain2 := Forest.cons 0 (.cons 0 (.nil 0) (.nil 0)) (.nil 0)
    chain2.depth = 2 ∧ chain2.size = 2 ∧
    eagerGoPinned chain2.events 2 10 = .depthExceeded ∧ eagerGoPinned chain2.events 10 2 = .elementsExceeded ∧
    eagerParse 2 2 chain2.events = .ok := by decide

/-! ### limit setters -/

def Limits.admissible (l : Limits) : Prop :=
  ∀ a : Limit, minOf a ≤ l.get a

theorem setLimit_ok_iff (l : Limits) (a : Limit) (v : Option Int) :
    (∃ l', setLimit l a v = .ok l') ↔ ∃ n, v = some n ∧ minOf a ≤ n := by
  unfold setLimit
  cases v with
  | none => simp
  | some n => by_cases h : n < minOf a <;> simp [h] <;> omega

/-- **Limit setters guard the minima**: whatever sequence of assignments is attempted (accepted or
    rejected, ints or not), every limit stays at or above its documented minimum — in particular
    the depth and element limits can never be switched off by a zero or negative value. -/
theorem limit_setters_guard (ops : List (Limit × Option Int)) (l : Limits) (h : Limits.admissible l) :
    Limits.admissible (applyAll l ops) := by
  induction ops generalizing l with
  | nil => exact h
  | cons op k ih =>
    obtain ⟨a, v⟩ := op
    unfold applyAll
    cases hv : v with
    | none => simpa [setLimit] using ih l h
    | some n =>
      by_cases hn : n < minOf a
      · simpa [setLimit, hn] using ih l h
      · simp only [setLimit, hn, if_false]
        apply ih
        intro b
        have hb := h b
        cases a <;> cases b <;> simp_all [Limits.put, Limits.get, minOf] <;> omega

/-- the defaults regenerated from the source are admissible and equal the documented values, and
    the minima probed through the real setter are the ones of the model. -/
theorem generated_limits_match : limitDefaults = defaults ∧ Limits.admissible limitDefaults ∧
    limitMinima = [(.modelDepth, minOf .modelDepth), (.schemaSources, minOf .schemaSources),
                   (.xmlDepth, minOf .xmlDepth), (.xmlElements, minOf .xmlElements)] := by
  refine ⟨by decide, ?_, by decide⟩
  intro a; cases a <;> decide

example : applyAll defaults [(.xmlDepth, some 0), (.xmlDepth, none), (.xmlElements, some 7), (.modelDepth, some 4)]
    = ⟨15, 1000, 1000, 7⟩ := by decide

/-! ### exception hierarchy (tables regenerated from the source on every run) -/

def lookup (n : String) : Option Exc := excTable.find? (·.name == n)

/-- every error class the package exports or defines derives from `XMLSchemaException`:
    catching the root catches every library error. -/
theorem library_errors_closed :
    ∀ n ∈ libraryErrors, ∃ c, lookup n = some c ∧ classify (some c) = .libraryError := by decide

theorem public_errors_are_library_errors : ∀ n ∈ publicErrors, n ∈ libraryErrors := by decide

/-- the documented resource error is a library error -/
theorem resource_exceeded_is_library_error :
    ∃ c, lookup "XMLResourceExceeded" = some c ∧ classify (some c) = .libraryError ∧
      "XMLResourceError" ∈ c.mro := by decide

/-- the classification is not trivial: the interpreter's own errors are foreign -/
theorem foreign_examples : ∀ n ∈ ["RecursionError", "OverflowError", "KeyError", "ValueError", "ParseError"],
    ∃ c, lookup n = some c ∧ classify (some c) = .foreign := by decide

/-! ### handler coverage

  Full statement (false for the code as it is — findings C11-F4, C11-F5, C11-F6, C11-F8, C11-F9):
    `∀ s ∈ sites, ∀ c ∈ raisableAt s.name, catches s.handlers c = true`.
  Proved with the listed gaps excluded; each gap has its counter-example on the handler list
  as written in the source today, and a fix in notes/fixes that closes it. -/

def raisableAt (site : String) : List Exc :=
  match raisable.find? (·.1 == site) with
  | some p => p.2
  | none => []

/-- (site, exception class) pairs known not to be covered -/
def knownGaps : List (String × String) :=
  [("builtin.to_python:skip", "OverflowError"), ("group.check_dynamic_context", "XMLSchemaKeyError"),
   ("xml_loader._parse", "LookupError"), ("xml_loader._parse", "ValueError"), ("xml_loader._parse", "UnicodeError"),
   ("xml_loader._lazy_iterparse", "LookupError"), ("xml_loader._lazy_iterparse", "ValueError"),
   ("xml_loader._lazy_iterparse", "UnicodeError"),
   ("assertion.evaluate", "InvalidOperation"), ("assertion.evaluate", "ValueError")]

/-- every exception class observed under a conversion site is caught by that site's handlers,
    except for the listed gaps -/
theorem handlers_cover_partial :
    ∀ s ∈ sites, ∀ c ∈ raisableAt s.name, (s.name, c.name) ∉ knownGaps → catches s.handlers c = true := by
  decide

example : (sites.map (·.name)).length = 7 ∧ (raisableAt "builtin.to_python:validate").length ≥ 3 := by decide

/-- C11-F4: the skip-mode handler `(ValueError, TypeError, DecimalException)` does not catch the
    OverflowError that the date/gYear converters raise for a huge year … -/
theorem handlers_cover_counterexample_skip :
    catches ["ValueError", "TypeError", "DecimalException"]
      ⟨"OverflowError", ["OverflowError", "ArithmeticError", "Exception", "BaseException", "object"]⟩ = false ∧
    catches ["ValueError", "TypeError", "ArithmeticError"]
      ⟨"OverflowError", ["OverflowError", "ArithmeticError", "Exception", "BaseException", "object"]⟩ = true := by
  decide

/-- C11-F5: … and `(XMLSchemaValidationError, TypeError)` around `check_dynamic_context` does not
    catch the XMLSchemaKeyError of an unknown xsi:type, while `(KeyError, TypeError)` (elements.py)
    and the proposed `(XMLSchemaValidationError, KeyError, TypeError)` do. -/
theorem handlers_cover_counterexample_xsi_type :
    let k : Exc := ⟨"XMLSchemaKeyError", ["XMLSchemaKeyError", "XMLSchemaException", "KeyError", "LookupError",
                                        "Exception", "BaseException", "object"]⟩
    catches ["XMLSchemaValidationError", "TypeError"] k = false ∧ catches ["KeyError", "TypeError"] k = true ∧
    catches ["XMLSchemaValidationError", "KeyError", "TypeError"] k = true := by decide

/-- C11-F6: `except SyntaxError` around the parse loops does not catch what the parser raises for an
    encoding it cannot handle (LookupError "unknown encoding", ValueError "multi-byte encodings are
    not supported"); the proposed `(SyntaxError, LookupError, ValueError)` does, and still catches
    ParseError. -/
theorem handlers_cover_counterexample_parse :
    let lk : Exc := ⟨"LookupError", ["LookupError", "Exception", "BaseException", "object"]⟩
    let ve : Exc := ⟨"ValueError", ["ValueError", "Exception", "BaseException", "object"]⟩
    let pe : Exc := ⟨"ParseError", ["ParseError", "SyntaxError", "Exception", "BaseException", "object"]⟩
    catches ["SyntaxError"] lk = false ∧ catches ["SyntaxError"] ve = false ∧ catches ["SyntaxError"] pe = true ∧
    catches ["SyntaxError", "LookupError", "ValueError"] lk = true ∧
    catches ["SyntaxError", "LookupError", "ValueError"] ve = true := by decide

/-- C11-F8 / C11-F9: `except ElementPathError` around the evaluation of an XSD 1.1 assertion does not
    catch the decimal.InvalidOperation of a NaN comparison (F8) nor the plain ValueError that
    elementpath raises for a malformed xsi:type QName in the subtree (F9). -/
theorem handlers_cover_counterexample_assert :
    let io : Exc := ⟨"InvalidOperation", ["InvalidOperation", "DecimalException", "ArithmeticError", "Exception",
                                          "BaseException", "object"]⟩
    let ve : Exc := ⟨"ValueError", ["ValueError", "Exception", "BaseException", "object"]⟩
    catches ["ElementPathError"] io = false ∧ catches ["ElementPathError"] ve = false ∧
    catches ["ElementPathError", "ValueError", "ArithmeticError"] io = true ∧
    catches ["ElementPathError", "ValueError", "ArithmeticError"] ve = true := by decide

/-! ### the error-collection policy over every `raise` statement of the validators

  Clause: "lax mode never raises for invalid content".  `raiseSites` is regenerated from the AST of
  xmlschema/validators on every run; `RaisePolicy.policyBase` (+ `guardEntries`) is the hand-maintained classification.
  Hypotheses of the property, under which `fire` is stated: a BUILT schema, a document given to
  the documented entry points with well-typed arguments.  The harness observes every raise of the
  package during the fuzz run and compares it with `fire` (a `silent` site that fires, a `collected`
  site whose exception leaves a lax / skip entry point: the tie is broken). -/

open XsVerif.RaisePolicy in
/-- the hand table for the variant of the source under check (`recursionGuard` is read from the AST:
    the repaired descent has two more `raise` statements, both of kind `limit`) -/
def policy : List (String × Nat × Kind) := policyOf recursionGuard

open XsVerif.RaisePolicy in
/-- the sites of the regenerated table with the kind that the walk along the hand table gives them -/
def classified : List (RaiseSite × Kind) :=
  match classifyAll raiseSites policy with
  | some l => l
  | none => []

open XsVerif.RaisePolicy in
/-- **every `raise` statement is classified, and the hand table matches the source exactly**: the
    walk succeeds — every statement that is not enclosed by `if validation == 'strict'` has an entry
    for its (function, class), every entry lists exactly as many statements as the source has, no
    entry is left over — and the classified list is the whole regenerated table, in order.
    A `raise` added to the code, moved to another function or removed breaks this until `policy`
    is updated. -/
theorem raise_sites_classified :
    classifyAll raiseSites policy = some classified ∧ classified.map Prod.fst = raiseSites := by
  have h : classifyAll raiseSites policy = some classified := by decide +kernel
  exact ⟨h, classifyAll_fst _ _ _ h⟩

open XsVerif.RaisePolicy in
/-- a site is treated as strict-guarded exactly when the AST says `if validation == 'strict'`
    encloses it: the hand table cannot declare a site strict-guarded. -/
theorem strict_guard_kind_iff : ∀ x ∈ classified, (x.2 = Kind.strictGuard ↔ x.1.guard = Guard.strict) :=
  classifyAll_strict raiseSites policy classified raise_sites_classified.1 (by decide +kernel)

open XsVerif.RaisePolicy in
/-- **site level**: no site is of kind `content`; hence in lax and in skip mode every `raise`
    statement of the validators either does nothing, or hands its error to raise_or_collect, or is
    a resource / stop site (XMLSchemaModelDepthError, XMLSchemaStopValidation).
    Full statement of the clause over the table — no `_partial` needed: the table has no violating site. -/
theorem lax_skip_sites_never_raise_for_content :
    ∀ x ∈ classified, ∀ m, m ≠ Modes.Mode.strict →
      fire x.2 x.1.guard m = .silent ∨ fire x.2 x.1.guard m = .collected ∨ x.2.resourceOrStop = true := by
  have hc : ∀ x ∈ classified, x.2 ≠ Kind.content := by decide +kernel
  intro x hx m hm
  cases hf : fire x.2 x.1.guard m with
  | silent => exact Or.inl rfl
  | collected => exact Or.inr (Or.inl rfl)
  | escapes =>
    rcases fire_escapes_not_strict x.2 x.1.guard m hm hf with h | h
    · exact Or.inr (Or.inr h)
    · exact absurd h (hc x hx)

open XsVerif.RaisePolicy in
/-- the `Reached` record of a classified site, possibly inside a sub-descent run in a literal mode -/
def reachedOf (x : RaiseSite × Kind) (nested : Option Modes.Mode) : Reached := ⟨x.2, x.1.guard, x.1.cls, nested⟩

/-- **mode switches are shielded**: every call of the descent that starts a sub-descent in the literal
    mode 'strict' (the member trials of XsdUnion.raw_decode / raw_encode, text_is_valid, the
    enumeration values) sits under a handler that catches XMLSchemaValidationError — the only
    exception is `validate()`, which IS the strict entry point.  This is what `fireAt` assumes for
    a site reached inside such a sub-descent. -/
theorem mode_switches_are_shielded :
    ∀ w ∈ modeSwitches, w.mode = "strict" → w.func ≠ "schemas:XMLSchemaBase.validate" →
      ∃ c, lookup "XMLSchemaValidationError" = some c ∧ catches w.handlers c = true := by decide +kernel

example : (modeSwitches.filter (·.mode == "strict")).length ≥ 3 := by decide

open XsVerif.RaisePolicy in
/-- **descent level**, for EVERY sequence of sites of the table that a descent may reach, in any
    order and with any repetitions: in lax and skip mode the descent either ends normally or is
    ended by a resource / stop site. -/
theorem lax_skip_descent_raises_only_limits (script : List Reached)
    (h : ∀ r ∈ script, ∃ x ∈ classified, ∃ n, reachedOf x n = r) (m : Modes.Mode) (hm : m ≠ .strict) :
    (run m script).raised = none ∨
      ∃ r ∈ script, (run m script).raised = some r ∧ r.kind.resourceOrStop = true := by
  cases hr : (run m script).raised with
  | none => exact Or.inl rfl
  | some r =>
    refine Or.inr ⟨r, (run_raised_mem m script r hr).1, rfl, ?_⟩
    obtain ⟨x, hx, n, hrx⟩ := h r (run_raised_mem m script r hr).1
    have hf := (run_raised_mem m script r hr).2
    subst hrx
    rcases fireAt_escapes_not_strict m _ hm hf with h1 | h1
    · exact h1
    · have hc : ∀ x ∈ classified, x.2 ≠ Kind.content := by decide +kernel
      exact absurd h1 (hc x hx)

open XsVerif.RaisePolicy in
/-- skip mode collects nothing, whatever is reached -/
theorem skip_descent_collects_nothing (script : List Reached) : (run .skip script).collected = [] :=
  run_skip_collects_nothing script

open XsVerif.RaisePolicy in
/-- what may leave a lax / skip entry point is an exception of the library hierarchy: the class of
    every resource / stop site is in the regenerated hierarchy table below `XMLSchemaException` -/
theorem lax_escaping_sites_are_library_errors :
    ∀ x ∈ classified, x.2.resourceOrStop = true →
      ∃ c, lookup x.1.cls = some c ∧ classify (some c) = .libraryError := by decide +kernel

open XsVerif.RaisePolicy in
/-- the only statement through which collected validation errors are raised is strict-guarded:
    `raise error` in raise_or_collect (validation.py:228) does nothing outside strict mode -/
theorem raise_or_collect_is_strict_guarded :
    ∃ x ∈ classified, x.1.key = "validation:ValidationContext.raise_or_collect:<var:error>" ∧
      x.1.guard = .strict ∧ ∀ m, m ≠ Modes.Mode.strict → fire x.2 x.1.guard m = .silent := by
  refine ⟨(⟨"validation:ValidationContext.raise_or_collect:<var:error>", 0, "<var:error>", .strict, true⟩, .strictGuard),
    by decide +kernel, rfl, rfl, ?_⟩
  intro m hm
  exact fire_strict_guard _ m hm

open XsVerif.RaisePolicy in
/-- non-vacuity: the table has reachable sites of the interesting kinds, a lax descent over a facet
    failure, a strict-guarded raise and a model-depth error collects the first, ignores the second
    and is ended by the third; in strict mode a descent is ended by the strict-guarded raise of raise_or_collect. -/
example : (raiseSites.filter (·.reachable)).length ≥ 100 ∧ policy.length ≥ 100 ∧ classified.length = raiseSites.length ∧
    (classified.filter (·.2 == .caught)).length ≥ 40 ∧ (classified.filter (·.2.resourceOrStop)).length ≥ 5 ∧
    run .lax [⟨.caught, .none, "XMLSchemaValidationError", none⟩, ⟨.strictGuard, .strict, "<var:error>", none⟩,
              ⟨.limit, .none, "XMLSchemaModelDepthError", none⟩, ⟨.caught, .none, "XMLSchemaValidationError", none⟩]
      = ⟨["XMLSchemaValidationError"], some ⟨.limit, .none, "XMLSchemaModelDepthError", none⟩⟩ ∧
    run .lax [⟨.caught, .none, "XMLSchemaValidationError", none⟩, ⟨.buildTime, .none, "XMLSchemaValueError", none⟩]
      = ⟨["XMLSchemaValidationError"], none⟩ ∧
    -- a union member trial in a lax run: the strict-guarded raise of raise_or_collect fires in the sub-descent and is caught
    run .lax [⟨.caught, .none, "ValueError", some .strict⟩, ⟨.strictGuard, .strict, "<var:error>", some .strict⟩,
              ⟨.caught, .none, "XMLSchemaValidationError", none⟩] = ⟨["XMLSchemaValidationError"], none⟩ ∧
    (run .strict [⟨.caught, .none, "XMLSchemaValidationError", none⟩, ⟨.strictGuard, .strict, "<var:error>", none⟩,
                  ⟨.limit, .none, "XMLSchemaModelDepthError", none⟩]).raised
      = some ⟨.strictGuard, .strict, "<var:error>", none⟩ := by decide +kernel

/-! ### interpreter frames of the recursive descent (findings C11-F2 / C11-F16)

  Full statement of the clause "documents within the limits are processed" for the descent:
    `∀ f, f.depth ≤ L → f.size ≤ E → processExc g L E free tail f = none`
  — false for the code: the descent needs two interpreter frames per level and the default recursion
  limit (1000) is smaller than 2 · MAX_XML_DEPTH.  Proved with the explicit frame guard, with the
  counter-example, and — for the repaired descent — that what is raised instead is the documented
  resource error, never a foreign exception. -/

/-- **frame arithmetic of the descent**, for every forest: it fits iff `2·depth + tail ≤ free`. -/
theorem descent_frames_spec (tail : Nat) (f : Forest) (free : Int) :
    descendFits tail f free = true ↔ (2 * f.depth + tail : Int) ≤ free := descendFits_iff tail f free

theorem within_limits_processed_partial (g : Bool) (L E tail : Nat) (free : Int) (f : Forest)
    (hd : f.depth ≤ L) (hs : f.size ≤ E) (hfr : (2 * f.depth + tail : Int) ≤ free) :
    processExc g L E free tail f = none := by
  unfold processExc
  rw [(eager_limit_spec L E f).2 ⟨hd, hs⟩]
  simp [(descendFits_iff tail f free).2 hfr]

/-- a chain of 4 elements is within MAX_XML_DEPTH = 10 but does not fit into 7 free frames: it is
    not processed — with the repaired descent it is refused with the resource error (C11-F16), with
    the descent as pinned a RecursionError escapes (C11-F2). -/
theorem within_limits_processed_counterexample :
    let chain4 := Forest.cons 0 (.cons 0 (.cons 0 (.cons 0 (.nil 0) (.nil 0)) (.nil 0)) (.nil 0)) (.nil 0)
    chain4.depth = 4 ∧ chain4.depth ≤ 10 ∧ chain4.size ≤ 10 ∧
    processExc true 10 10 7 0 chain4 = some "XMLResourceExceeded" ∧
    processExc false 10 10 7 0 chain4 = some "RecursionError" ∧
    processExc false 10 10 8 0 chain4 = none := by decide

/-- **the repaired descent never lets a foreign exception out**: for every document, limits and
    frame budget, what `processExc true` raises is a library error. -/
theorem guarded_descent_never_foreign (L E tail : Nat) (free : Int) (f : Forest) :
    processExc true L E free tail f = none ∨ processExc true L E free tail f = some "XMLResourceExceeded" := by
  unfold processExc
  cases eagerParse L E f.events <;> simp

/-- … while the pinned descent does, exactly when the document is within the limits and does not
    fit the stack. -/
theorem unguarded_descent_foreign_iff (L E tail : Nat) (free : Int) (f : Forest) :
    processExc false L E free tail f = some "RecursionError" ↔
      (f.depth ≤ L ∧ f.size ≤ E) ∧ free < (2 * f.depth + tail : Int) := by
  unfold processExc
  cases hp : eagerParse L E f.events with
  | ok =>
    have hw := (eager_limit_spec L E f).1 hp
    cases hd : descendFits tail f free with
    | true =>
      have := (descendFits_iff tail f free).1 hd
      simp; omega
    | false =>
      have : ¬ (2 * f.depth + tail : Int) ≤ free := fun x => by
        have := (descendFits_iff tail f free).2 x; simp [hd] at this
      simp [hw]; omega
  | depthExceeded =>
    have : ¬ (f.depth ≤ L ∧ f.size ≤ E) := fun x => by
      have := (eager_limit_spec L E f).2 x; simp [hp] at this
    simp [this]
  | elementsExceeded =>
    have : ¬ (f.depth ≤ L ∧ f.size ≤ E) := fun x => by
      have := (eager_limit_spec L E f).2 x; simp [hp] at this
    simp [this]

/-- the class raised by the repaired descent is the documented resource error of the regenerated
    hierarchy; RecursionError is foreign -/
theorem descent_error_classes :
    (∃ c, lookup "XMLResourceExceeded" = some c ∧ classify (some c) = .libraryError) ∧
    (∃ c, lookup "RecursionError" = some c ∧ classify (some c) = .foreign) := by decide

example : let f := Forest.cons 1 (.cons 0 (.nil 0) (.cons 2 (.nil 1) (.nil 0))) (.nil 0)
    descendFits 3 f 7 = true ∧ descendFits 3 f 6 = false ∧ processExc true 2 3 7 3 f = none ∧
    processExc true 1 3 7 3 f = some "XMLResourceExceeded" := by decide

/-! ### lax and skip never raise (raise_or_collect, shared with C04) -/

/-- whatever error events the descent produces, a lax run and a skip run end normally: the only
    primitive through which validation errors leave the descent raises in strict mode only. -/
theorem lax_and_skip_never_raise {D : Type} (s : List (Modes.Step D)) (buf : List Modes.Err) :
    (Modes.gen .lax s buf).raised = none ∧ (Modes.gen .skip s buf).raised = none :=
  ⟨Modes.gen_lax_raised s buf, Modes.gen_skip_raised s buf⟩

end XsVerif.Props.C11
