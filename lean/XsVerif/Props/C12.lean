/-
  C12 — resource access control confines every fetch to the allowed class of locations.
  ONLY property theorems and non-vacuity examples live here.
-/
import XsVerif.Model.Access
import XsVerif.Lemmas.Access
import XsVerif.Generated.C12

namespace XsVerif.Props.C12
open XsVerif.Access

/-! ## the modes of the code are exactly the modes of the model -/

def allowName : Allow → String
  | .all => "all" | .remote => "remote" | .loc => "local" | .sandbox => "sandbox" | .none => "none"

def allModes : List Allow := [.all, .remote, .loc, .sandbox, .none]

/-- `SECURITY_MODES` of xmlschema/arguments.py (regenerated on every run) and the constructors of
    `Allow`, over which the theorems below do their case analysis, are the same set. -/
theorem modes_exact :
    (allModes.map allowName).all (XsVerif.Generated.C12.securityModes.contains ·) = true ∧
    XsVerif.Generated.C12.securityModes.all ((allModes.map allowName).contains ·) = true ∧
    ∀ a : Allow, a ∈ allModes := by
  refine ⟨by decide, by decide, fun a => by cases a <;> decide⟩

/-! ## S: what each mode permits -/

/-- S (string level): the URL `u` lies under the base URL `b` on a '/' boundary. -/
def UnderUrl (b u : Bytes) : Prop := u = b ∨ ∃ r, u = rstripSlash b ++ 47 :: r

/-- S: the class of locations a mode permits (xml_resource.py:318-330 read as a specification).
    `b` is the normalised sandbox base URL when one is set. -/
def Permitted (a : Allow) (b : Option Bytes) (u : Bytes) : Prop :=
  match a with
  | .all => True
  | .none => False
  | .remote => classify u ≠ .loc
  | .loc => classify u ≠ .remote
  | .sandbox => classify u ≠ .remote ∧ ∀ b', b = some b' → UnderUrl b' u

/-- `access_control` lets a URL through exactly when the mode permits its class — for every mode,
    every base and every URL string. -/
theorem access_iff_permitted (a : Allow) (b : Option Bytes) (u : Bytes) :
    accessControl a b (some u) = .ok ↔ Permitted a b u := by
  have hs : ∀ b', sandboxOk b' u = true ↔ UnderUrl b' u := by
    intro b'
    simp only [sandboxOk, UnderUrl, Bool.or_eq_true, beq_iff_eq, startsWith_iff]
    constructor
    · rintro (h | ⟨r, h⟩)
      · exact Or.inl h
      · exact Or.inr ⟨r, by simpa using h⟩
    · rintro (h | ⟨r, h⟩)
      · exact Or.inl h
      · exact Or.inr ⟨r, by simpa using h⟩
  cases a with
  | all => simp [accessControl, Permitted]
  | none => simp [accessControl, Permitted]
  | remote =>
    simp only [accessControl, Permitted, isLocalUrl]
    by_cases hc : classify u = .loc <;> simp [hc]
  | loc =>
    simp only [accessControl, Permitted, isRemoteUrl]
    by_cases hc : classify u = .remote <;> simp [hc]
  | sandbox =>
    simp only [accessControl, Permitted, isRemoteUrl]
    cases b with
    | none => by_cases hc : classify u = .remote <;> simp [hc]
    | some b' =>
      by_cases hc : classify u = .remote
      · simp [hc]
      · by_cases hk : sandboxOk b' u = true
        · have := (hs b').mp hk
          simp [hc, hk, this]
        · have : ¬ UnderUrl b' u := fun h => hk ((hs b').mpr h)
          simp [hc, hk, this]

example : accessControl .sandbox (some [47, 98]) (some [47, 98, 47, 99]) = .ok := by decide

/-- With `allow='none'` every URL is refused. -/
theorem none_blocks_everything (b : Option Bytes) (u : Bytes) :
    accessControl .none b (some u) = .blockedNone := rfl

/-- With `allow='local'` or `'sandbox'` every URL classified as remote is refused as remote. -/
theorem local_modes_block_remote (a : Allow) (h : a = .loc ∨ a = .sandbox) (b : Option Bytes)
    (u : Bytes) (hu : classify u = .remote) : accessControl a b (some u) = .blockedRemote := by
  rcases h with rfl | rfl <;> simp [accessControl, isRemoteUrl, hu]

/-- With `allow='remote'` every URL classified as local is refused as local. -/
theorem remote_blocks_local (b : Option Bytes) (u : Bytes) (hu : classify u = .loc) :
    accessControl .remote b (some u) = .blockedLocal := by
  simp [accessControl, isLocalUrl, hu]

/-! ## the sandbox test respects directory boundaries -/

/-- String level, no assumption on the shape of the strings: a URL that passes the sandbox test has
    all the (non-empty) '/'-separated components of the base as its first components.  This is the
    statement that was false for the string-prefix test (`/base/sand` vs `/base/sand_evil`). -/
theorem sandboxOk_components (b u : Bytes) (h : sandboxOk b u = true) : comps b <+: comps u := by
  simp only [sandboxOk, Bool.or_eq_true, beq_iff_eq, startsWith_iff] at h
  rcases h with rfl | ⟨r, rfl⟩
  · exact List.prefix_refl _
  · rw [List.append_assoc, List.singleton_append, comps_append_sep, comps_rstripSlash]
    exact List.prefix_append _ _

/-- the string-prefix witness of the design round is refused: base `/b/sand`, url `/b/sand_evil/i` -/
example : sandboxOk [47, 98, 47, 115, 97, 110, 100]
    [47, 98, 47, 115, 97, 110, 100, 95, 101, 118, 105, 108, 47, 105] = false := by decide

/-- S (path level): the decoded path `p` is inside the directory `d`, component-wise. -/
def Under (d p : Bytes) : Prop := comps d <+: comps p

/-- Decoded level: if the rendered `file://` URL of path `p` passes the sandbox test against the
    rendered URL of directory `d`, then `p` is component-wise inside `d` — for every byte string
    `d`, `p` (any characters, any percent-encoding needs). -/
theorem sandbox_confines (d p : Bytes)
    (h : accessControl .sandbox (some (filePre ++ quote d)) (some (filePre ++ quote p)) = .ok) :
    Under d p := by
  have h1 : sandboxOk (filePre ++ quote d) (filePre ++ quote p) = true := by
    simp only [accessControl] at h
    split at h
    · cases h
    · split at h <;> simp_all
  have h2 := sandboxOk_components _ _ h1
  have e : ∀ x : Bytes, comps (filePre ++ quote x) = [102, 105, 108, 101, 58] :: (comps x).map quote := by
    intro x
    have : filePre ++ quote x = [102, 105, 108, 101, 58] ++ 47 :: (47 :: quote x) := by simp [filePre]
    rw [this, comps_append_sep, comps_cons_sep, comps_quote, comps_noSep (by decide) (by decide)]
    rfl
  rw [e, e, List.cons_prefix_cons] at h2
  exact map_quote_prefix h2.2

example : Under [47, 98] [47, 98, 47, 99] := by unfold Under; decide

/-! ## the whole pipeline: spelled location -> normalised URL -> decision -/

/-- However a location is spelled (any byte string `loc`, any base string `b`): if the resource
    constructor in sandbox mode with base `b` lets it through, the location was normalised to a
    local file whose decoded path `p` consists of real names only (no `.`/`..`/empty components, so
    the lexical containment is a containment in a symlink-free tree) and lies component-wise inside
    the normalised base directory `d`. -/
theorem resolve_sandbox_confined (cwd b loc : Bytes) (hcwd : isAbsPath cwd = true)
    (h : (resolve .sandbox cwd (some b) loc).decision = some .ok) :
    ∃ p u d du, (resolve .sandbox cwd (some b) loc).norm = .file p u ∧
      normalizeUrl cwd none b = .file d du ∧ Under d p ∧ ∀ c ∈ comps p, CleanComp c := by
  have he : effectiveBase .sandbox cwd (some b) loc = some (some b) := by simp [effectiveBase]
  simp only [resolve, he] at h ⊢
  unfold resolveWith at h ⊢
  cases hn : normalizeUrl cwd (some b) loc with
  | file p u =>
    simp only [hn, Option.map] at h ⊢
    obtain ⟨j, hj, hp, hu⟩ := normalizeUrl_file_shape cwd (some b) loc p u hcwd hn
    cases hb : normalizeUrl cwd none b with
    | file d du =>
      simp only [hb] at h ⊢
      obtain ⟨j', hj', hd, hdu⟩ := normalizeUrl_file_shape cwd none b d du hcwd hb
      refine ⟨p, u, d, du, rfl, rfl, ?_, ?_⟩
      · apply sandbox_confines
        rw [← hu, ← hdu]
        simpa using h
      · rw [hp]; exact normpath_abs_clean j hj
    | remote s n j' => simp [hb] at h
    | outOfScope => simp [hb] at h
    | error => simp [hb] at h
  | remote s n j => simp [hn] at h
  | outOfScope => simp [hn] at h
  | error => simp [hn] at h

/-- With `allow='none'` no spelling of any location is ever let through. -/
theorem resolve_none_never_ok (cwd : Bytes) (base : Option Bytes) (loc : Bytes) :
    (resolve .none cwd base loc).decision ≠ some .ok := by
  have he : effectiveBase .none cwd base loc = some base := by simp [effectiveBase]
  simp only [resolve, he]
  unfold resolveWith
  cases hn : normalizeUrl cwd base loc with
  | file p u =>
    cases hb : base.map (normalizeUrl cwd none) with
    | none => simp [accessControl]
    | some bn => cases bn <;> simp [accessControl]
  | remote s n j => simp
  | outOfScope => simp
  | error => simp

theorem normalizeUrl_remote_scheme {cwd : Bytes} {base : Option Bytes} {loc s n : Bytes}
    {j : Option Bytes} (hn : normalizeUrl cwd base loc = .remote s n j) : isLocalScheme s = false := by
  unfold normalizeUrl at hn
  simp only at hn
  repeat' split at hn
  all_goals first
    | (cases hn; simp_all; done)
    | (simp [mkFile] at hn; done)
    | (rename_i e; rcases fromUri_error e with h' | h' <;> subst h' <;> cases hn)
    | skip

/-- With `allow='remote'` whatever is let through was normalised to a URL with a non-local scheme:
    every local result (file path, `file:` URL, relative path, percent-encoded path …) is refused. -/
theorem resolve_remote_only_remote (cwd : Bytes) (base : Option Bytes) (loc : Bytes)
    (hcwd : isAbsPath cwd = true) (h : (resolve .remote cwd base loc).decision = some .ok) :
    ∃ s n j, (resolve .remote cwd base loc).norm = .remote s n j ∧ isLocalScheme s = false := by
  have he : effectiveBase .remote cwd base loc = some base := by simp [effectiveBase]
  simp only [resolve, he] at h ⊢
  unfold resolveWith at h ⊢
  cases hn : normalizeUrl cwd base loc with
  | file p u =>
    obtain ⟨j, -, -, hu⟩ := normalizeUrl_file_shape cwd base loc p u hcwd hn
    have hl : isLocalUrl u = true := by rw [hu]; simp [isLocalUrl, classify_fileUrl]
    cases hb : base.map (normalizeUrl cwd none) with
    | none => simp [hn, hb, accessControl, hl] at h
    | some bn => cases bn <;> simp [hn, hb, accessControl, hl] at h
  | remote s n j => exact ⟨s, n, j, by simp, normalizeUrl_remote_scheme hn⟩
  | outOfScope => simp [hn] at h
  | error => simp [hn] at h

/-- With `allow='local'` or `'sandbox'` whatever is let through was normalised to a local file. -/
theorem resolve_local_only_files (a : Allow) (ha : a = .loc ∨ a = .sandbox) (cwd : Bytes)
    (base : Option Bytes) (loc : Bytes) (h : (resolve a cwd base loc).decision = some .ok) :
    ∃ p u, (resolve a cwd base loc).norm = .file p u := by
  unfold resolve at h ⊢
  cases he : effectiveBase a cwd base loc with
  | none => simp [he] at h
  | some b =>
    simp only [he] at h ⊢
    unfold resolveWith at h ⊢
    cases hn : normalizeUrl cwd b loc with
    | file p u => simp only [hn] at h ⊢; split <;> exact ⟨p, u, rfl⟩
    | remote s n j => rcases ha with rfl | rfl <;> simp [hn] at h
    | outOfScope => simp [hn] at h
    | error => simp [hn] at h

/-! ## known defect of the call sites that pass no base URL (C12-F2 / C12-F3) -/

/-- A resource constructed in sandbox mode WITHOUT a base URL takes the directory of its own
    location as sandbox, so an arbitrary local path passes: cwd `/r/sand`, location `/r/other/i`.
    This is right for the root resource and wrong for the two call sites that construct
    resources for locations found inside another resource (fetch_schema_locations, load_namespace);
    the harness replays the witness on the real code. -/
theorem selfbase_counterexample :
    (resolve .sandbox [47, 114, 47, 115, 97, 110, 100] none [47, 114, 47, 111, 116, 104, 101, 114, 47, 105]).decision
      = some .ok ∧
    (resolve .sandbox [47, 114, 47, 115, 97, 110, 100] (some [47, 114, 47, 115, 97, 110, 100])
      [47, 114, 47, 111, 116, 104, 101, 114, 47, 105]).decision = some .blockedSandbox := by
  decide +kernel

example : (resolve .sandbox [47, 114] (some [47, 114, 47, 115]) [47, 114, 47, 115, 47, 105]).decision = some .ok := by
  decide +kernel
example : (resolve .remote [47, 114] none [104, 116, 116, 112, 58, 47, 47, 104, 47, 105]).decision = some .ok := by
  decide +kernel
example : (resolve .loc [47, 114] none [105]).decision = some .ok := by decide +kernel

end XsVerif.Props.C12
