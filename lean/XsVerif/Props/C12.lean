/-
  C12 — resource access control confines every fetch to the allowed class of locations.
  ONLY property theorems and non-vacuity examples live here.
-/
import XsVerif.Model.Access
import XsVerif.Model.AccessTrace
import XsVerif.Lemmas.Access
import XsVerif.Lemmas.AccessCoding
import XsVerif.Lemmas.AccessTrace
import XsVerif.Lemmas.AccessRemote
import XsVerif.Generated.C12

namespace XsVerif.Props.C12
open XsVerif.Access

/-! ## the modes of the code are exactly the modes of the model -/

def allowName : Allow → String
  | .all => "all" | .remote => "remote" | .loc => "local" | .sandbox => "sandbox" | .none => "none"

def allModes : List Allow := [.all, .remote, .loc, .sandbox, .none]

/-- `SECURITY_MODES` of xmlschema/arguments.py (regenerated on every run) and the constructors of
    `Allow`, over which the theorems below do their case analysis, are the same set. -/
theorem modes_exact :
    (allModes.map allowName).all (XsVerif.Generated.C12.securityModes.contains ·) = true ∧
    XsVerif.Generated.C12.securityModes.all ((allModes.map allowName).contains ·) = true ∧
    ∀ a : Allow, a ∈ allModes := by
  refine ⟨by decide, by decide, fun a => by cases a <;> decide⟩

/-! ## S: what each mode permits -/

/-- S (string level): the URL `u` lies under the base URL `b` on a '/' boundary. -/
def UnderUrl (b u : Bytes) : Prop := u = b ∨ ∃ r, u = rstripSlash b ++ 47 :: r

/-- S: the class of locations a mode permits (xml_resource.py:318-333 read as a specification):
    'local' and 'sandbox' admit only what is positively a local URL (after fix 600200c a string that
    is neither local nor remote — it contains a line feed or starts with '<' — is refused).
    `b` is the normalised sandbox base URL when one is set. -/
def Permitted (a : Allow) (b : Option Bytes) (u : Bytes) : Prop :=
  match a with
  | .all => True
  | .none => False
  | .remote => classify u ≠ .loc
  | .loc => classify u = .loc
  | .sandbox => classify u = .loc ∧ ∀ b', b = some b' → UnderUrl b' u

/-- `access_control` lets a URL through exactly when the mode permits its class — for every mode,
    every base and every URL string. -/
theorem access_iff_permitted (a : Allow) (b : Option Bytes) (u : Bytes) :
    accessControl a b (some u) = .ok ↔ Permitted a b u := by
  have hs : ∀ b', sandboxOk b' u = true ↔ UnderUrl b' u := by
    intro b'
    simp only [sandboxOk, UnderUrl, Bool.or_eq_true, beq_iff_eq, startsWith_iff]
    constructor
    · rintro (h | ⟨r, h⟩)
      · exact Or.inl h
      · exact Or.inr ⟨r, by simpa using h⟩
    · rintro (h | ⟨r, h⟩)
      · exact Or.inl h
      · exact Or.inr ⟨r, by simpa using h⟩
  cases a with
  | all => simp [accessControl, Permitted]
  | none => simp [accessControl, Permitted]
  | remote =>
    simp only [accessControl, Permitted, isLocalUrl]
    by_cases hc : classify u = .loc <;> simp [hc]
  | loc =>
    simp only [accessControl, Permitted, isLocalUrl]
    by_cases hc : classify u = .loc <;> simp [hc]
  | sandbox =>
    simp only [accessControl, Permitted, isLocalUrl]
    cases b with
    | none => by_cases hc : classify u = .loc <;> simp [hc]
    | some b' =>
      by_cases hc : classify u = .loc
      · by_cases hk : sandboxOk b' u = true
        · have := (hs b').mp hk
          simp [hc, hk, this]
        · have : ¬ UnderUrl b' u := fun h => hk ((hs b').mpr h)
          simp [hc, hk, this]
      · simp [hc]

example : accessControl .sandbox (some [47, 98]) (some [47, 98, 47, 99]) = .ok := by decide

/-- With `allow='none'` every URL is refused. -/
theorem none_blocks_everything (b : Option Bytes) (u : Bytes) :
    accessControl .none b (some u) = .blockedNone := rfl

/-- With `allow='local'` or `'sandbox'` every URL that is not classified as local — remote, or
    neither local nor remote — is refused as remote, whatever the base. -/
theorem local_modes_block_remote (a : Allow) (h : a = .loc ∨ a = .sandbox) (b : Option Bytes)
    (u : Bytes) (hu : classify u ≠ .loc) : accessControl a b (some u) = .blockedRemote := by
  rcases h with rfl | rfl <;> simp [accessControl, isLocalUrl, hu]

/-- With `allow='remote'` every URL classified as local is refused as local. -/
theorem remote_blocks_local (b : Option Bytes) (u : Bytes) (hu : classify u = .loc) :
    accessControl .remote b (some u) = .blockedLocal := by
  simp [accessControl, isLocalUrl, hu]

/-! ## the sandbox test respects directory boundaries -/

/-- String level, no assumption on the shape of the strings: a URL that passes the sandbox test has
    all the (non-empty) '/'-separated components of the base as its first components.  This is the
    statement that was false for the string-prefix test (`/base/sand` vs `/base/sand_evil`). -/
theorem sandboxOk_components (b u : Bytes) (h : sandboxOk b u = true) : comps b <+: comps u := by
  simp only [sandboxOk, Bool.or_eq_true, beq_iff_eq, startsWith_iff] at h
  rcases h with rfl | ⟨r, rfl⟩
  · exact List.prefix_refl _
  · rw [List.append_assoc, List.singleton_append, comps_append_sep, comps_rstripSlash]
    exact List.prefix_append _ _

/-- the string-prefix witness of the design round is refused: base `/b/sand`, url `/b/sand_evil/i` -/
example : sandboxOk [47, 98, 47, 115, 97, 110, 100]
    [47, 98, 47, 115, 97, 110, 100, 95, 101, 118, 105, 108, 47, 105] = false := by decide

/-- S (path level): the decoded path `p` is inside the directory `d`, component-wise. -/
def Under (d p : Bytes) : Prop := comps d <+: comps p

/-- Decoded level: if the rendered `file://` URL of path `p` passes the sandbox test against the
    rendered URL of directory `d`, then `p` is component-wise inside `d` — for every byte string
    `d`, `p` (any characters, any percent-encoding needs). -/
theorem sandbox_confines (d p : Bytes)
    (h : accessControl .sandbox (some (filePre ++ quote d)) (some (filePre ++ quote p)) = .ok) :
    Under d p := by
  have h1 : sandboxOk (filePre ++ quote d) (filePre ++ quote p) = true := by
    simp only [accessControl] at h
    split at h
    · cases h
    · split at h <;> simp_all
  have h2 := sandboxOk_components _ _ h1
  have e : ∀ x : Bytes, comps (filePre ++ quote x) = [102, 105, 108, 101, 58] :: (comps x).map quote := by
    intro x
    have : filePre ++ quote x = [102, 105, 108, 101, 58] ++ 47 :: (47 :: quote x) := by simp [filePre]
    rw [this, comps_append_sep, comps_cons_sep, comps_quote, comps_noSep (by decide) (by decide)]
    rfl
  rw [e, e, List.cons_prefix_cons] at h2
  exact map_quote_prefix h2.2

example : Under [47, 98] [47, 98, 47, 99] := by unfold Under; decide

/-! ## the whole pipeline: spelled location -> normalised URL -> decision -/

/-- However a location is spelled (any byte string `loc`, any base string `b`): if the resource
    constructor in sandbox mode with base `b` lets it through, the location was normalised to a
    local file whose decoded path `p` consists of real names only (no `.`/`..`/empty components, so
    the lexical containment is a containment in a symlink-free tree) and lies component-wise inside
    the normalised base directory `d`. -/
theorem resolve_sandbox_confined (cwd b loc : Bytes) (hcwd : isAbsPath cwd = true)
    (h : (resolve .sandbox cwd (some b) loc).decision = some .ok) :
    ∃ p u d du, (resolve .sandbox cwd (some b) loc).norm = .file p u ∧
      normalizeUrl cwd none b = .file d du ∧ Under d p ∧ ∀ c ∈ comps p, CleanComp c := by
  have he : effectiveBase .sandbox cwd (some b) loc = some (some b) := by simp [effectiveBase]
  simp only [resolve, he] at h ⊢
  unfold resolveWith at h ⊢
  cases hn : normalizeUrl cwd (some b) loc with
  | file p u =>
    simp only [hn, Option.map] at h ⊢
    obtain ⟨j, hj, hp, hu⟩ := normalizeUrl_file_shape cwd (some b) loc p u hcwd hn
    cases hb : normalizeUrl cwd none b with
    | file d du =>
      simp only [hb] at h ⊢
      obtain ⟨j', hj', hd, hdu⟩ := normalizeUrl_file_shape cwd none b d du hcwd hb
      refine ⟨p, u, d, du, rfl, rfl, ?_, ?_⟩
      · apply sandbox_confines
        rw [← hu, ← hdu]
        simpa using h
      · rw [hp]; exact normpath_abs_clean j hj
    | remote s n j' => simp [hb] at h
    | outOfScope => simp [hb] at h
    | error => simp [hb] at h
  | remote s n j => simp [hn] at h
  | outOfScope => simp [hn] at h
  | error => simp [hn] at h

/-- With `allow='none'` no spelling of any location is ever let through. -/
theorem resolve_none_never_ok (cwd : Bytes) (base : Option Bytes) (loc : Bytes) :
    (resolve .none cwd base loc).decision ≠ some .ok := by
  have he : effectiveBase .none cwd base loc = some base := by simp [effectiveBase]
  simp only [resolve, he]
  unfold resolveWith
  cases hn : normalizeUrl cwd base loc with
  | file p u =>
    cases hb : base.map (normalizeUrl cwd none) with
    | none => simp [accessControl]
    | some bn => cases bn <;> simp [accessControl]
  | remote s n j => simp
  | outOfScope => simp
  | error => simp

theorem normalizeUrl_remote_scheme {cwd : Bytes} {base : Option Bytes} {loc s n : Bytes}
    {j : Option Bytes} (hn : normalizeUrl cwd base loc = .remote s n j) : isLocalScheme s = false := by
  unfold normalizeUrl at hn
  simp only at hn
  repeat' split at hn
  all_goals first
    | (cases hn; simp_all; done)
    | (simp [mkFile] at hn; done)
    | (rename_i e; rcases fromUri_error e with h' | h' <;> subst h' <;> cases hn)
    | skip

/-- With `allow='remote'` whatever is let through was normalised to a URL with a non-local scheme:
    every local result (file path, `file:` URL, relative path, percent-encoded path …) is refused. -/
theorem resolve_remote_only_remote (cwd : Bytes) (base : Option Bytes) (loc : Bytes)
    (hcwd : isAbsPath cwd = true) (h : (resolve .remote cwd base loc).decision = some .ok) :
    ∃ s n j, (resolve .remote cwd base loc).norm = .remote s n j ∧ isLocalScheme s = false := by
  have he : effectiveBase .remote cwd base loc = some base := by simp [effectiveBase]
  simp only [resolve, he] at h ⊢
  unfold resolveWith at h ⊢
  cases hn : normalizeUrl cwd base loc with
  | file p u =>
    obtain ⟨j, -, -, hu⟩ := normalizeUrl_file_shape cwd base loc p u hcwd hn
    have hl : isLocalUrl u = true := by rw [hu]; simp [isLocalUrl, classify_fileUrl]
    cases hb : base.map (normalizeUrl cwd none) with
    | none => simp [hn, hb, accessControl, hl] at h
    | some bn => cases bn <;> simp [hn, hb, accessControl, hl] at h
  | remote s n j => exact ⟨s, n, j, by simp, normalizeUrl_remote_scheme hn⟩
  | outOfScope => simp [hn] at h
  | error => simp [hn] at h

/-- With `allow='local'` or `'sandbox'` whatever is let through was normalised to a local file. -/
theorem resolve_local_only_files (a : Allow) (ha : a = .loc ∨ a = .sandbox) (cwd : Bytes)
    (base : Option Bytes) (loc : Bytes) (h : (resolve a cwd base loc).decision = some .ok) :
    ∃ p u, (resolve a cwd base loc).norm = .file p u := by
  unfold resolve at h ⊢
  cases he : effectiveBase a cwd base loc with
  | none => simp [he] at h
  | some b =>
    simp only [he] at h ⊢
    unfold resolveWith at h ⊢
    cases hn : normalizeUrl cwd b loc with
    | file p u => simp only [hn] at h ⊢; split <;> exact ⟨p, u, rfl⟩
    | remote s n j => rcases ha with rfl | rfl <;> simp [hn] at h
    | outOfScope => simp [hn] at h
    | error => simp [hn] at h


/-! ## the coding assumptions behind `sandbox_confines`, as theorems -/

/-- `unquote_to_bytes(quote_from_bytes(p)) == p` for every byte string `p`: the decoded path that
    `from_uri` recovers from a rendered URL is the path that was rendered. -/
theorem unquote_quote (p : Bytes) : unquote (quote p) = p := XsVerif.Access.unquote_quote p

example : quote [47, 97, 32, 37, 255] = [47, 97, 37, 50, 48, 37, 50, 53, 37, 70, 70] ∧
    unquote [47, 97, 37, 50, 48, 37, 50, 53, 37, 70, 70] = [47, 97, 32, 37, 255] := by decide

/-- `posixpath.normpath` is idempotent, for every byte string. -/
theorem normpath_idempotent (p : Bytes) : normpath (normpath p) = normpath p :=
  XsVerif.Access.normpath_idempotent p

/-- `posixpath.normpath` leaves no `.` and no empty segment, and `..` only as the leading block of a
    relative path: the result is "." or its components are `..`* followed by real names (none at all
    in front when the path is absolute). -/
theorem normpath_no_dot_segments (p : Bytes) :
    normpath p = dot ∨ ∃ k cl, comps (normpath p) = List.replicate k dotdot ++ cl ∧
      (∀ c ∈ cl, CleanComp c) ∧ (isAbsPath p = true → k = 0) :=
  XsVerif.Access.normpath_no_dot_segments p

example : normpath [47, 97, 47, 46, 46, 47, 46, 47, 47, 98] = [47, 98] ∧
    normpath [46, 46, 47, 97, 47, 46, 46, 47, 46, 46] = [46, 46, 47, 46, 46] := by decide

/-- `normalize_url` is idempotent on its local results, whatever base the second call is given
    (locations= and location hints are normalised when collected and again when loaded; a
    resource URL is re-normalised by `match_location` and by the sandbox self-derivation):
    the second call returns the same URL and decoded path, or the form is outside the model
    (a path starting with two slashes, which `ntpath.splitdrive` takes for a UNC drive). -/
theorem normalizeUrl_idempotent (cwd : Bytes) (b b' : Option Bytes) (loc p u : Bytes)
    (hcwd : isAbsPath cwd = true) (h : normalizeUrl cwd b loc = .file p u) :
    normalizeUrl cwd b' u = .file p u ∨ normalizeUrl cwd b' u = .outOfScope :=
  XsVerif.Access.normalizeUrl_idempotent cwd b b' loc p u hcwd h

/-! ## nested loads: the trace model (Model/AccessTrace.lean) -/

/-- simultaneous induction over a load tree and its list of references -/
theorem load_forall (a : Allow) (cwd : Bytes) (m : Mapper) (readable : Norm → Bool)
    (P : Event → Prop) (Inv : Option Bytes → Prop)
    (hstep : ∀ b loc, Inv b →
      let r := resolveWith a cwd b (applyMapper m (strip loc))
      (r.decision = some .ok → P (.opened b loc r.norm) ∧
        (readable r.norm = true → ∀ cb, childBase cwd b (applyMapper m (strip loc)) r.norm = some cb → Inv (some cb))) ∧
      (∀ d, r.decision = some d → d ≠ .ok → P (.blocked b loc d)) ∧ P (.undecided b loc))
    (t : LoadTree) : ∀ b, Inv b → ∀ e ∈ (loadNode a cwd m readable b t).1, P e := by
  refine LoadTree.rec
    (motive_1 := fun t => ∀ b, Inv b → ∀ e ∈ (loadNode a cwd m readable b t).1, P e)
    (motive_2 := fun ts => ∀ b, Inv b → ∀ e ∈ (loadList a cwd m readable b ts).1, P e)
    ?_ ?_ ?_ t
  · intro loc strict refs ih b hb e he
    have hs := hstep b (sourceOf cwd b strict loc) hb
    simp only at hs
    obtain ⟨hok, hbl, hun⟩ := hs
    unfold loadNode at he
    simp only at he
    split at he
    · rename_i hdec
      obtain ⟨hP, hch⟩ := hok hdec
      split at he
      · rename_i hr
        split at he
        · rename_i cb hcb
          simp only [List.mem_cons] at he
          rcases he with rfl | he
          · exact hP
          · exact ih (some cb) (hch hr cb hcb) e he
        · simp only [List.mem_cons, List.not_mem_nil, or_false] at he
          rcases he with rfl | rfl
          · exact hP
          · exact hun
      · simp only [List.mem_cons, List.not_mem_nil, or_false] at he
        subst he; exact hP
    · rename_i d hne hdec
      simp only [List.mem_cons, List.not_mem_nil, or_false] at he
      subst he
      exact hbl d hdec (fun e => hne e)
    · simp only [List.mem_cons, List.not_mem_nil, or_false] at he
      subst he; exact hun
  · intro b _ e he
    simp [loadList] at he
  · intro t ts iht ihts b hb e he
    unfold loadList at he
    simp only at he
    split at he
    · exact iht b hb e he
    · simp only [List.mem_append] at he
      rcases he with he | he
      · exact iht b hb e he
      · exact ihts b hb e he


theorem resolveWith_norm (a : Allow) (cwd : Bytes) (b : Option Bytes) (loc : Bytes) :
    (resolveWith a cwd b loc).norm = normalizeUrl cwd b loc := by
  unfold resolveWith
  simp only
  split
  · split <;> simp_all
  · simp_all
  · rfl

theorem resolve_eq_resolveWith_some (a : Allow) (cwd b loc : Bytes) :
    resolve a cwd (some b) loc = resolveWith a cwd (some b) loc := by
  simp [resolve, effectiveBase]

theorem resolve_eq_resolveWith (a : Allow) (ha : a ≠ .sandbox) (cwd : Bytes) (b : Option Bytes) (loc : Bytes) :
    resolve a cwd b loc = resolveWith a cwd b loc := by
  simp [resolve, effectiveBase, ha]

/-- the access check of one constructed resource, as recorded in a trace event -/
def Checked (a : Allow) (cwd : Bytes) (m : Mapper) : Event → Prop
  | .opened b loc n =>
    (resolveWith a cwd b (applyMapper m (strip loc))).decision = some .ok ∧
      n = normalizeUrl cwd b (applyMapper m (strip loc))
  | _ => True

/-- EVERY FETCH IS CHECKED — for load trees of any depth and width, any mode, any uri mapper, any
    file system: each resource that is fetched anywhere in the nested load was constructed for the
    location normalised against its parent's directory and passed `access_control` under the ROOT's
    `allow` mode (the mode is handed down unchanged). -/
theorem every_fetch_checked (a : Allow) (cwd : Bytes) (m : Mapper) (readable : Norm → Bool)
    (b : Option Bytes) (t : LoadTree) : ∀ e ∈ (loadNode a cwd m readable b t).1, Checked a cwd m e := by
  refine load_forall a cwd m readable (Checked a cwd m) (fun _ => True) ?_ t b trivial
  intro b loc _
  refine ⟨fun h => ⟨⟨h, resolveWith_norm ..⟩, fun _ _ _ => trivial⟩, fun _ _ _ => trivial, trivial⟩

/-- allow='none': no resource is fetched anywhere in a nested load, whatever the documents contain. -/
theorem trace_none_opens_nothing (cwd : Bytes) (m : Mapper) (readable : Norm → Bool)
    (b : Option Bytes) (t : LoadTree) :
    ∀ e ∈ (loadNode .none cwd m readable b t).1, e.isOpened = false := by
  refine load_forall .none cwd m readable (fun e => e.isOpened = false) (fun _ => True) ?_ t b trivial
  intro b loc _
  refine ⟨fun h => ?_, fun _ _ _ => rfl, rfl⟩
  have := resolve_none_never_ok cwd b (applyMapper m (strip loc))
  rw [resolve_eq_resolveWith .none (by decide)] at this
  exact absurd h this

/-- allow='remote': everything fetched in a nested load is a URL with a non-local scheme. -/
theorem trace_remote_only_remote (cwd : Bytes) (hcwd : isAbsPath cwd = true) (m : Mapper)
    (readable : Norm → Bool) (b : Option Bytes) (t : LoadTree) :
    ∀ e ∈ (loadNode .remote cwd m readable b t).1, ∀ b' loc n, e = .opened b' loc n →
      ∃ s nl j, n = .remote s nl j ∧ isLocalScheme s = false := by
  refine load_forall .remote cwd m readable
    (fun e => ∀ b' loc n, e = .opened b' loc n → ∃ s nl j, n = .remote s nl j ∧ isLocalScheme s = false)
    (fun _ => True) ?_ t b trivial
  intro b loc _
  refine ⟨fun h => ⟨?_, fun _ _ _ => trivial⟩, fun _ _ _ _ _ _ he => (by cases he), fun _ _ _ he => (by cases he)⟩
  intro b' loc' n he
  cases he
  have := resolve_remote_only_remote cwd b (applyMapper m (strip loc)) hcwd
  rw [resolve_eq_resolveWith .remote (by decide)] at this
  exact this h

theorem resolveWith_local_only_files (a : Allow) (ha : a = .loc ∨ a = .sandbox) (cwd : Bytes)
    (b : Option Bytes) (loc : Bytes) (h : (resolveWith a cwd b loc).decision = some .ok) :
    ∃ p u, (resolveWith a cwd b loc).norm = .file p u := by
  unfold resolveWith at h ⊢
  cases hn : normalizeUrl cwd b loc with
  | file p u => simp only [hn] at h ⊢; split <;> exact ⟨p, u, rfl⟩
  | remote s n j => rcases ha with rfl | rfl <;> simp [hn] at h
  | outOfScope => simp [hn] at h
  | error => simp [hn] at h

/-- allow='local' / 'sandbox': everything fetched in a nested load is a local file. -/
theorem trace_local_only_files (a : Allow) (ha : a = .loc ∨ a = .sandbox) (cwd : Bytes) (m : Mapper)
    (readable : Norm → Bool) (b : Option Bytes) (t : LoadTree) :
    ∀ e ∈ (loadNode a cwd m readable b t).1, ∀ b' loc n, e = .opened b' loc n → ∃ p u, n = .file p u := by
  refine load_forall a cwd m readable
    (fun e => ∀ b' loc n, e = .opened b' loc n → ∃ p u, n = .file p u) (fun _ => True) ?_ t b trivial
  intro b loc _
  refine ⟨fun h => ⟨?_, fun _ _ _ => trivial⟩, fun _ _ _ _ _ _ he => (by cases he), fun _ _ _ he => (by cases he)⟩
  intro b' loc' n he
  cases he
  exact resolveWith_local_only_files a ha cwd b _ h

/-- SANDBOX, NESTED LOADS OF ANY DEPTH.  Root base `b0` (given, or derived from the main source)
    normalises to the directory `d0`, which is a directory and not a document (`hdir`).  Then every
    resource fetched anywhere in the load tree — children get `os.path.dirname(parent url)` as their
    base, so the sandbox they are checked against changes at every hop — is a local file whose
    decoded path has only real names as components and lies component-wise inside the ROOT
    directory `d0`. -/
theorem trace_sandbox_confined (cwd : Bytes) (hcwd : isAbsPath cwd = true) (m : Mapper)
    (readable : Norm → Bool) (b0 d0 du0 : Bytes) (hb0 : normalizeUrl cwd none b0 = .file d0 du0)
    (hdir : ∀ p u, comps p = comps d0 → readable (.file p u) = false) (t : LoadTree) :
    ∀ e ∈ (loadNode .sandbox cwd m readable (some b0) t).1, ∀ b loc n, e = .opened b loc n →
      ∃ p u, n = .file p u ∧ Under d0 p ∧ ∀ c ∈ comps p, CleanComp c := by
  refine load_forall .sandbox cwd m readable
    (fun e => ∀ b loc n, e = .opened b loc n → ∃ p u, n = .file p u ∧ Under d0 p ∧ ∀ c ∈ comps p, CleanComp c)
    (fun b => ∃ b', b = some b' ∧ ∀ d du, normalizeUrl cwd none b' = .file d du → comps d0 <+: comps d)
    ?_ t (some b0) ⟨b0, rfl, fun d du h => by rw [hb0] at h; cases h; exact List.prefix_refl _⟩
  rintro _ loc ⟨b', rfl, hinv⟩
  refine ⟨fun h => ?_, fun _ _ _ _ _ _ he => (by cases he), fun _ _ _ he => (by cases he)⟩
  have hc := resolve_sandbox_confined cwd b' (applyMapper m (strip loc)) hcwd
  rw [resolve_eq_resolveWith_some] at hc
  obtain ⟨p, u, d, du, hn, hd, hund, hclean⟩ := hc h
  have hd0p : comps d0 <+: comps p := List.IsPrefix.trans (hinv d du hd) hund
  refine ⟨?_, ?_⟩
  · intro b loc' n he
    cases he
    exact ⟨p, u, hn, hd0p, hclean⟩
  · intro hr cb hcb
    rw [hn] at hr hcb
    simp only [childBase, Option.some.injEq] at hcb
    subst hcb
    refine ⟨_, rfl, ?_⟩
    intro d' du' hd'
    have hne : comps d0 ≠ comps p := by
      intro e
      have := hdir p u e.symm
      rw [this] at hr; cases hr
    have hn' : normalizeUrl cwd (some b') (applyMapper m (strip loc)) = .file p u := by
      rw [← resolveWith_norm .sandbox]; exact hn
    obtain ⟨j, hj, hp, hu⟩ := normalizeUrl_file_shape cwd (some b') _ p u hcwd hn'
    subst hp; subst hu
    exact childBase_confined cwd j hj (comps d0) hd0p hne d' du' hd'


/-- The same for the ROOT resource, whose sandbox is the given `base_url` or, without one, the
    directory of the main source itself (`effectiveBase`). -/
theorem root_sandbox_confined (cwd : Bytes) (hcwd : isAbsPath cwd = true) (m : Mapper)
    (readable : Norm → Bool) (base : Option Bytes) (loc : Bytes) (strict : Bool) (refs : List LoadTree)
    (b0 d0 du0 : Bytes) (he : effectiveBase .sandbox cwd base loc = some (some b0))
    (hb0 : normalizeUrl cwd none b0 = .file d0 du0)
    (hdir : ∀ p u, comps p = comps d0 → readable (.file p u) = false) :
    ∀ e ∈ (loadRoot .sandbox cwd m readable base (.node loc strict refs)).1, ∀ b l n, e = .opened b l n →
      ∃ p u, n = .file p u ∧ Under d0 p ∧ ∀ c ∈ comps p, CleanComp c := by
  simp only [loadRoot, he]
  exact trace_sandbox_confined cwd hcwd m readable b0 d0 du0 hb0 hdir _

/-- A denied location's content never influences the result: the trace of a reference that is not
    admitted is the same whatever the document at that location refers to. -/
theorem denied_content_unreached (a : Allow) (cwd : Bytes) (m : Mapper) (readable : Norm → Bool)
    (b : Option Bytes) (loc : Bytes) (strict : Bool) (refs refs' : List LoadTree)
    (h : (resolveWith a cwd b (applyMapper m (strip (sourceOf cwd b strict loc)))).decision ≠ some .ok) :
    loadNode a cwd m readable b (.node loc strict refs) = loadNode a cwd m readable b (.node loc strict refs') := by
  unfold loadNode
  simp only
  split
  · rename_i hd; exact absurd hd h
  · rfl
  · rfl

/-! non-vacuity: a three-level load in the sandbox `/r/s` -/

/-- byte string of an ASCII literal (examples only) -/
def bs (s : String) : Bytes := s.toList.map Char.toNat

/-- example world: `/r/s/m`, `/r/s/sub/a`, `/r/s/b`, `/r/o/x` are documents -/
def exDocs : List Bytes := [bs "file:///r/s/m", bs "file:///r/s/sub/a", bs "file:///r/s/b", bs "file:///r/o/x"]
def exReadable (n : Norm) : Bool := match n.url? with | some u => exDocs.contains u | none => false
/-- `m` includes `sub/a`, which imports `../../o/x` (outside) and includes `../b` -/
def exTree : LoadTree :=
  .node (bs "m") true [.node (bs "sub/a") true [.node (bs "../../o/x") false [], .node (bs "../b") true []]]

/-- the hypotheses of `trace_sandbox_confined` are met and the trace is not trivial: two fetches,
    then the outside import is skipped, then `../b` is refused because the sandbox of the children
    of `sub/a` is `/r/s/sub` (the sandbox narrows at every hop), which aborts the load -/
example : normalizeUrl (bs "/r/s") none (bs "/r/s") = .file (bs "/r/s") (bs "file:///r/s") ∧
    (∀ u, exReadable (.file (bs "/r/s") u) = false ∨ u ≠ bs "file:///r/s") ∧
    (loadNode .sandbox (bs "/r/s") [] exReadable (some (bs "/r/s")) exTree).1.map Event.isOpened
      = [true, true, false, false] ∧
    (loadNode .sandbox (bs "/r/s") [] exReadable (some (bs "/r/s")) exTree).2 = true ∧
    (loadNode .loc (bs "/r/s") [] exReadable (some (bs "/r/s")) exTree).1.map Event.isOpened
      = [true, true, true, true] ∧
    (loadNode .none (bs "/r/s") [] exReadable (some (bs "/r/s")) exTree).1.map Event.isOpened = [false] := by
  refine ⟨by decide +kernel, fun u => ?_, by decide +kernel, by decide +kernel, by decide +kernel, by decide +kernel⟩
  by_cases h : u = bs "file:///r/s"
  · subst h; left; decide +kernel
  · right; exact h

/-! ## remote URLs are never taken for local files -/

/-- A string that starts with a syntactically valid non-local scheme and ':' — the shape of every
    URL that `get_uri` / `urlunsplit` render for a non-local scheme (compared with the code on every
    `render` case) — is NEVER classified as a local URL by `is_local_url`, whatever follows the colon:
    'remote' mode never refuses it as local and the file branch of `access_control` is never taken
    for it; and it IS classified remote unless it contains a line feed. -/
theorem scheme_prefixed_class (s rest : Bytes) (hs : SchemeOK s) (hloc : isLocalScheme (s.map lower) = false) :
    classify (s ++ 58 :: rest) ≠ .loc ∧
      ((s ++ 58 :: rest).contains 10 = false → classify (s ++ 58 :: rest) = .remote) :=
  XsVerif.Access.scheme_prefixed_class s rest hs hloc

example : SchemeOK (bs "http") ∧ isLocalScheme ((bs "http").map lower) = false := by
  refine ⟨⟨⟨104, bs "ttp", by decide, by decide⟩, by decide⟩, by decide⟩

/-- Every URL that `normalize_url` renders for a location that is not a local file has the shape
    `scheme ':' rest` with a syntactically valid scheme that is not a local one — through `get_uri`,
    `is_safe_url`, `is_encoded_url`, `decode_url`, `encode_url` and `urlunsplit`, for every location
    and base. -/
theorem remote_render_shape (cwd : Bytes) (base : Option Bytes) (loc r : Bytes)
    (h : remoteUrl cwd base loc = some r) :
    ∃ s rest, r = s ++ 58 :: rest ∧ SchemeOK s ∧ isLocalScheme (s.map lower) = false :=
  XsVerif.Access.remoteUrl_shape cwd base loc r h

/-- A REMOTE URL IS NEVER TAKEN FOR A LOCAL FILE (full statement; it was false before fix 600200c,
    see `remote_render_newline_witness`).  For every location and base: the URL `r` that
    `normalize_url` renders for a non-local result
      * is refused as remote by `access_control` in 'local' and in 'sandbox' mode, whatever the
        sandbox base (also below a REMOTE base);
      * is admitted in 'remote' mode (never refused as local);
      * has a non-local scheme for `urlsplit`, so `urlopen` never hands it to the file handler. -/
theorem remote_render_refused (a : Allow) (ha : a = .loc ∨ a = .sandbox) (b : Option Bytes) (cwd : Bytes)
    (base : Option Bytes) (loc r : Bytes) (h : remoteUrl cwd base loc = some r) :
    accessControl a b (some r) = .blockedRemote ∧ accessControl .remote b (some r) = .ok ∧
      isLocalScheme (urlsplit r).scheme = false := by
  obtain ⟨s, rest, rfl, hs, hloc⟩ := XsVerif.Access.remoteUrl_shape cwd base loc r h
  have hc := (XsVerif.Access.scheme_prefixed_class s rest hs hloc).1
  refine ⟨local_modes_block_remote a ha b _ hc, ?_, ?_⟩
  · simp [accessControl, isLocalUrl, hc]
  · rw [urlsplit_scheme s rest hs]; exact hloc

/-- The decision that the resource constructor model `resolveWith` takes for a non-local result
    (a table on the mode, previously trusted) IS `access_control` applied to the rendered URL,
    for every mode and whatever normalised base the check is given. -/
theorem resolveWith_remote_is_access_control (a : Allow) (cwd : Bytes) (b bn : Option Bytes) (loc r s n : Bytes)
    (j : Option Bytes) (hn : normalizeUrl cwd b loc = .remote s n j) (h : remoteUrl cwd b loc = some r) :
    (resolveWith a cwd b loc).decision = some (accessControl a bn (some r)) := by
  have h1 := remote_render_refused .loc (Or.inl rfl) bn cwd b loc r h
  have h2 := remote_render_refused .sandbox (Or.inr rfl) bn cwd b loc r h
  cases a
  · simp [resolveWith, hn, accessControl]
  · simp [resolveWith, hn, h1.2.1]
  · simp [resolveWith, hn, h1.1]
  · simp [resolveWith, hn, h2.1]
  · simp [resolveWith, hn, accessControl]

/-- Regression witness of finding C12-F4 (fixed by 600200c): the relative location `a%0Ab` joined to
    the remote base `http://h/d/` is rendered with a RAW line feed and is classified neither local
    nor remote (`is_remote_url` is False for any string with a newline) — the old test
    `elif is_remote_url(url)` let it through; the current check refuses it in 'local' mode and, below
    its own remote sandbox base, in 'sandbox' mode.  Replayed on the real code by the
    `newline-remote-base` family. -/
theorem remote_render_newline_witness :
    remoteUrl (bs "/r") (some (bs "http://h/d/")) (bs "a%0Ab") = some (bs "http://h/d/a\nb") ∧
    classify (bs "http://h/d/a\nb") = .neither ∧
    accessControl .loc none (some (bs "http://h/d/a\nb")) = .blockedRemote ∧
    accessControl .sandbox (some (bs "http://h/d/")) (some (bs "http://h/d/a\nb")) = .blockedRemote ∧
    (resolveWith .loc (bs "/r") (some (bs "http://h/d/")) (bs "a%0Ab")).decision = some .blockedRemote := by
  decide +kernel

example : remoteUrl (bs "/r") none (bs "HTTP://h/a b") = some (bs "http://h/a%20b") := by decide +kernel

/-! ## the empty base URL -/

/-- `normalize_url('')` is the working directory: the empty string is a base URL like any other -/
theorem normalizeUrl_empty (cwd : Bytes) : normalizeUrl cwd none [] = mkFile (joinPath cwd []) := by
  unfold normalizeUrl
  simp [lstrip, urlsplit, splitScheme, breakAt, isLocalScheme, startsWith, fromUri, strip, windowsForm, unquote, isAbsPath, urn]

/-- `base_url=''` IS a sandbox base (`some [] ≠ none`): the constructor derives nothing from the
    source (xml_resource.py:166 tests `base_url is None`) and `access_control` enforces the sandbox
    (xml_resource.py:331 tests `self._base_url is not None`), which is then the working directory. -/
theorem sandbox_empty_base_confined (cwd loc : Bytes) (hcwd : isAbsPath cwd = true) :
    effectiveBase .sandbox cwd (some []) loc = some (some []) ∧
    ((resolve .sandbox cwd (some []) loc).decision = some .ok →
      ∃ p u, (resolve .sandbox cwd (some []) loc).norm = .file p u ∧
        Under (normpath (joinPath cwd [])) p ∧ ∀ c ∈ comps p, CleanComp c) := by
  refine ⟨by simp [effectiveBase], fun h => ?_⟩
  obtain ⟨p, u, d, du, hn, hd, hu, hc⟩ := resolve_sandbox_confined cwd [] loc hcwd h
  rw [normalizeUrl_empty] at hd
  simp only [mkFile, Norm.file.injEq] at hd
  exact ⟨p, u, hn, by rw [hd.1]; exact hu, hc⟩

example : (resolve .sandbox (bs "/r/s") (some []) (bs "../o/x")).decision = some .blockedSandbox ∧
    (resolve .sandbox (bs "/r/s") (some []) (bs "sub/x")).decision = some .ok ∧
    (resolve .sandbox (bs "/r/s") none (bs "../o/x")).decision = some .ok := by decide +kernel

/-! ## known defect of the call sites that pass no base URL (C12-F2 / C12-F3) -/

/-- A resource constructed in sandbox mode WITHOUT a base URL takes the directory of its own
    location as sandbox, so an arbitrary local path passes: cwd `/r/sand`, location `/r/other/i`.
    This is right for the root resource and wrong for the two call sites that construct
    resources for locations found inside another resource (fetch_schema_locations, load_namespace);
    the harness replays the witness on the real code. -/
theorem selfbase_counterexample :
    (resolve .sandbox [47, 114, 47, 115, 97, 110, 100] none [47, 114, 47, 111, 116, 104, 101, 114, 47, 105]).decision
      = some .ok ∧
    (resolve .sandbox [47, 114, 47, 115, 97, 110, 100] (some [47, 114, 47, 115, 97, 110, 100])
      [47, 114, 47, 111, 116, 104, 101, 114, 47, 105]).decision = some .blockedSandbox := by
  decide +kernel

example : (resolve .sandbox [47, 114] (some [47, 114, 47, 115]) [47, 114, 47, 115, 47, 105]).decision = some .ok := by
  decide +kernel
example : (resolve .remote [47, 114] none [104, 116, 116, 112, 58, 47, 47, 104, 47, 105]).decision = some .ok := by
  decide +kernel
example : (resolve .loc [47, 114] none [105]).decision = some .ok := by decide +kernel

end XsVerif.Props.C12
