/-
  C05, clause "an encode call in strict mode either raises a validation error or returns XML that the
  same schema accepts" — the content-model part, proved on the ports of the two child loops
  (`XsdGroup.raw_encode` and `XsdGroup.raw_decode`) that drive the same ModelVisitor.
-/
import XsVerif.Model.Visitor

namespace XsVerif.Props.C05
open XsVerif XsVerif.CM XsVerif.Wildcard

theorem append_eq_self_iff {α : Type} (l t : List α) : l ++ t = l ↔ t = [] := by
  constructor
  · intro h
    have := congrArg List.length h
    simp only [List.length_append] at this
    exact List.eq_nil_of_length_eq_zero (by omega)
  · rintro rfl; simp

/-- an encoder step never removes errors -/
theorem encStep_extends (A : Arena) (oc : OC) (root i : Nat) (q : QN) :
    ∀ (fuel : Nat) (ls : LoopSt), ∃ t, (encStep A oc root i q fuel ls).errors = ls.errors ++ t := by
  intro fuel
  induction fuel with
  | zero => intro ls; unfold encStep; exact ⟨_, rfl⟩
  | succ f ih =>
    intro ls
    unfold encStep
    simp only
    repeat' split
    all_goals first
      | exact ⟨_, rfl⟩
      | (rename_i s errs _
         obtain ⟨t, ht⟩ := ih { ls with s := s, errors := ls.errors ++ errs.map fun e => ⟨i, e.particle, e.occurs⟩ }
         exact ⟨(errs.map fun e => ⟨i, e.particle, e.occurs⟩) ++ t, by rw [ht]; simp only [List.append_assoc]⟩)

/-- **One step**: when the encoder's loop reports nothing for a name, the validator's loop does exactly
    the same thing with that child (same visitor transitions, same resulting state). -/
theorem step_simulation (A : Arena) (oc : OC) (n root i : Nat) (q : QN) :
    ∀ (fuel : Nat) (ls : LoopSt), (encStep A oc root i q fuel ls).errors = ls.errors →
      childStep A oc n root i q fuel ls = encStep A oc root i q fuel ls := by
  intro fuel
  induction fuel with
  | zero =>
    intro ls h
    unfold encStep at h
    exact absurd ((append_eq_self_iff _ _).mp h) (by simp)
  | succ f ih =>
    intro ls h
    unfold encStep at h ⊢
    unfold childStep
    simp only at h ⊢
    split
    · -- the model has ended: the encoder always reports an error
      rename_i he
      simp only [he] at h
      exact absurd ((append_eq_self_iff _ _).mp h) (by simp)
    · rename_i e he
      simp only [he] at h ⊢
      split
      · rfl
      · rename_i hm
        simp only [hm, Bool.false_eq_true, if_false] at h
        split <;> rename_i s errs hadv <;> simp only [hadv] at h ⊢
        all_goals
          obtain ⟨t, ht⟩ := encStep_extends A oc root i q f
            { ls with s := s, errors := ls.errors ++ errs.map fun e => ⟨i, e.particle, e.occurs⟩ }
          have h0 : errs = [] := by
            rw [ht] at h
            simp only [List.append_assoc] at h
            have := (append_eq_self_iff _ _).mp h
            simpa using (List.append_eq_nil_iff.mp this).1
          subst h0
          simp only [List.map_nil, List.append_nil] at h ⊢
          exact ih _ h

/-- the whole child loop -/
theorem loop_simulation (A : Arena) (oc : OC) (n root fuel : Nat) :
    ∀ (l : List (QN × Nat)) (ls : LoopSt),
      (l.foldl (fun ls (x : QN × Nat) => encStep A oc root x.2 x.1 fuel ls) ls).errors = [] →
      l.foldl (fun ls (x : QN × Nat) => childStep A oc n root x.2 x.1 fuel ls) ls =
        l.foldl (fun ls (x : QN × Nat) => encStep A oc root x.2 x.1 fuel ls) ls := by
  intro l
  induction l with
  | nil => intro ls _; rfl
  | cons x t ih =>
    intro ls h
    simp only [List.foldl_cons] at h ⊢
    -- errors only grow along the fold, so the first step added none
    have grow : ∀ (l : List (QN × Nat)) (ls : LoopSt),
        ∃ u, (l.foldl (fun ls (x : QN × Nat) => encStep A oc root x.2 x.1 fuel ls) ls).errors = ls.errors ++ u := by
      intro l
      induction l with
      | nil => intro ls; exact ⟨[], by simp⟩
      | cons y t ih2 =>
        intro ls
        simp only [List.foldl_cons]
        obtain ⟨u, hu⟩ := ih2 (encStep A oc root y.2 y.1 fuel ls)
        obtain ⟨v, hv⟩ := encStep_extends A oc root y.2 y.1 fuel ls
        exact ⟨v ++ u, by rw [hu, hv, List.append_assoc]⟩
    obtain ⟨u, hu⟩ := grow t (encStep A oc root x.2 x.1 fuel ls)
    obtain ⟨v, hv⟩ := encStep_extends A oc root x.2 x.1 fuel ls
    rw [hu] at h
    have h1 : (encStep A oc root x.2 x.1 fuel ls).errors = [] := (List.append_eq_nil_iff.mp h).1
    have h2 : ls.errors = [] := by rw [hv] at h1; exact (List.append_eq_nil_iff.mp h1).1
    have hstep := step_simulation A oc n root x.2 x.1 fuel ls (by rw [h1, h2])
    rw [hstep]
    exact ih _ (by rw [hu]; exact h)

/-- **Strict encode is sound for the content model**: if the encoder's child loop reports no error
    for the child names it emits (in strict mode any error is raised, so this is "encode returned"),
    then the validator's child loop accepts exactly that child sequence — for every model, every
    open-content mode and every sequence.  (Before fix 246d372 this needed the guard "the root is not
    an empty `choice` with minOccurs > 0": the encoder lacked the decoder's clause for it.) -/
theorem strict_encode_sound (A : Arena) (n root : Nat) (w : List QN) (oc : OC)
    (h : encodeSilent A n root w oc = true) : verdict A n root w oc = true := by
  unfold encodeSilent emptyChoiceRoot at h
  simp only [Bool.and_eq_true, Bool.not_eq_true', List.isEmpty_iff] at h
  obtain ⟨hroot, h⟩ := h
  unfold verdict childErrors
  unfold encodeErrors at h
  simp only at h ⊢
  simp only [hroot, Bool.false_eq_true, if_false]
  obtain ⟨h1, h2⟩ := List.append_eq_nil_iff.mp h
  rw [loop_simulation A oc n root _ _ _ h1]
  rw [List.isEmpty_iff, List.append_eq_nil_iff]
  refine ⟨h1, ?_⟩
  -- the end-of-content error differs only in its index
  revert h2
  split
  · intro _; rfl
  · split <;> simp

/-- before fix 246d372 the encoder had no empty-choice clause: its child loop alone is silent on the
    empty sequence for an empty `choice` with minOccurs = 1, which the validator rejects -/
theorem strict_encode_counterexample_empty_choice :
    let A : Arena := mkArena 1 [(0, { kind := .choice, lo := 1, hi := some 1 })]
    (encodeErrors A 1 0 []).errors = [] ∧ verdict A 1 0 [] = false ∧ encodeSilent A 1 0 [] = false := by
  decide +kernel

/-! non-vacuity: a model and a word for which the encoder's loop is silent -/
private def qa : QN := ⟨"urn:t", "a"⟩
private def mSeq : Particle := .group 0 .seq 1 (some 1) (.cons (.leaf (.elem 1 [qa]) 1 (some 2)) .nil)
example : encodeSilent (mkArena 2 mSeq.flatten) 2 0 [qa, qa] = true := by decide +kernel
example : (encodeErrors (mkArena 2 mSeq.flatten) 2 0 [qa, qa, qa]).errors ≠ [] := by decide +kernel

end XsVerif.Props.C05
