/-
  C01 — applicability of xs:defaultOpenContent (appliesToEmpty) is part of the content language.
-/
import XsVerif.Lemmas.Rx
import XsVerif.Model.DefaultOpen

namespace XsVerif.Props.C01Default
open XsVerif XsVerif.CM XsVerif.Wildcard

theorem rep_nil_of_all_nil {m : Leaf → QN → Bool} {r : Rx Leaf} {lo : Nat} {hi : Option Nat} {w : List QN}
    (hr : ∀ x, Rx.Lang m r x → x = []) (h : Rx.Lang m (.rep r lo hi) w) : w = [] := by
  obtain ⟨ws, hw, _, _, hall⟩ := h
  subst hw
  exact List.flatten_eq_nil_iff.mpr fun x hx => hr x (hall x hx)

theorem rep_eps_nil {m : Leaf → QN → Bool} {lo : Nat} {hi : Option Nat} (h : Rx.leHi lo hi) :
    Rx.Lang m (.rep .eps lo hi) ([] : List QN) := by
  refine ⟨List.replicate lo [], ?_, by simp, by simpa using h, ?_⟩
  · symm; exact List.flatten_eq_nil_iff.mpr fun x hx => (List.mem_replicate.mp hx).2
  · intro x hx; exact (List.mem_replicate.mp hx).2

theorem rep_zero_nil {m : Leaf → QN → Bool} {r : Rx Leaf} {hi : Option Nat} :
    Rx.Lang m (.rep r 0 hi) ([] : List QN) := by
  refine ⟨[], rfl, Nat.le_refl _, ?_, by simp⟩
  cases hi <;> simp [Rx.leHi]

/-- A complex type whose explicit content is empty (no group, empty sequence/all, empty optional
    choice, maxOccurs = 0), not mixed, under a defaultOpenContent with appliesToEmpty = false:
    the open content does NOT apply and the only valid child sequence is the empty one. -/
theorem empty_content_without_applying_open (d : DefaultOpen) (c : Option Particle) (w : List QN)
    (hate : d.appliesToEmpty = false) (he : explicitEmpty c = true) (hr : rangeOk c) :
    openContentApplies d false c = false ∧
      (Rx.Lang Leaf.matches (typeRx (some d) false c) w ↔ w = []) := by
  have hap : openContentApplies d false c = false := by simp [openContentApplies, he, hate]
  refine ⟨hap, ?_⟩
  simp only [typeRx, hap, Bool.false_eq_true, if_false]
  cases c with
  | none => simp [contentRx, Rx.Lang]
  | some p =>
    cases p with
    | leaf l lo hi => simp [explicitEmpty] at he
    | group i k lo hi items =>
      have hr' : Rx.leHi lo hi := hr
      constructor
      · intro h
        cases items with
        | nil =>
          cases k
          · exact rep_nil_of_all_nil (r := .eps) (fun x hx => hx) (by simpa [contentRx, Particle.toRx, Particles.toSeq] using h)
          · exact rep_nil_of_all_nil (r := .empty) (fun x hx => hx.elim) (by simpa [contentRx, Particle.toRx, Particles.toChoice] using h)
          · exact rep_nil_of_all_nil (r := .eps) (fun x hx => hx) (by simpa [contentRx, Particle.toRx, Particles.toAll] using h)
        | cons q qs =>
          have h0 : hi = some 0 := by simpa [explicitEmpty] using he
          subst h0
          cases k <;>
          · simp only [contentRx, Particle.toRx] at h
            obtain ⟨ws, hw, _, hle, _⟩ := h
            have : ws = [] := by
              have : ws.length = 0 := by simpa [Rx.leHi] using hle
              exact List.length_eq_zero_iff.mp this
            subst this; simpa using hw
      · intro hw
        subst hw
        cases items with
        | nil =>
          cases k
          · simpa [contentRx, Particle.toRx, Particles.toSeq] using rep_eps_nil (m := Leaf.matches) hr'
          · have hl : lo = 0 := by
              cases hi with
              | none => simpa [explicitEmpty] using he
              | some v =>
                have h2 : v = 0 ∨ lo = 0 := by simpa [explicitEmpty] using he
                rcases h2 with h2 | h2
                · subst h2; simpa [Rx.leHi] using hr'
                · exact h2
            subst hl
            simpa [contentRx, Particle.toRx, Particles.toChoice] using
              rep_zero_nil (m := Leaf.matches) (r := .empty) (hi := hi)
          · simpa [contentRx, Particle.toRx, Particles.toAll] using rep_eps_nil (m := Leaf.matches) hr'
        | cons q qs =>
          have h0 : hi = some 0 := by simpa [explicitEmpty] using he
          subst h0
          have hl : lo = 0 := by simpa [Rx.leHi] using hr'
          subst hl
          cases k <;> simpa [contentRx, Particle.toRx] using rep_zero_nil (m := Leaf.matches)

/-- When it applies (mixed, non-empty explicit content or appliesToEmpty = true) the language is the
    open-content language of `oracle_decides_open_content`. -/
theorem applying_open_is_withOpen (d : DefaultOpen) (mixed : Bool) (c : Option Particle)
    (h : mixed = true ∨ explicitEmpty c = false ∨ d.appliesToEmpty = true) :
    typeRx (some d) mixed c = withOpen d.mode d.wild (contentRx c) := by
  have : openContentApplies d mixed c = true := by
    rcases h with h | h | h <;> simp [openContentApplies, h]
  simp [typeRx, this]

end XsVerif.Props.C01Default
