/-
  C17 — names survive prefix mapping: decoded names resolve back to the same QNames.
  ONLY property theorems and non-vacuity examples live here (helpers: Lemmas/NsMapper.lean).

  Reading of the property.  A key of decoded data is produced by `mapQName` in the mapper state the
  validators have set for the node (`visit`).  A reader of the data resolves it by the XML Namespaces
  rules (`resolveElem` / `resolveAttr`) with the declarations in force, which in stacked mode are the
  mapper's `namespaces` (`stack_discipline`: they are exactly the fold of the xmlns declarations on
  the path root → node).  The name survives iff the resolution gives back the expanded name; this is
  reduced to the invariant `ReverseOk` (`roundtrip_*`), which every mapper operation must preserve.
-/
import XsVerif.Model.NsMapper
import XsVerif.Lemmas.NsMapper
import XsVerif.Lemmas.NsStack

set_option linter.unusedSimpArgs false

namespace XsVerif.Props.C17
open XsVerif.NsMapper XsVerif.NsMapper.Map XsVerif.NsMapper.Stack

/-! ### S: resolution of a key by the XML Namespaces rules -/

/-- element names: an unprefixed name takes the default namespace when one is set -/
def resolveElem (ns : Map) : PName → Option QN
  | .braced u l => some ⟨u, l⟩
  | .pre p l => match ns.get p with
    | some u => if u = "" then none else some ⟨u, l⟩
    | none => none
  | .loc l => match ns.get "" with
    | some d => some ⟨d, l⟩
    | none => some ⟨"", l⟩

/-- attribute names: an unprefixed name is in no namespace -/
def resolveAttr (ns : Map) : PName → Option QN
  | .loc l => some ⟨"", l⟩
  | n => resolveElem ns n

/-- `xmlns=""` / no default declaration -/
def DefaultUnset (ns : Map) : Prop := ns.get "" = none ∨ ns.get "" = some ""

/-! ### round trip -/

/-- An element name mapped by a consistent mapper resolves back to itself.  (A name in no namespace
    can only occur where the default namespace is unset — namespace well-formedness.) -/
theorem roundtrip_elem (m : Mapper) (q : QN) (hr : ReverseOk m.ns m.rev)
    (hd : q.ns = "" → DefaultUnset m.ns) : resolveElem m.ns (mapQName m q) = some q := by
  obtain ⟨u, l⟩ := q
  unfold mapQName
  by_cases h0 : u = ""
  · subst h0
    simp only [if_true, resolveElem]
    rcases hd rfl with h | h <;> simp [h]
  · simp only [h0, if_false]
    split
    · rfl
    · cases hg : m.rev.get u with
      | none => rfl
      | some p =>
        have hb := hr u p hg
        by_cases hp : p = ""
        · subst hp; simp [resolveElem, hb]
        · simp [hp, resolveElem, hb, h0]

example : resolveElem [("p", "u1"), ("q", "u1")] (mapQName ⟨[("p", "u1"), ("q", "u1")], [("u1", "q")], []⟩ ⟨"u1", "a"⟩)
    = some ⟨"u1", "a"⟩ := by decide

/-  Full statement for attributes (false for the code as it is, finding C17-F7):
      ∀ m q, ReverseOk m.ns m.rev → resolveAttr m.ns (mapQName m q) = some q
    An attribute whose namespace has the *empty* prefix recorded is emitted unprefixed and then
    denotes the attribute in no namespace. -/
theorem roundtrip_attr_partial (m : Mapper) (q : QN) (hr : ReverseOk m.ns m.rev)
    (hguard : q.ns ≠ "" → m.rev.get q.ns ≠ some "") : resolveAttr m.ns (mapQName m q) = some q := by
  obtain ⟨u, l⟩ := q
  unfold mapQName
  by_cases h0 : u = ""
  · subst h0; simp [resolveAttr]
  · simp only [h0, if_false]
    split
    · rfl
    · cases hg : m.rev.get u with
      | none => rfl
      | some p =>
        have hb := hr u p hg
        have hp : p ≠ "" := by
          intro e; subst e; exact hguard h0 hg
        simp [hp, resolveAttr, resolveElem, hb, h0]

example : resolveAttr [("", "u1"), ("p", "u1")] (mapQName ⟨[("", "u1"), ("p", "u1")], [("u1", "p")], []⟩ ⟨"u1", "x"⟩)
    = some ⟨"u1", "x"⟩ := by decide

/-- `<a xmlns="u1" xmlns:p="u1" p:x="v"/>`: the reverse map built by `__init__` records the first
    prefix (the default one) for u1, so `{u1}x` is emitted as `x`, which denotes the unqualified `x`. -/
theorem roundtrip_attr_counterexample :
    let ns : Map := [("", "u1"), ("p", "u1")]
    let m : Mapper := { ns, rev := mkReverse ns }
    ReverseOk m.ns m.rev ∧ resolveAttr m.ns (mapQName m ⟨"u1", "x"⟩) = some ⟨"", "x"⟩ := by
  exact ⟨reverseOk_of_all (by decide), by decide⟩

/-! ### the invariant is kept by every operation -/

/-- mapper invariant: current and saved maps are consistent dicts -/
def Good (ns rev : Map) : Prop := ReverseOk ns rev ∧ Map.Nodup ns

def Inv (m : Mapper) : Prop := Good m.ns m.rev ∧ ∀ c ∈ m.stack, Good c.ns c.rev

theorem mkReverse_ok (ns : Map) (hn : Map.Nodup ns) : ReverseOk ns (mkReverse ns) := by
  intro u p h
  unfold mkReverse at h
  have : ∀ (l : List (String × String)) (r : Map),
      (l.foldl (fun r kv => r.set kv.2 kv.1) r).get u = some p → (p, u) ∈ l ∨ r.get u = some p := by
    intro l r h; exact get_revfold h
  rcases this _ _ h with h1 | h1
  · exact get_of_mem hn (List.mem_reverse.mp h1)
  · simp at h1

/-- `__init__` establishes the invariant. -/
theorem init_inv (ns : Map) (hn : Map.Nodup ns) : Inv { ns, rev := mkReverse ns } :=
  ⟨⟨mkReverse_ok ns hn, hn⟩, by simp⟩

theorem popLoop_good (obj level : Nat) : ∀ (st : List Ctx) (r : Option (Map × Map)),
    (∀ c ∈ st, Good c.ns c.rev) → (∀ x, r = some x → Good x.1 x.2) →
    (∀ c ∈ (popLoop obj level st r).1, Good c.ns c.rev) ∧
    (∀ x, (popLoop obj level st r).2.1 = some x → Good x.1 x.2) := by
  intro st
  induction st with
  | nil => intro r _ hr; simpa [popLoop] using hr
  | cons c rest ih =>
    intro r hs hr
    unfold popLoop
    split
    · exact ⟨hs, hr⟩
    · split
      · exact ⟨hs, hr⟩
      · apply ih
        · exact fun c' hc' => hs c' (List.mem_cons_of_mem _ hc')
        · intro x hx; cases hx; exact hs c List.mem_cons_self

/-- namespaces in force after the pop phase of `set_xmlns_context` -/
def nsAfterPop (m : Mapper) (obj level : Nat) : Map :=
  match (popLoop obj level m.stack none).2.1 with
  | some x => x.1
  | none => m.ns

/-- **Stacked mode keeps the reverse map consistent** — for every state, level, object and every
    list of declarations with distinct prefixes: with the repaired repointing rule always; with the
    rule of the tree under check when the element does not rebind two prefixes of one URI. -/
theorem setContext_stacked_inv (v : Variant) (m : Mapper) (obj level : Nat) (decl : Xmlns)
    (hi : Inv m) (hd : NodupKeys decl)
    (hv : v = .repaired ∨ SingleRebind (nsAfterPop m obj level) decl) :
    Inv (setContext v .stacked m obj level decl).m := by
  obtain ⟨hg, hs⟩ := hi
  have hp := popLoop_good obj level m.stack none hs (by simp)
  unfold setContext
  unfold nsAfterPop at hv
  generalize popLoop obj level m.stack none = res at hp hv
  obtain ⟨stack, restored, found⟩ := res
  simp only at hp hv ⊢
  have hcur : Good (match restored with | some (n, _) => n | none => m.ns)
      (match restored with | some (_, r) => r | none => m.rev) := by
    cases restored with
    | none => exact hg
    | some x => exact hp.2 x rfl
  have hns : (match restored with | some x => x.1 | none => m.ns) =
      (match restored with | some (n, _) => n | none => m.ns) := by
    cases restored <;> rfl
  rw [hns] at hv
  cases restored with
  | none =>
    simp only at hcur hv ⊢
    cases found with
    | some x => by_cases hx : x.isEmpty = true <;> simp only [hx, if_true, if_false] <;> exact ⟨hcur, hp.1⟩
    | none =>
      simp only [show (Mode.stacked = Mode.none) = False by simp, if_false]
      by_cases hx : decl.isEmpty = true <;> simp only [hx, if_true, if_false]
      · exact ⟨hcur, hp.1⟩
      · refine ⟨⟨stacked_step_reverseOk level hcur.2 hd hv hcur.1, nodup_update hcur.2 _⟩, ?_⟩
        intro c hc
        rcases List.mem_cons.mp hc with e | e
        · subst e; exact hcur
        · exact hp.1 c e
  | some x =>
    obtain ⟨n, r⟩ := x
    simp only at hcur hv ⊢
    cases found with
    | some x => by_cases hx : x.isEmpty = true <;> simp only [hx, if_true, if_false] <;> exact ⟨hcur, hp.1⟩
    | none =>
      simp only [show (Mode.stacked = Mode.none) = False by simp, if_false]
      by_cases hx : decl.isEmpty = true <;> simp only [hx, if_true, if_false]
      · exact ⟨hcur, hp.1⟩
      · refine ⟨⟨stacked_step_reverseOk level hcur.2 hd hv hcur.1, nodup_update hcur.2 _⟩, ?_⟩
        intro c hc
        rcases List.mem_cons.mp hc with e | e
        · subst e; exact hcur
        · exact hp.1 c e

example : Inv (setContext .repaired .stacked ⟨[("b", "u"), ("p0", "u"), ("k1", "u")], [("u", "b")], []⟩ 1 1
    [("k1", "x"), ("p0", "y")]).m :=
  setContext_stacked_inv _ _ _ _ _
    ⟨⟨reverseOk_of_all (by decide), by decide⟩, by simp⟩ (by decide) (Or.inl rfl)

/-- Finding C17-F2: the rule in the tree under check repoints to a prefix that the same element
    rebinds.  `<… xmlns:b="u" xmlns:p0="u" xmlns:k1="u"><g xmlns:k1="x" xmlns:p0="y"><b:e/>` :
    `{u}e` is emitted as `k1:e`, which denotes `{x}e`.  The repaired rule emits `b:e`. -/
theorem reverse_stale_counterexample :
    let m : Mapper := ⟨[("b", "u"), ("p0", "u"), ("k1", "u")], [("u", "k1")], []⟩
    let decl : Xmlns := [("k1", "x"), ("p0", "y")]
    let m1 := (setContext .pinned .stacked m 1 1 decl).m
    let m2 := (setContext .repaired .stacked m 1 1 decl).m
    mapQName m1 ⟨"u", "e"⟩ = .pre "k1" "e" ∧ resolveElem m1.ns (.pre "k1" "e") = some ⟨"x", "e"⟩ ∧
    mapQName m2 ⟨"u", "e"⟩ = .pre "b" "e" ∧ resolveElem m2.ns (.pre "b" "e") = some ⟨"u", "e"⟩ := by
  decide

/-  `__setitem__`, full statement (false for the code as it is, finding C17-F5):
      ∀ m p u, Inv m → Inv (setItem m p u)
    Rebinding the recorded prefix of another URI leaves that record stale. -/
theorem setItem_inv_partial (m : Mapper) (p u : String) (hi : Inv m)
    (hguard : ∀ old, m.ns.get p = some old → old = u ∨ m.rev.get old ≠ some p) :
    Inv (setItem m p u) := by
  obtain ⟨⟨hr, hn⟩, hs⟩ := hi
  refine ⟨⟨?_, nodup_set hn _ _⟩, hs⟩
  intro u' p' h
  simp only [setItem] at h ⊢
  rw [get_set] at h
  split at h
  · rename_i e; cases h; subst e; exact get_set_self _ _ _
  · rename_i hne
    have hb := hr u' p' h
    by_cases hp : p = p'
    · subst hp
      rcases hguard u' hb with e | e
      · exact absurd e.symm hne
      · exact absurd h e
    · rw [get_set_ne _ _ hp]; exact hb

example : Inv (setItem ⟨[("p", "u1"), ("q", "u2")], [("u1", "p"), ("u2", "q")], []⟩ "k" "u1") :=
  setItem_inv_partial _ _ _ ⟨⟨reverseOk_of_all (by decide), by decide⟩, by simp⟩
    (by intro old h; simp [Map.get] at h)

theorem setItem_counterexample :
    let m : Mapper := ⟨[("p", "u1"), ("q", "u1")], [("u1", "p")], []⟩
    let m1 := setItem m "p" "u2"
    mapQName m1 ⟨"u1", "e"⟩ = .pre "p" "e" ∧ resolveElem m1.ns (.pre "p" "e") = some ⟨"u2", "e"⟩ := by
  decide

/-- The repaired `__setitem__` keeps the invariant for every prefix and URI. -/
theorem setItemRepaired_inv (m : Mapper) (p u : String) (hi : Inv m) : Inv (setItemRepaired m p u) := by
  obtain ⟨⟨hr, hn⟩, hs⟩ := hi
  have hn1 := nodup_set hn p u
  refine ⟨⟨?_, hn1⟩, hs⟩
  intro u' p' h
  simp only [setItemRepaired] at h ⊢
  rw [get_set] at h
  split at h
  · rename_i e; cases h; subst e; exact get_set_self _ _ _
  · rename_i hne
    -- an old record that survives is still valid in the updated map
    have keep : m.rev.get u' = some p' → (m.ns.get p = none ∨ m.ns.get p = some u ∨
        (∃ old, m.ns.get p = some old ∧ m.rev.get old ≠ some p) ∨ (∃ old, m.ns.get p = some old ∧ u' ≠ old)) →
        (m.ns.set p u).get p' = some u' := by
      intro h2 hc
      have hb := hr u' p' h2
      by_cases hp : p = p'
      · subst hp
        rcases hc with e | e | ⟨old, e, e2⟩ | ⟨old, e, e2⟩
        · rw [e] at hb; cases hb
        · rw [e] at hb; cases hb; exact absurd rfl hne
        · rw [e] at hb; cases hb; exact absurd h2 e2
        · rw [e] at hb; cases hb; exact absurd rfl e2
      · rw [get_set_ne _ _ hp]; exact hb
    cases hg : m.ns.get p with
    | none => simp only [hg] at h; exact keep h (Or.inl hg)
    | some old =>
      simp only [hg] at h
      split at h
      · rename_i hc
        by_cases hu : u' = old
        · subst hu
          split at h
          · rename_i k hk
            rw [get_set_self] at h; cases h
            obtain ⟨w, hw, hp⟩ := lastKey_mem hk
            simp only [decide_eq_true_eq] at hp
            rw [get_of_mem hn1 hw, hp]
          · rw [get_erase] at h; simp at h
        · have h' : m.rev.get u' = some p' := by
            split at h
            · rw [get_set_ne _ _ (Ne.symm hu), get_erase] at h; simpa [Ne.symm hu] using h
            · rw [get_erase] at h; simpa [Ne.symm hu] using h
          exact keep h' (Or.inr (Or.inr (Or.inr ⟨old, hg, hu⟩)))
      · rename_i hc
        apply keep h
        by_cases e1 : old = u
        · subst e1; exact Or.inr (Or.inl hg)
        · right; right; left
          exact ⟨old, hg, fun e2 => hc ⟨e1, e2⟩⟩

example : mapQName (setItemRepaired ⟨[("p", "u1"), ("q", "u1")], [("u1", "p")], []⟩ "p" "u2") ⟨"u1", "e"⟩
    = .pre "q" "e" := by decide

theorem nodup_erase {m : Map} (hn : Map.Nodup m) (k : String) : Map.Nodup (m.erase k) := by
  induction m with
  | nil => exact hn
  | cons hd t ih =>
    obtain ⟨k', v'⟩ := hd
    simp only [Map.Nodup, List.map_cons, List.nodup_cons] at hn
    simp only [Map.erase]
    split
    · exact ih hn.2
    · simp only [Map.Nodup, List.map_cons, List.nodup_cons]
      refine ⟨?_, ih hn.2⟩
      intro hm
      obtain ⟨⟨a, b⟩, hab, e⟩ := List.mem_map.mp hm
      simp only at e; subst e
      have h1 := get_of_mem (ih hn.2) hab
      rw [get_erase] at h1
      split at h1
      · cases h1
      · exact hn.1 (List.mem_map.mpr ⟨(a, b), mem_of_get h1, rfl⟩)

/-- `__delitem__` keeps the invariant (it recomputes the record of the URI that lost a prefix). -/
theorem delItem_inv (m m' : Mapper) (p : String) (hi : Inv m) (h : delItem m p = some m') : Inv m' := by
  obtain ⟨⟨hr, hn⟩, hs⟩ := hi
  unfold delItem at h
  cases hg : m.ns.get p with
  | none => simp [hg] at h
  | some uri =>
    simp only [hg] at h
    split at h
    · cases h
      have hn1 := nodup_erase hn p
      refine ⟨⟨?_, hn1⟩, hs⟩
      intro u' p' h'
      simp only at h' ⊢
      have other : u' ≠ uri → m.rev.get u' = some p' → (m.ns.erase p).get p' = some u' := by
        intro hne h2
        have hb := hr u' p' h2
        rw [get_erase]
        split
        · rename_i e; subst e; rw [hg] at hb; cases hb; exact absurd rfl hne
        · exact hb
      split at h'
      · rename_i k hk
        rw [get_set] at h'
        split at h'
        · rename_i e; cases h'; subst e
          obtain ⟨w, hw, hp⟩ := lastKey_mem hk
          simp only [decide_eq_true_eq] at hp
          rw [get_of_mem hn1 hw, hp]
        · rename_i hne
          rw [get_erase] at h'
          split at h'
          · cases h'
          · exact other (Ne.symm hne) h'
      · rw [get_erase] at h'
        split at h'
        · cases h'
        · rename_i hne; exact other (Ne.symm hne) h'
    · cases h

example : ∃ m', delItem ⟨[("p", "u1"), ("q", "u1")], [("u1", "p")], []⟩ "p" = some m' ∧
    mapQName m' ⟨"u1", "e"⟩ = .pre "q" "e" := ⟨_, rfl, by decide⟩


/-! ### stack discipline (stacked mode, both repointing rules) -/

/-- **At every element the namespaces in force are exactly the declarations in scope.**
    For every document tree (any size, depth, any redeclaration / shadowing pattern; sibling elements
    are distinct objects) decoded from a mapper with an empty context stack, the maps in force when the
    element's key is produced and when its attribute keys are produced are both the fold of the xmlns
    declarations on the path root → element over the initial map (`specObs`). -/
theorem stack_discipline (v : Variant) (t : Tree) (m0 : Mapper) (h0 : m0.stack = []) (hd : SibDistinct t) :
    (visit v .stacked 0 t m0).2.map proj = specObs m0.ns t :=
  (visit_spec v t hd 0 m0 [] m0.ns m0.rev [] (by intro c hc; cases hc) (Or.inl ⟨h0, rfl, rfl⟩) (by simp)).2

/-- **Leaving a subtree restores both maps and the stack exactly.**  After the whole visit of an element at
    level `L` (arbitrary subtree below it), the next call for a sibling puts the mapper back into the state
    it had before the element — `namespaces`, `_reverse` and `_xmlns_contexts` are equal, not just equivalent. -/
theorem subtree_restores (v : Variant) (t : Tree) (hd : SibDistinct t) (L : Nat) (m : Mapper)
    (hb : Below L m.stack) (sibling : Nat) (hne : sibling ≠ Tree.id t) :
    (setContext v .stacked (visit v .stacked L t m).1 sibling L []).m = m := by
  have h := (visit_spec v t hd L m m.stack m.ns m.rev [] hb (Or.inl ⟨rfl, rfl, rfl⟩) (by simp)).1
  rw [enter_spec v sibling [] hb h (by simpa using hne)]
  simp [entered]

/-! ### end to end: every key of the decoded document resolves to the name of its node -/

mutual
/-- prefixes declared on one element are distinct, everywhere in the document -/
def DeclsNodup : Tree → Prop
  | .node _ _ _ decl ch => NodupKeys decl ∧ DeclsNodupList ch
def DeclsNodupList : List Tree → Prop
  | [] => True
  | t :: ts => DeclsNodup t ∧ DeclsNodupList ts
end

/-- an observation was produced by consistent mapper states -/
def ObsOk (o : Obs) : Prop :=
  (∃ m1, Inv m1 ∧ o.key = mapQName m1 o.tag ∧ o.nsAtKey = m1.ns) ∧
  (∃ m3, Inv m3 ∧ o.nsAtAttrs = m3.ns ∧ ∀ a ∈ o.attrs, a.2 = mapQName m3 a.1)

mutual
theorem visit_inv : ∀ (t : Tree), DeclsNodup t → ∀ (L : Nat) (m : Mapper), Inv m →
    Inv (visit .repaired .stacked L t m).1 ∧ ∀ o ∈ (visit .repaired .stacked L t m).2, ObsOk o
  | .node id tag attrs decl ch, hk, L, m, hi => by
    simp only [DeclsNodup] at hk
    have i1 := setContext_stacked_inv .repaired m id L decl hi hk.1 (Or.inl rfl)
    obtain ⟨i2, o2⟩ := visitList_inv ch hk.2 (L + 1) _ i1
    have i3 := setContext_stacked_inv .repaired _ id L decl i2 hk.1 (Or.inl rfl)
    simp only [visit]
    refine ⟨i3, ?_⟩
    intro o ho
    rcases List.mem_cons.mp ho with e | e
    · subst e
      refine ⟨⟨_, i1, rfl, rfl⟩, ⟨_, i3, rfl, ?_⟩⟩
      intro a ha
      obtain ⟨q, _, rfl⟩ := List.mem_map.mp ha
      rfl
    · exact o2 o e
theorem visitList_inv : ∀ (ts : List Tree), DeclsNodupList ts → ∀ (L : Nat) (m : Mapper), Inv m →
    Inv (visitList .repaired .stacked L ts m).1 ∧ ∀ o ∈ (visitList .repaired .stacked L ts m).2, ObsOk o
  | [], _, L, m, hi => by simp only [visitList]; exact ⟨hi, by simp⟩
  | t :: ts, hk, L, m, hi => by
    simp only [DeclsNodupList] at hk
    obtain ⟨i1, o1⟩ := visit_inv t hk.1 L m hi
    obtain ⟨i2, o2⟩ := visitList_inv ts hk.2 L _ i1
    simp only [visitList]
    refine ⟨i2, ?_⟩
    intro o ho
    rcases List.mem_append.mp ho with e | e
    · exact o1 o e
    · exact o2 o e
end

/-- **Decoded names resolve back to the same QNames** (stacked mode, repaired repointing rule).
    For every document (distinct prefixes per element) decoded from a consistent mapper: the key of every
    element, resolved by the XML Namespaces rules with the namespaces in force at the element — which by
    `stack_discipline` are exactly the declarations in scope — is the element's expanded name; names in
    no namespace are required to occur only where the default namespace is unset (well-formedness). -/
theorem decoded_names_resolve (t : Tree) (m0 : Mapper) (hi : Inv m0) (hk : DeclsNodup t) :
    ∀ o ∈ (visit .repaired .stacked 0 t m0).2,
      (o.tag.ns = "" → DefaultUnset o.nsAtKey) → resolveElem o.nsAtKey o.key = some o.tag := by
  intro o ho hd
  obtain ⟨⟨m1, i1, hkey, hns⟩, _⟩ := (visit_inv t hk 0 m0 hi).2 o ho
  rw [hkey, hns]
  exact roundtrip_elem m1 o.tag i1.1.1 (by rw [← hns]; exact hd)

example : (visit .pinned .stacked 0
    (.node 0 ⟨"", "r"⟩ [] [("p", "u1")] [.node 1 ⟨"u2", "c"⟩ [] [("p", "u2")] [], .node 2 ⟨"u1", "c"⟩ [] [] []])
    ⟨[("p", "u1")], [("u1", "p")], []⟩).2.map (fun o => (o.id, o.key)) =
    [(0, .loc "r"), (1, .pre "p" "c"), (2, .pre "p" "c")] := by decide

end XsVerif.Props.C17
