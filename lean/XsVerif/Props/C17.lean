/-
  C17 — names survive prefix mapping: decoded names resolve back to the same QNames.
  ONLY property theorems and non-vacuity examples live here (helpers: Lemmas/NsMapper.lean).

  Reading of the property.  A key of decoded data is produced by `mapQName` in the mapper state the
  validators have set for the node (`visit`, `decodeT`).  A reader of the data resolves it by the XML
  Namespaces rules (`resolveElem` / `resolveAttr`; on whole data trees `readItem`) with the declarations the
  data reports, which in stacked mode are the mapper's `namespaces` (`stack_discipline`: they are exactly the
  fold of the xmlns declarations on the path root → node, and each element reports exactly its own
  declarations).  The name survives iff the resolution gives back the expanded name; this is reduced to the
  invariant `ReverseOk` (`roundtrip_*`), which every mapper operation preserves (`ops_inv`: for the code as it
  is now, unconditionally, in every xmlns_processing mode).  Collapsed / root-only / none processing keep ONE
  map that only grows (`flat_*`): names resolve against the map reported at the root.  The encoders resolve
  every key exactly as the reader does (`encode_reads`), hence encode ∘ decode restores the expanded names
  (`encode_decode_names`).  Where the code falls short of the full statement the `_partial` /
  `_counterexample` pairs show the exact gap (findings C17-F4, F7, F9).

  The specification side (resolvers, reader of data trees, invariant) is in Lemmas/NsSpec.lean.
-/
import XsVerif.Model.NsMapper
import XsVerif.Lemmas.NsMapper
import XsVerif.Lemmas.NsStack
import XsVerif.Lemmas.NsSpec
import XsVerif.Lemmas.NsInv
import XsVerif.Lemmas.NsCollapse
import XsVerif.Lemmas.NsEncode
import XsVerif.Lemmas.NsDenote
import XsVerif.Lemmas.NsEncodeG

set_option linter.unusedSimpArgs false

namespace XsVerif.Props.C17
open XsVerif.NsMapper XsVerif.NsMapper.Map XsVerif.NsMapper.Stack

/-! ### round trip -/

/-- An element name mapped by a consistent mapper resolves back to itself.  (A name in no namespace
    can only occur where the default namespace is unset — namespace well-formedness.) -/
theorem roundtrip_elem (m : Mapper) (q : QN) (hr : ReverseOk m.ns m.rev)
    (hd : q.ns = "" → DefaultUnset m.ns) : resolveElem m.ns (mapQName m q) = some q := by
  obtain ⟨u, l⟩ := q
  unfold mapQName
  by_cases h0 : u = ""
  · subst h0
    simp only [if_true, resolveElem]
    rcases hd rfl with h | h <;> simp [h]
  · simp only [h0, if_false]
    split
    · rfl
    · cases hg : m.rev.get u with
      | none => rfl
      | some p =>
        have hb := hr u p hg
        by_cases hp : p = ""
        · subst hp; simp [resolveElem, hb]
        · simp [hp, resolveElem, hb, h0]

example : resolveElem [("p", "u1"), ("q", "u1")] (mapQName ⟨[("p", "u1"), ("q", "u1")], [("u1", "q")], []⟩ ⟨"u1", "a"⟩)
    = some ⟨"u1", "a"⟩ := by decide

/-  Full statement for attributes (false for the code as it is, finding C17-F7):
      ∀ m q, ReverseOk m.ns m.rev → resolveAttr m.ns (mapQName m q) = some q
    An attribute whose namespace has the *empty* prefix recorded is emitted unprefixed and then
    denotes the attribute in no namespace. -/
theorem roundtrip_attr_partial (m : Mapper) (q : QN) (hr : ReverseOk m.ns m.rev)
    (hguard : q.ns ≠ "" → m.rev.get q.ns ≠ some "") : resolveAttr m.ns (mapQName m q) = some q := by
  obtain ⟨u, l⟩ := q
  unfold mapQName
  by_cases h0 : u = ""
  · subst h0; simp [resolveAttr]
  · simp only [h0, if_false]
    split
    · rfl
    · cases hg : m.rev.get u with
      | none => rfl
      | some p =>
        have hb := hr u p hg
        have hp : p ≠ "" := by
          intro e; subst e; exact hguard h0 hg
        simp [hp, resolveAttr, resolveElem, hb, h0]

example : resolveAttr [("", "u1"), ("p", "u1")] (mapQName ⟨[("", "u1"), ("p", "u1")], [("u1", "p")], []⟩ ⟨"u1", "x"⟩)
    = some ⟨"u1", "x"⟩ := by decide

/-- `<a xmlns="u1" xmlns:p="u1" p:x="v"/>`: the reverse map built by `__init__` records the first
    prefix (the default one) for u1, so `{u1}x` is emitted as `x`, which denotes the unqualified `x`. -/
theorem roundtrip_attr_counterexample :
    let ns : Map := [("", "u1"), ("p", "u1")]
    let m : Mapper := { ns, rev := mkReverse ns }
    ReverseOk m.ns m.rev ∧ resolveAttr m.ns (mapQName m ⟨"u1", "x"⟩) = some ⟨"", "x"⟩ := by
  exact ⟨reverseOk_of_all (by decide), by decide⟩

/-! ### the invariant is kept by every operation -/

theorem mkReverse_ok (ns : Map) (hn : Map.Nodup ns) : ReverseOk ns (mkReverse ns) := by
  intro u p h
  unfold mkReverse at h
  have : ∀ (l : List (String × String)) (r : Map),
      (l.foldl (fun r kv => r.set kv.2 kv.1) r).get u = some p → (p, u) ∈ l ∨ r.get u = some p := by
    intro l r h; exact get_revfold h
  rcases this _ _ h with h1 | h1
  · exact get_of_mem hn (List.mem_reverse.mp h1)
  · simp at h1

/-- `__init__` establishes the invariant. -/
theorem init_inv (ns : Map) (hn : Map.Nodup ns) : Inv { ns, rev := mkReverse ns } :=
  ⟨⟨mkReverse_ok ns hn, hn⟩, by simp⟩

/-- **Stacked mode keeps the reverse map consistent** — for every state, level, object and every
    list of declarations with distinct prefixes: with the repointing rule of the tree under check
    (`Variant.repaired`, fix b20c29d) always; with the rule as it was before that fix when the element does
    not rebind two prefixes of one URI. -/
theorem setContext_stacked_inv (v : Variant) (m : Mapper) (obj level : Nat) (decl : Xmlns)
    (hi : Inv m) (hd : NodupKeys decl)
    (hv : v = .repaired ∨ SingleRebind (nsAfterPop m obj level) decl) :
    Inv (setContext v .stacked m obj level decl).m :=
  setContext_stacked_inv_aux v m obj level decl hi hd hv

example : Inv (setContext .repaired .stacked ⟨[("b", "u"), ("p0", "u"), ("k1", "u")], [("u", "b")], []⟩ 1 1
    [("k1", "x"), ("p0", "y")]).m :=
  setContext_stacked_inv _ _ _ _ _
    ⟨⟨reverseOk_of_all (by decide), by decide⟩, by simp⟩ (by decide) (Or.inl rfl)

/-- Finding C17-F2 (fixed by b20c29d): the rule as it was before the fix repoints to a prefix that the same
    element rebinds.  `<… xmlns:b="u" xmlns:p0="u" xmlns:k1="u"><g xmlns:k1="x" xmlns:p0="y"><b:e/>` :
    `{u}e` is emitted as `k1:e`, which denotes `{x}e`.  The repaired rule emits `b:e`. -/
theorem reverse_stale_counterexample :
    let m : Mapper := ⟨[("b", "u"), ("p0", "u"), ("k1", "u")], [("u", "k1")], []⟩
    let decl : Xmlns := [("k1", "x"), ("p0", "y")]
    let m1 := (setContext .pinned .stacked m 1 1 decl).m
    let m2 := (setContext .repaired .stacked m 1 1 decl).m
    mapQName m1 ⟨"u", "e"⟩ = .pre "k1" "e" ∧ resolveElem m1.ns (.pre "k1" "e") = some ⟨"x", "e"⟩ ∧
    mapQName m2 ⟨"u", "e"⟩ = .pre "b" "e" ∧ resolveElem m2.ns (.pre "b" "e") = some ⟨"u", "e"⟩ := by
  decide

/-- **The tree under check, unconditionally**: `set_xmlns_context` in stacked mode keeps every recorded prefix
    bound to its URI for every state, level, object and declaration list with distinct prefixes — the
    `SingleRebind` side condition of the pre-fix rule is gone (fix b20c29d). -/
theorem setContext_stacked_inv_current (m : Mapper) (obj level : Nat) (decl : Xmlns)
    (hi : Inv m) (hd : NodupKeys decl) : Inv (setContext .repaired .stacked m obj level decl).m :=
  setContext_stacked_inv .repaired m obj level decl hi hd (Or.inl rfl)

/-- the very state and declarations of the C17-F2 witness satisfy the hypotheses -/
example : Inv (setContext .repaired .stacked ⟨[("b", "u"), ("p0", "u"), ("k1", "u")], [("u", "k1")], []⟩ 1 1
    [("k1", "x"), ("p0", "y")]).m :=
  setContext_stacked_inv_current _ _ _ _ ⟨⟨reverseOk_of_all (by decide), by decide⟩, by simp⟩ (by decide)

/-  `__setitem__` as it was BEFORE fix b20c29d, full statement (false, finding C17-F5, fixed):
      ∀ m p u, Inv m → Inv (setItemPre m p u)
    Rebinding the recorded prefix of another URI left that record stale. -/
theorem setItemPre_inv_partial (m : Mapper) (p u : String) (hi : Inv m)
    (hguard : ∀ old, m.ns.get p = some old → old = u ∨ m.rev.get old ≠ some p) :
    Inv (setItemPre m p u) := by
  obtain ⟨⟨hr, hn⟩, hs⟩ := hi
  refine ⟨⟨?_, nodup_set hn _ _⟩, hs⟩
  intro u' p' h
  simp only [setItemPre] at h ⊢
  rw [get_set] at h
  split at h
  · rename_i e; cases h; subst e; exact get_set_self _ _ _
  · rename_i hne
    have hb := hr u' p' h
    by_cases hp : p = p'
    · subst hp
      rcases hguard u' hb with e | e
      · exact absurd e.symm hne
      · exact absurd h e
    · rw [get_set_ne _ _ hp]; exact hb

example : Inv (setItemPre ⟨[("p", "u1"), ("q", "u2")], [("u1", "p"), ("u2", "q")], []⟩ "k" "u1") :=
  setItemPre_inv_partial _ _ _ ⟨⟨reverseOk_of_all (by decide), by decide⟩, by simp⟩
    (by intro old h; simp [Map.get] at h)

theorem setItemPre_counterexample :
    let m : Mapper := ⟨[("p", "u1"), ("q", "u1")], [("u1", "p")], []⟩
    let m1 := setItemPre m "p" "u2"
    mapQName m1 ⟨"u1", "e"⟩ = .pre "p" "e" ∧ resolveElem m1.ns (.pre "p" "e") = some ⟨"u2", "e"⟩ := by
  decide

/-- `__setitem__` of the tree under check keeps the invariant for every state, prefix and URI. -/
theorem setItem_inv (m : Mapper) (p u : String) (hi : Inv m) : Inv (setItem m p u) := by
  obtain ⟨⟨hr, hn⟩, hs⟩ := hi
  have hn1 := nodup_set hn p u
  refine ⟨⟨?_, hn1⟩, hs⟩
  intro u' p' h
  simp only [setItem] at h ⊢
  rw [get_set] at h
  split at h
  · rename_i e; cases h; subst e; exact get_set_self _ _ _
  · rename_i hne
    -- an old record that survives is still valid in the updated map
    have keep : m.rev.get u' = some p' → (m.ns.get p = none ∨ m.ns.get p = some u ∨
        (∃ old, m.ns.get p = some old ∧ m.rev.get old ≠ some p) ∨ (∃ old, m.ns.get p = some old ∧ u' ≠ old)) →
        (m.ns.set p u).get p' = some u' := by
      intro h2 hc
      have hb := hr u' p' h2
      by_cases hp : p = p'
      · subst hp
        rcases hc with e | e | ⟨old, e, e2⟩ | ⟨old, e, e2⟩
        · rw [e] at hb; cases hb
        · rw [e] at hb; cases hb; exact absurd rfl hne
        · rw [e] at hb; cases hb; exact absurd h2 e2
        · rw [e] at hb; cases hb; exact absurd rfl e2
      · rw [get_set_ne _ _ hp]; exact hb
    cases hg : m.ns.get p with
    | none => simp only [hg] at h; exact keep h (Or.inl hg)
    | some old =>
      simp only [hg] at h
      split at h
      · rename_i hc
        by_cases hu : u' = old
        · subst hu
          split at h
          · rename_i k hk
            rw [get_set_self] at h; cases h
            obtain ⟨w, hw, hp⟩ := lastKey_mem hk
            simp only [decide_eq_true_eq] at hp
            rw [get_of_mem hn1 hw, hp]
          · rw [get_erase] at h; simp at h
        · have h' : m.rev.get u' = some p' := by
            split at h
            · rw [get_set_ne _ _ (Ne.symm hu), get_erase] at h; simpa [Ne.symm hu] using h
            · rw [get_erase] at h; simpa [Ne.symm hu] using h
          exact keep h' (Or.inr (Or.inr (Or.inr ⟨old, hg, hu⟩)))
      · rename_i hc
        apply keep h
        by_cases e1 : old = u
        · subst e1; exact Or.inr (Or.inl hg)
        · right; right; left
          exact ⟨old, hg, fun e2 => hc ⟨e1, e2⟩⟩

example : mapQName (setItem ⟨[("p", "u1"), ("q", "u1")], [("u1", "p")], []⟩ "p" "u2") ⟨"u1", "e"⟩
    = .pre "q" "e" := by decide

theorem nodup_erase {m : Map} (hn : Map.Nodup m) (k : String) : Map.Nodup (m.erase k) := by
  induction m with
  | nil => exact hn
  | cons hd t ih =>
    obtain ⟨k', v'⟩ := hd
    simp only [Map.Nodup, List.map_cons, List.nodup_cons] at hn
    simp only [Map.erase]
    split
    · exact ih hn.2
    · simp only [Map.Nodup, List.map_cons, List.nodup_cons]
      refine ⟨?_, ih hn.2⟩
      intro hm
      obtain ⟨⟨a, b⟩, hab, e⟩ := List.mem_map.mp hm
      simp only at e; subst e
      have h1 := get_of_mem (ih hn.2) hab
      rw [get_erase] at h1
      split at h1
      · cases h1
      · exact hn.1 (List.mem_map.mpr ⟨(a, b), mem_of_get h1, rfl⟩)

/-- `__delitem__` keeps the invariant (it recomputes the record of the URI that lost a prefix). -/
theorem delItem_inv (m m' : Mapper) (p : String) (hi : Inv m) (h : delItem m p = some m') : Inv m' := by
  obtain ⟨⟨hr, hn⟩, hs⟩ := hi
  unfold delItem at h
  cases hg : m.ns.get p with
  | none => simp [hg] at h
  | some uri =>
    simp only [hg] at h
    split at h
    · cases h
      have hn1 := nodup_erase hn p
      refine ⟨⟨?_, hn1⟩, hs⟩
      intro u' p' h'
      simp only at h' ⊢
      have other : u' ≠ uri → m.rev.get u' = some p' → (m.ns.erase p).get p' = some u' := by
        intro hne h2
        have hb := hr u' p' h2
        rw [get_erase]
        split
        · rename_i e; subst e; rw [hg] at hb; cases hb; exact absurd rfl hne
        · exact hb
      split at h'
      · rename_i k hk
        rw [get_set] at h'
        split at h'
        · rename_i e; cases h'; subst e
          obtain ⟨w, hw, hp⟩ := lastKey_mem hk
          simp only [decide_eq_true_eq] at hp
          rw [get_of_mem hn1 hw, hp]
        · rename_i hne
          rw [get_erase] at h'
          split at h'
          · cases h'
          · exact other (Ne.symm hne) h'
      · rw [get_erase] at h'
        split at h'
        · cases h'
        · rename_i hne; exact other (Ne.symm hne) h'
    · cases h

example : ∃ m', delItem ⟨[("p", "u1"), ("q", "u1")], [("u1", "p")], []⟩ "p" = some m' ∧
    mapQName m' ⟨"u1", "e"⟩ = .pre "q" "e" := ⟨_, rfl, by decide⟩


/-! ### stack discipline (stacked mode, both repointing rules) -/

/-- **At every element the namespaces in force are exactly the declarations in scope.**
    For every document tree (any size, depth, any redeclaration / shadowing pattern; sibling elements
    are distinct objects) decoded from a mapper with an empty context stack, the maps in force when the
    element's key is produced and when its attribute keys are produced are both the fold of the xmlns
    declarations on the path root → element over the initial map (`specObs`). -/
theorem stack_discipline (v : Variant) (t : Tree) (m0 : Mapper) (h0 : m0.stack = []) (hd : SibDistinct t) :
    (visit v .stacked 0 t m0).2.map proj = specObs m0.ns t :=
  (visit_spec v t hd 0 m0 [] m0.ns m0.rev [] (by intro c hc; cases hc) (Or.inl ⟨h0, rfl, rfl⟩) (by simp)).2

/-- **Leaving a subtree restores both maps and the stack exactly.**  After the whole visit of an element at
    level `L` (arbitrary subtree below it), the next call for a sibling puts the mapper back into the state
    it had before the element — `namespaces`, `_reverse` and `_xmlns_contexts` are equal, not just equivalent. -/
theorem subtree_restores (v : Variant) (t : Tree) (hd : SibDistinct t) (L : Nat) (m : Mapper)
    (hb : Below L m.stack) (sibling : Nat) (hne : sibling ≠ Tree.id t) :
    (setContext v .stacked (visit v .stacked L t m).1 sibling L []).m = m := by
  have h := (visit_spec v t hd L m m.stack m.ns m.rev [] hb (Or.inl ⟨rfl, rfl, rfl⟩) (by simp)).1
  rw [enter_spec v sibling [] hb h (by simpa using hne)]
  simp [entered]

/-! ### end to end: every key of the decoded document resolves to the name of its node -/

/-- an observation was produced by consistent mapper states -/
def ObsOk (o : Obs) : Prop :=
  (∃ m1, Inv m1 ∧ o.key = mapQName m1 o.tag ∧ o.nsAtKey = m1.ns) ∧
  (∃ m3, Inv m3 ∧ o.nsAtAttrs = m3.ns ∧ (∀ a ∈ o.attrs, a.2 = mapQName m3 a.1) ∧
    (∀ a ∈ o.attrsR, a.2 = mapAttr .repaired m3 a.1))

mutual
theorem visit_inv : ∀ (t : Tree), DeclsNodup t → ∀ (L : Nat) (m : Mapper), Inv m →
    Inv (visit .repaired .stacked L t m).1 ∧ ∀ o ∈ (visit .repaired .stacked L t m).2, ObsOk o
  | .node id tag attrs decl ch, hk, L, m, hi => by
    simp only [DeclsNodup] at hk
    have i1 := setContext_stacked_inv .repaired m id L decl hi hk.1 (Or.inl rfl)
    obtain ⟨i2, o2⟩ := visitList_inv ch hk.2 (L + 1) _ i1
    have i3 := setContext_stacked_inv .repaired _ id L decl i2 hk.1 (Or.inl rfl)
    simp only [visit]
    refine ⟨i3, ?_⟩
    intro o ho
    rcases List.mem_cons.mp ho with e | e
    · subst e
      refine ⟨⟨_, i1, rfl, rfl⟩, ⟨_, i3, rfl, ?_, ?_⟩⟩
      · intro a ha
        obtain ⟨q, _, rfl⟩ := List.mem_map.mp ha
        rfl
      · intro a ha
        obtain ⟨q, _, rfl⟩ := List.mem_map.mp ha
        rfl
    · exact o2 o e
theorem visitList_inv : ∀ (ts : List Tree), DeclsNodupList ts → ∀ (L : Nat) (m : Mapper), Inv m →
    Inv (visitList .repaired .stacked L ts m).1 ∧ ∀ o ∈ (visitList .repaired .stacked L ts m).2, ObsOk o
  | [], _, L, m, hi => by simp only [visitList]; exact ⟨hi, by simp⟩
  | t :: ts, hk, L, m, hi => by
    simp only [DeclsNodupList] at hk
    obtain ⟨i1, o1⟩ := visit_inv t hk.1 L m hi
    obtain ⟨i2, o2⟩ := visitList_inv ts hk.2 L _ i1
    simp only [visitList]
    refine ⟨i2, ?_⟩
    intro o ho
    rcases List.mem_append.mp ho with e | e
    · exact o1 o e
    · exact o2 o e
end

/-- **Decoded names resolve back to the same QNames** (stacked mode, repaired repointing rule).
    For every document (distinct prefixes per element) decoded from a consistent mapper: the key of every
    element, resolved by the XML Namespaces rules with the namespaces in force at the element — which by
    `stack_discipline` are exactly the declarations in scope — is the element's expanded name; names in
    no namespace are required to occur only where the default namespace is unset (well-formedness). -/
theorem decoded_names_resolve (t : Tree) (m0 : Mapper) (hi : Inv m0) (hk : DeclsNodup t) :
    ∀ o ∈ (visit .repaired .stacked 0 t m0).2,
      (o.tag.ns = "" → DefaultUnset o.nsAtKey) → resolveElem o.nsAtKey o.key = some o.tag := by
  intro o ho hd
  obtain ⟨⟨m1, i1, hkey, hns⟩, _⟩ := (visit_inv t hk 0 m0 hi).2 o ho
  rw [hkey, hns]
  exact roundtrip_elem m1 o.tag i1.1.1 (by rw [← hns]; exact hd)

example : (visit .pinned .stacked 0
    (.node 0 ⟨"", "r"⟩ [] [("p", "u1")] [.node 1 ⟨"u2", "c"⟩ [] [("p", "u2")] [], .node 2 ⟨"u1", "c"⟩ [] [] []])
    ⟨[("p", "u1")], [("u1", "p")], []⟩).2.map (fun o => (o.id, o.key)) =
    [(0, .loc "r"), (1, .pre "p" "c"), (2, .pre "p" "c")] := by decide


/-! ### attribute keys, whole documents (stacked mode) -/

/-  Full statement for the attribute keys of a document (false for the code as it is, finding C17-F7):
      ∀ o ∈ (visit .repaired .stacked 0 t m0).2, ∀ a ∈ o.attrs, resolveAttr o.nsAtAttrs a.2 = some a.1 -/
/-- **Attribute keys resolve back** for every document and every attribute that does not live in the namespace
    which is the default namespace of its scope (the reader's rule: the default namespace never applies to
    attributes, so such an attribute must be written with a prefix). -/
theorem decoded_attrs_resolve_partial (t : Tree) (m0 : Mapper) (hi : Inv m0) (hk : DeclsNodup t) :
    ∀ o ∈ (visit .repaired .stacked 0 t m0).2, ∀ a ∈ o.attrs,
      (a.1.ns ≠ "" → o.nsAtAttrs.get "" ≠ some a.1.ns) → resolveAttr o.nsAtAttrs a.2 = some a.1 := by
  intro o ho a ha hg
  obtain ⟨_, ⟨m3, i3, hns, hat, _⟩⟩ := (visit_inv t hk 0 m0 hi).2 o ho
  rw [hat a ha, hns]
  apply roundtrip_attr_partial m3 a.1 i3.1.1
  intro hne hrev
  exact hg hne (by rw [hns]; exact i3.1.1 _ _ hrev)

example : ∀ o ∈ (visit .repaired .stacked 0 (.node 0 ⟨"", "a"⟩ [⟨"u1", "x"⟩, ⟨"", "y"⟩] [("p", "u1"), ("", "u2")] [])
    ⟨[("p", "u1"), ("", "u2")], [("u1", "p"), ("u2", "")], []⟩).2, ∀ a ∈ o.attrs,
      resolveAttr o.nsAtAttrs a.2 = some a.1 := by decide

/-- `<a xmlns="u1" xmlns:p="u1" p:x="v"/>` as a whole document: the key of `{u1}x` is the bare `x`. -/
theorem decoded_attrs_counterexample :
    let t : Tree := .node 0 ⟨"u1", "a"⟩ [⟨"u1", "x"⟩] [("", "u1"), ("p", "u1")] []
    let m0 : Mapper := ⟨[("", "u1"), ("p", "u1")], [("u1", "")], []⟩
    (initMapper .stacked [] [("", "u1"), ("p", "u1")]).1 = m0 ∧ Inv m0 ∧ DeclsNodup t ∧
    (visit .repaired .stacked 0 t m0).2.map (fun o => o.attrs.map fun a => (a.2, resolveAttr o.nsAtAttrs a.2)) =
      [[(.loc "x", some ⟨"", "x"⟩)]] := by
  refine ⟨by decide, ⟨⟨reverseOk_of_all (by decide), by decide⟩, by simp⟩, ?_, by decide⟩
  simp only [DeclsNodup, DeclsNodupList]
  exact ⟨by decide, trivial⟩

/-- **With the repaired attribute rule every attribute key of every document resolves back** (no side
    condition): notes/fixes/C17-attribute-default-prefix.patch. -/
theorem decoded_attrs_resolve (t : Tree) (m0 : Mapper) (hi : Inv m0) (hk : DeclsNodup t) :
    ∀ o ∈ (visit .repaired .stacked 0 t m0).2, ∀ a ∈ o.attrsR, resolveAttr o.nsAtAttrs a.2 = some a.1 := by
  intro o ho a ha
  obtain ⟨_, ⟨m3, i3, hns, _, hat⟩⟩ := (visit_inv t hk 0 m0 hi).2 o ho
  rw [hat a ha, hns]
  exact roundtrip_attrR_grows m3 a.1 m3.ns i3.1.1 i3.1.2 (grows_refl _)

example : (visit .repaired .stacked 0 (.node 0 ⟨"u1", "a"⟩ [⟨"u1", "x"⟩] [("", "u1"), ("p", "u1")] [])
    (initMapper .stacked [] [("", "u1"), ("p", "u1")]).1).2.map (fun o => o.attrsR.map (·.2)) = [[.pre "p" "x"]] := by
  decide

/-! ### every mapper operation, every processing mode (the tree under check) -/

/-- the operations of the mapper API that change its state -/
inductive Op where
  | ctx (obj level : Nat) (decl : Xmlns)
  | set (p u : String)
  | del (p : String)

def applyOp (mode : Mode) (m : Mapper) : Op → Mapper
  | .ctx o l d => (setContext .repaired mode m o l d).m
  | .set p u => setItem m p u
  | .del p => match delItem m p with
    | some m' => m'
    | none => m            -- KeyError

/-- **Every sequence of operations keeps every recorded prefix bound to its URI** — `set_xmlns_context` with
    arbitrary objects, levels and declaration lists (distinct prefixes per list), `__setitem__`, `__delitem__`,
    in every xmlns_processing mode, starting from any consistent mapper without contexts (e.g. `__init__`). -/
theorem ops_inv (mode : Mode) (ops : List Op) (m : Mapper) (hi : Inv m) (hs : m.stack = [])
    (hk : ∀ o ∈ ops, ∀ ob l d, o = .ctx ob l d → NodupKeys d) :
    Inv (ops.foldl (applyOp mode) m) := by
  suffices h : ∀ (ops : List Op) (m : Mapper), Inv m → (mode ≠ .stacked → m.stack = []) →
      (∀ o ∈ ops, ∀ ob l d, o = .ctx ob l d → NodupKeys d) → Inv (ops.foldl (applyOp mode) m) from
    h ops m hi (fun _ => hs) hk
  intro ops
  induction ops with
  | nil => intro m hi _ _; exact hi
  | cons o rest ih =>
    intro m hi hs hk
    simp only [List.foldl_cons]
    have hk' : ∀ o' ∈ rest, ∀ ob l d, o' = .ctx ob l d → NodupKeys d :=
      fun o' ho' => hk o' (List.mem_cons_of_mem _ ho')
    cases o with
    | ctx ob l d =>
      have hd := hk _ List.mem_cons_self ob l d rfl
      by_cases hm : mode = .stacked
      · subst hm
        exact ih _ (setContext_stacked_inv_current m ob l d hi hd) (fun h => absurd rfl h) hk'
      · have hf := setContext_flat .repaired mode hm m ob l d hi (hs hm)
        exact ih _ hf.1 (fun _ => hf.2.1) hk'
    | set p u => exact ih _ (setItem_inv m p u hi) (fun h => by simpa [applyOp, setItem] using hs h) hk'
    | del p =>
      simp only [applyOp]
      cases hdel : delItem m p with
      | none => exact ih _ hi hs hk'
      | some m' =>
        refine ih _ (delItem_inv m m' p hi hdel) (fun h => ?_) hk'
        have := hs h
        unfold delItem at hdel
        split at hdel
        · cases hdel
        · split at hdel
          · cases hdel; simpa using this
          · cases hdel

example : Inv ([Op.ctx 1 1 [("p0", "u"), ("k1", "u")], .ctx 2 2 [("k1", "x"), ("p0", "y")], .set "b" "z", .del "p0"].foldl
    (applyOp .stacked) ⟨[("b", "u")], [("u", "b")], []⟩) :=
  ops_inv _ _ _ ⟨⟨reverseOk_of_all (by decide), by decide⟩, by simp⟩ rfl (by
    intro o ho ob l d e; subst e
    simp only [List.mem_cons, Op.ctx.injEq, List.not_mem_nil, or_false, reduceCtorEq] at ho
    rcases ho with ⟨_, _, rfl⟩ | ⟨_, _, rfl⟩ <;> decide)

/-! ### collapsed / root-only / none processing: one map that only grows -/

/-- generated prefixes never collide: a slot reported fresh is not a key of the map, a slot reported bound is
    bound to the very URI -/
theorem collapsed_prefixes_fresh {ns : Map} {uri : String} {f : Nat} {p q : String} :
    (findSlot ns uri f p = .fresh q → ns.get q = none) ∧ (findSlot ns uri f p = .bound q → ns.get q = some uri) :=
  ⟨findSlot_fresh, findSlot_bound⟩

example : findSlot [("p", "u1"), ("p0", "u2")] "u3" 3 "p" = .fresh "p1" := by decide

/-- **Collapsed processing never changes a binding or a record**: after the whole document every binding of the
    initial map and every reverse record is still there (colliding prefixes are renamed instead), the mapper is
    consistent and holds no contexts; the same for root-only and none. -/
theorem flat_bindings_kept (v : Variant) (mode : Mode) (hm : mode ≠ .stacked) (t : Tree) (m0 : Mapper)
    (hi : Inv m0) (h0 : m0.stack = []) :
    Inv (visit v mode 0 t m0).1 ∧ (visit v mode 0 t m0).1.stack = [] ∧
    Grows m0.ns (visit v mode 0 t m0).1.ns ∧ Grows m0.rev (visit v mode 0 t m0).1.rev :=
  let h := visit_flat v mode hm t 0 m0 hi h0
  ⟨h.1, h.2.1, h.2.2.1, h.2.2.2.1⟩

example : (visit .repaired .collapsed 0 (.node 0 ⟨"u1", "a"⟩ [] [("p", "u1")] [.node 1 ⟨"u2", "b"⟩ [] [("p", "u2")] []])
    ⟨[("p", "u1")], [("u1", "p")], []⟩).1.ns = [("p", "u1"), ("p0", "u2")] := by decide

/-- the map the data reports at the root (`get_effective_xmlns` at level 0) is the final map -/
theorem flat_root_reports_final (v : Variant) (mode : Mode) (t : Tree) (m0 : Mapper) :
    ((visit v mode 0 t m0).2.head?).map (·.nsAtAttrs) = some (visit v mode 0 t m0).1.ns := by
  cases t with
  | node id tag attrs decl ch => simp [visit]

/-  Full statement (false for the code as it is, finding C17-F4):
      ∀ o ∈ (visit v mode 0 t m0).2, resolveElem (visit v mode 0 t m0).1.ns o.key = some o.tag
    even for namespace-well-formed documents: a name in no namespace below an `xmlns=""` is emitted bare while the
    single map keeps the outer default namespace. -/
/-- **Collapsed / root-only / none: every element key of every document resolves, with the one map the data
    reports at the root, to the expanded name of its node** — for names in a namespace always (a namespace without
    a prefix in the map stays in `{uri}local` form); for a name in no namespace when the final map has no default
    namespace. -/
theorem flat_names_resolve_partial (v : Variant) (mode : Mode) (hm : mode ≠ .stacked) (t : Tree) (m0 : Mapper)
    (hi : Inv m0) (h0 : m0.stack = []) :
    ∀ o ∈ (visit v mode 0 t m0).2,
      (o.tag.ns = "" → DefaultUnset (visit v mode 0 t m0).1.ns) →
      resolveElem (visit v mode 0 t m0).1.ns o.key = some o.tag := by
  intro o ho hd
  obtain ⟨m1, m3, i1, _, g1, _, _, hkey, _⟩ := (visit_flat v mode hm t 0 m0 hi h0).2.2.2.2 o ho
  rw [hkey]
  exact roundtrip_elem_grows m1 o.tag _ i1.1.1 g1 hd

example : ∀ o ∈ (visit .repaired .collapsed 0
    (.node 0 ⟨"u1", "a"⟩ [] [("p", "u1")] [.node 1 ⟨"u2", "b"⟩ [] [("p", "u2")] [], .node 2 ⟨"u1", "b"⟩ [] [] []])
    ⟨[("p", "u1")], [("u1", "p")], []⟩).2,
    resolveElem [("p", "u1"), ("p0", "u2")] o.key = some o.tag := by decide

/-- `<a xmlns="u1"><a xmlns=""><b/></a></a>` collapsed: `b` (no namespace) is emitted as `b`, which the reported
    map reads as `{u1}b`. -/
theorem flat_names_counterexample :
    let t : Tree := .node 0 ⟨"u1", "a"⟩ [] [("", "u1")] [.node 1 ⟨"", "a"⟩ [] [("", "")] [.node 2 ⟨"", "b"⟩ [] [] []]]
    let m0 : Mapper := ⟨[("", "u1")], [("u1", "")], []⟩
    let r := visit .repaired .collapsed 0 t m0
    (initMapper .collapsed [] [("", "u1")]).1 = m0 ∧ Inv m0 ∧ r.2.map (fun o => (o.key, resolveElem r.1.ns o.key)) =
      [(.loc "a", some ⟨"u1", "a"⟩), (.loc "a", some ⟨"u1", "a"⟩), (.loc "b", some ⟨"u1", "b"⟩)] := by
  refine ⟨by decide, ⟨⟨reverseOk_of_all (by decide), by decide⟩, by simp⟩, by decide⟩

/-- attribute keys in the one-map modes: same side condition as in stacked mode, against the final map -/
theorem flat_attrs_resolve_partial (v : Variant) (mode : Mode) (hm : mode ≠ .stacked) (t : Tree) (m0 : Mapper)
    (hi : Inv m0) (h0 : m0.stack = []) :
    ∀ o ∈ (visit v mode 0 t m0).2, ∀ a ∈ o.attrs,
      (a.1.ns ≠ "" → (visit v mode 0 t m0).1.ns.get "" ≠ some a.1.ns) →
      resolveAttr (visit v mode 0 t m0).1.ns a.2 = some a.1 := by
  intro o ho a ha hg
  obtain ⟨m1, m3, _, i3, _, g3, _, _, hat, _⟩ := (visit_flat v mode hm t 0 m0 hi h0).2.2.2.2 o ho
  rw [hat a ha]
  apply roundtrip_attr_grows_partial m3 a.1 _ i3.1.1 g3
  intro hne hrev
  exact hg hne (g3 _ _ (i3.1.1 _ _ hrev))

/-- … and with the repaired attribute rule unconditionally -/
theorem flat_attrs_resolve (v : Variant) (mode : Mode) (hm : mode ≠ .stacked) (t : Tree) (m0 : Mapper)
    (hi : Inv m0) (h0 : m0.stack = []) :
    ∀ o ∈ (visit v mode 0 t m0).2, ∀ a ∈ o.attrsR, resolveAttr (visit v mode 0 t m0).1.ns a.2 = some a.1 := by
  intro o ho a ha
  obtain ⟨m1, m3, _, i3, _, g3, _, _, _, hat, _⟩ := (visit_flat v mode hm t 0 m0 hi h0).2.2.2.2 o ho
  rw [hat a ha]
  exact roundtrip_attrR_grows m3 a.1 _ i3.1.1 i3.1.2 g3

example : ∀ o ∈ (visit .repaired .collapsed 0 (.node 0 ⟨"u1", "a"⟩ [⟨"u1", "x"⟩] [("", "u1"), ("p", "u1")] [])
    (initMapper .collapsed [] [("", "u1"), ("p", "u1")]).1).2, ∀ a ∈ o.attrsR,
    resolveAttr [("", "u1"), ("p", "u1")] a.2 = some a.1 := by decide

/-- **'none' never looks at the document**: the mapper after any document is the mapper before it. -/
theorem none_constant (v : Variant) (t : Tree) (m0 : Mapper) (h0 : m0.stack = []) :
    (visit v .none 0 t m0).1 = m0 := visit_none_const v t 0 m0 h0

/-- **'root-only' uses the declarations of the root only**: below the root no element changes the mapper. -/
theorem rootOnly_below_root_constant (v : Variant) (ts : List Tree) (L : Nat) (m : Mapper) (h0 : m.stack = []) :
    (visitList v .rootOnly (L + 1) ts m).1 = m := visitList_rootOnly_const v ts (L + 1) m h0 (by omega)

example : (visit .repaired .rootOnly 0 (.node 0 ⟨"u1", "a"⟩ [] [("p", "u1")] [.node 1 ⟨"u2", "b"⟩ [] [("q", "u2")] []])
    ⟨[("p", "u1")], [("u1", "p")], []⟩).2.map (·.key) = [.pre "p" "a", .braced "u2" "b"] := by decide

/-! ### process_namespaces / strip_namespaces -/

/-- `process_namespaces=False`: names stay in extended form and denote themselves under any declarations -/
theorem noprocess_names (m : Mapper) (q : QN) (ns : Map) (hd : q.ns = "" → DefaultUnset ns) :
    resolveElem ns (mapQNameCfg { process := false, strip := false } m q) = some q := by
  obtain ⟨u, l⟩ := q
  by_cases h : u = ""
  · subst h
    rcases hd rfl with e | e <;> simp [mapQNameCfg, NameCfg.useNs, resolveElem, e]
  · simp [mapQNameCfg, NameCfg.useNs, resolveElem, h]

/-- `strip_namespaces=True` does not keep namespace information (outside the property): names of different
    namespaces get the same key, whatever the mapper -/
theorem strip_loses_namespace (m : Mapper) (u1 u2 l : String) :
    mapQNameCfg { process := true, strip := true } m ⟨u1, l⟩ =
    mapQNameCfg { process := true, strip := true } m ⟨u2, l⟩ := by
  simp [mapQNameCfg, NameCfg.useNs]


/-! ### decoded data as a whole: what it denotes, and what the encoders make of it -/

/-- **Decoded data denotes the document.**  For every document (any size, depth, redeclaration / shadowing
    pattern; distinct prefixes per element, distinct sibling objects) decoded in stacked mode from a consistent
    mapper, a reader that starts from nothing and uses only the xmlns entries the data reports for an item and its
    ancestors resolves every element key and every attribute key to the expanded name of its XML node — with and
    without the pruning of childless items by the default converter (`keep_result_dict`), for names matched by
    wildcards as for declared ones (the model never looks at declarations).  Side conditions (`WellScoped`): a
    name in no namespace occurs only where the default namespace is unset, and — for the attribute rule of the
    tree under check only — no attribute lives in the default namespace of its scope (C17-F7). -/
theorem decoded_data_denotes (a : AttrRule) (prune : Bool) (t : Tree) (m0 : Mapper) (hi : Inv m0)
    (h0 : m0.stack = []) (hk : DeclsNodup t) (hd : SibDistinct t) (hw : WellScoped a m0.ns t) :
    readItem Scope.empty (decodeT .repaired a prune .stacked 0 t m0).2 = docNames t :=
  decode_denotes a prune t m0 hi h0 hk hd hw

/-- a shadowing document with a childless item whose dictionary the default converter drops -/
example : readItem Scope.empty (decodeT .repaired .current true .stacked 0
    (.node 0 ⟨"u1", "a"⟩ [⟨"u2", "x"⟩] [("p", "u1"), ("q", "u2")]
      [.node 1 ⟨"u2", "b"⟩ [] [("p", "u2")] [.node 3 ⟨"u2", "a"⟩ [] [("k", "u3")] []], .node 2 ⟨"u1", "b"⟩ [] [] []])
    ⟨[("p", "u1"), ("q", "u2")], [("u1", "p"), ("u2", "q")], []⟩).2 =
    [(0, some ⟨"u1", "a"⟩, [some ⟨"u2", "x"⟩]), (1, some ⟨"u2", "b"⟩, []), (3, some ⟨"u2", "a"⟩, []),
     (2, some ⟨"u1", "b"⟩, [])] := by decide

/-- **The encoders restore exactly the names the data denotes** (stacked mode; every data tree with distinct
    sibling objects, any depth and redeclaration pattern, whether or not it came from a decoder): the tag under
    which each item is encoded and the names of its attributes are what the XML-Namespaces reader computes from
    the reported declarations, starting from the encoder's initial map.  `Readable`: every key denotes a name, and
    an unprefixed attribute key that the element's type does not declare occurs only where the default namespace
    is unset (else `unmap_qname(name, xsd_element.attributes)` moves it into the default namespace: C17-F9). -/
theorem encoder_reads_data (v : Variant) (tab : Nat → String → Bool) (item : Item) (e0 : Mapper)
    (h0 : e0.stack = []) (hd : ItemDistinct item) (hr : Readable tab e0.ns.get item) :
    (encodeDoc v .stacked tab item e0).2.map encProj = readItem e0.ns.get item :=
  encode_reads v tab item e0 h0 hd hr

example : (encodeDoc .repaired .stacked (fun _ l => l = "y")
    (.node 0 (.pre "p" "a") true [("p", "u1")] [.loc "y"]
      [.node 1 (.pre "p" "b") true [("p", "u2")] [.pre "p" "x"] [], .node 2 (.pre "p" "b") false [] [] []])
    ⟨[], [], []⟩).2.map encProj =
    [(0, some ⟨"u1", "a"⟩, [some ⟨"", "y"⟩]), (1, some ⟨"u2", "b"⟩, [some ⟨"u2", "x"⟩]), (2, some ⟨"u1", "b"⟩, [])] := by
  decide

/-- the encoder's stack discipline: the namespaces in force at each item are the fold of the reported xmlns on
    the path root → item over the initial map (one call may pop several contexts: there is no purge call) -/
theorem encoder_scopes (v : Variant) (tab : Nat → String → Bool) (tag : Unmapped) (item : Item) (e0 : Mapper)
    (h0 : e0.stack = []) (hd : ItemDistinct item) (hm : AllMaps item) :
    (encVisit v .stacked tab 0 tag item e0).2.map (fun e => (e.id, e.ns.get)) = encScopes e0.ns.get item :=
  encode_scopes v tab tag item e0 h0 hd hm

example : (encVisit .repaired .stacked (fun _ _ => false) 0 (.name ⟨"", "r"⟩)
    (.node 0 (.loc "r") true [("p", "u1")]
      [] [.node 1 (.loc "c") true [("p", "u2")] [] [.node 3 (.loc "d") true [("q", "u3")] [] []],
          .node 2 (.loc "c") true [] [] []]) ⟨[], [], []⟩).2.map (fun e => (e.id, e.ns)) =
    [(0, [("p", "u1")]), (1, [("p", "u2")]), (3, [("p", "u2"), ("q", "u3")]), (2, [("p", "u1")])] := by decide

/-- mapper level: `unmap_qname` undoes `map_qname` on element names -/
theorem unmap_map_elem (m : Mapper) (q : QN) (hr : ReverseOk m.ns m.rev) (hd : q.ns = "" → DefaultUnset m.ns) :
    unmapQName m.ns [] false (mapQName m q) = .name q :=
  unmap_eq_read (by rw [readElem_get]; exact roundtrip_elem m q hr hd)

example : unmapQName [("p", "u1"), ("q", "u1")] [] false (mapQName ⟨[("p", "u1"), ("q", "u1")], [("u1", "q")], []⟩ ⟨"u1", "a"⟩)
    = .name ⟨"u1", "a"⟩ := by decide

theorem mapAttr_repaired_loc {m : Mapper} {q : QN} {l : String} (h : mapAttr .repaired m q = .loc l) : q.ns = "" := by
  unfold mapAttr at h
  simp only at h
  split at h
  · split at h
    · assumption
    · split at h <;> cases h
  · rename_i n hn
    exact absurd h (hn l)

/-  Full statement for attribute names (false for the code as it is, finding C17-F9):
      ∀ m q tab, ReverseOk m.ns m.rev → unmapQName m.ns [] tab (mapAttr .repaired m q) = .name q -/
/-- mapper level, attribute names (repaired attribute rule): `unmap_qname(key, xsd_element.attributes)` undoes
    the key unless the attribute is in no namespace, undeclared, and a default namespace is in force -/
theorem unmap_map_attr_partial (m : Mapper) (q : QN) (tab : Bool) (hr : ReverseOk m.ns m.rev) (hn : Map.Nodup m.ns)
    (hguard : q.ns = "" → tab = true ∨ DefaultUnset m.ns) :
    unmapQName m.ns [] tab (mapAttr .repaired m q) = .name q := by
  apply unmap_attr_eq_read (by rw [readAttr_get]; exact roundtrip_attr_repaired' m q hr hn)
  intro l hl
  rcases hguard (mapAttr_repaired_loc hl) with h | h | h
  · exact Or.inl h
  · exact Or.inr (Or.inl h)
  · exact Or.inr (Or.inr h)

example : unmapQName [("", "u1"), ("p", "u1")] [] false
    (mapAttr .repaired ⟨[("", "u1"), ("p", "u1")], [("u1", "")], []⟩ ⟨"u1", "x"⟩) = .name ⟨"u1", "x"⟩ := by decide

/-- `<a xmlns="u1" z="v"/>` with `z` matched by the attribute wildcard: the key `z` is read back as `{u1}z`. -/
theorem unmap_map_attr_counterexample :
    let m : Mapper := ⟨[("", "u1")], [("u1", "")], []⟩
    ReverseOk m.ns m.rev ∧ mapAttr .repaired m ⟨"", "z"⟩ = .loc "z" ∧
    unmapQName m.ns [] false (.loc "z") = .name ⟨"u1", "z"⟩ := by
  exact ⟨reverseOk_of_all (by decide), by decide, by decide⟩

theorem scope_bind_congr : ∀ (l : Xmlns) (s1 s2 : Scope), (∀ k, (∀ d ∈ l, d.1 ≠ k) → s1 k = s2 k) →
    Scope.bind s1 l = Scope.bind s2 l := by
  intro l
  induction l with
  | nil => intro s1 s2 h; exact funext fun k => h k (by simp)
  | cons d t ih =>
    intro s1 s2 h
    simp only [Scope.bind, List.foldl_cons]
    apply ih
    intro k hk
    by_cases e : d.1 = k
    · simp [e]
    · simp only [e, if_false]
      apply h
      intro d' hd'
      rcases List.mem_cons.mp hd' with rfl | h'
      · exact e
      · exact hk d' h'

/-  Full statement (false for the code as it is: C17-F7 / C17-F9, and C17-F4 for documents that are not
    `WellScoped`):  ∀ t m0 e0 …, (encodeDoc … (decodeT … t m0).2 e0).2.map encProj = docNames t -/
/-- **Encoding the decoded data restores the expanded names of the document** (stacked mode): decode-name →
    encode-name is the identity on every element and attribute of every document, for both attribute rules, with
    and without pruning, when the encoder starts with no prefix beyond those the data (re)declares at its root
    (what `get_namespaces` reads from the data; violated by C17-F8) and under the side conditions of
    `decoded_data_denotes` plus `UnqualDeclared` (an attribute in no namespace that the element's type does not
    declare occurs only where the default namespace is unset: C17-F9). -/
theorem encode_decode_names_partial (a : AttrRule) (prune : Bool) (tab : Nat → String → Bool) (t : Tree)
    (m0 e0 : Mapper) (hi : Inv m0) (h0 : m0.stack = []) (he : e0.stack = []) (hk : DeclsNodup t)
    (hd : SibDistinct t) (hw : WellScoped a m0.ns t) (ht : UnqualDeclared tab m0.ns t)
    (hroot : ∀ k, e0.ns.get k ≠ none →
      ∃ d ∈ Item.xmlns (decodeT .repaired a prune .stacked 0 t m0).2, d.1 = k) :
    (encodeDoc .repaired .stacked tab (decodeT .repaired a prune .stacked 0 t m0).2 e0).2.map encProj =
      docNames t := by
  have hden := decode_denotes a prune t m0 hi h0 hk hd hw
  have hrd := decode_readable a prune tab t m0 hi h0 hk hd hw ht
  have hdist := decode_distinct a prune .stacked .repaired t 0 m0 hd
  generalize (decodeT .repaired a prune .stacked 0 t m0).2 = item at hden hrd hdist hroot
  obtain ⟨id, key, isMap, xmlns, attrs, ch⟩ := item
  have hb : Scope.bind e0.ns.get xmlns = Scope.bind Scope.empty xmlns := by
    apply scope_bind_congr
    intro k hk'
    cases hg : e0.ns.get k with
    | none => rfl
    | some v =>
      obtain ⟨d, hd', e⟩ := hroot k (by rw [hg]; simp)
      exact absurd e (hk' d hd')
  have hr2 : Readable tab e0.ns.get (.node id key isMap xmlns attrs ch) := by
    simp only [Readable] at hrd ⊢
    rw [hb]; exact hrd
  rw [encode_reads .repaired tab _ e0 he hdist hr2, ← hden]
  simp only [readItem, hb]

example : (encodeDoc .repaired .stacked (fun _ l => l = "y") (decodeT .repaired .current true .stacked 0
    (.node 0 ⟨"u1", "a"⟩ [⟨"u2", "x"⟩, ⟨"", "y"⟩] [("p", "u1"), ("q", "u2")]
      [.node 1 ⟨"u2", "b"⟩ [] [("p", "u2")] [.node 3 ⟨"u2", "a"⟩ [] [("k", "u3")] []], .node 2 ⟨"u1", "b"⟩ [] [] []])
    ⟨[("p", "u1"), ("q", "u2")], [("u1", "p"), ("u2", "q")], []⟩).2
    ⟨[("p", "u1"), ("q", "u2")], [("u1", "p"), ("u2", "q")], []⟩).2.map encProj =
    [(0, some ⟨"u1", "a"⟩, [some ⟨"u2", "x"⟩, some ⟨"", "y"⟩]), (1, some ⟨"u2", "b"⟩, []), (3, some ⟨"u2", "a"⟩, []),
     (2, some ⟨"u1", "b"⟩, [])] := by decide

/-- `<a xmlns="u1" z="v"/>`, `z` undeclared (attribute wildcard): the decoded data denotes the document (key `@z`),
    the encoder makes `{u1}z` of it. -/
theorem encode_decode_names_counterexample :
    let t : Tree := .node 0 ⟨"u1", "a"⟩ [⟨"", "z"⟩] [("", "u1")] []
    let m0 : Mapper := ⟨[("", "u1")], [("u1", "")], []⟩
    readItem Scope.empty (decodeT .repaired .current true .stacked 0 t m0).2 = docNames t ∧
    (encodeDoc .repaired .stacked (fun _ _ => false) (decodeT .repaired .current true .stacked 0 t m0).2 m0).2.map encProj =
      [(0, some ⟨"u1", "a"⟩, [some ⟨"u1", "z"⟩])] ∧
    docNames t = [(0, some ⟨"u1", "a"⟩, [some ⟨"", "z"⟩])] := by
  refine ⟨by decide, by decide, by decide⟩


/-! ### the encoders as they are: the mechanisms of the listed findings behind flags (`encVisitG`) -/

/-- the schema family of the harness: elements a, b declared in every namespace but u4, every declared element
    declares the unqualified attribute y -/
def famSchema : EncSchema :=
  { declared := fun q => q.ns != "u4" && (q.loc == "a" || q.loc == "b"), unq := fun _ l => l == "y" }

/-- **With the F10 mechanism off the encoders of the tree restore exactly the names the data denotes** — for every
    schema oracle, with and without the own-tag check of JsonML (it never fires, `encoderG_none_refused`); with the
    F9 mechanism on under the attribute guard of `ReadableG true`, with F9 off for every data tree whose keys denote
    names at all.  (`encVisitG` with all mechanisms on is the model the real `element_encode` runs are compared
    with; a difference between the encoded names and the names the data denotes counts as a known finding exactly
    when that model reproduces it and switching the finding's mechanism off changes the prediction.) -/
theorem encoderG_reads_data (v : Variant) (fl : EncFlags) (sch : EncSchema) (item : Item) (e0 : Mapper)
    (hf : fl.f10 = false) (h0 : e0.stack = []) (hd : ItemDistinct item)
    (hr : ReadableG fl.f9 sch e0.ns.get item) :
    encProjG (encodeDocG v .stacked fl sch item e0).2 = readItem e0.ns.get item :=
  encodeG_reads v fl sch item e0 hf h0 hd hr

theorem encoderG_none_refused (v : Variant) (fl : EncFlags) (sch : EncSchema) (item : Item) (e0 : Mapper)
    (hf : fl.f10 = false) (h0 : e0.stack = []) (hd : ItemDistinct item)
    (hr : ReadableG fl.f9 sch e0.ns.get item) :
    ∀ e ∈ (encodeDocG v .stacked fl sch item e0).2, e.dropped = false :=
  encodeG_none_dropped v fl sch item e0 hf h0 hd hr

/-- `<a xmlns="u1" z="v"><k:w xmlns:k="u4" y="v"/></a>` with F9 and F10 off: `z` (undeclared) and `y` on the
    wildcard-matched element keep no namespace -/
example : encProjG (encodeDocG .repaired .stacked { f9 := false, f10 := false, ownTag := true } famSchema
    (.node 0 (.loc "a") true [("", "u1")] [.loc "z"] [.node 1 (.pre "k" "w") true [("k", "u4")] [.loc "y"] []])
    ⟨[], [], []⟩).2 =
    [(0, some ⟨"u1", "a"⟩, [some ⟨"", "z"⟩]), (1, some ⟨"u4", "w"⟩, [some ⟨"", "y"⟩])] := by decide

/-- Finding C17-F10: `<k:b xmlns="u4" xmlns:k="u2"><w><a xmlns=""/></w></k:b>`.  The data denotes `a` in no namespace;
    with the mechanism of groups.py:1161 on, the child of the wildcard-matched `w` is encoded as `{u4}a` (dict
    converters) resp. refused by JsonML's own-tag check; with the mechanism off it is `a`. -/
theorem encoder_f10_counterexample :
    let item : Item := .node 0 (.pre "k" "b") true [("", "u4"), ("k", "u2")] []
      [.node 1 (.loc "w") true [] [] [.node 2 (.loc "a") true [("", "")] [] []]]
    let e0 : Mapper := ⟨[], [], []⟩
    readItem e0.ns.get item = [(0, some ⟨"u2", "b"⟩, []), (1, some ⟨"u4", "w"⟩, []), (2, some ⟨"", "a"⟩, [])] ∧
    encProjG (encodeDocG .repaired .stacked { f10 := true } famSchema item e0).2 =
      [(0, some ⟨"u2", "b"⟩, []), (1, some ⟨"u4", "w"⟩, []), (2, some ⟨"u4", "a"⟩, [])] ∧
    encProjG (encodeDocG .repaired .stacked { f10 := true, ownTag := true } famSchema item e0).2 =
      [(0, some ⟨"u2", "b"⟩, []), (1, some ⟨"u4", "w"⟩, [])] ∧
    encProjG (encodeDocG .repaired .stacked { f10 := false, ownTag := true } famSchema item e0).2 =
      readItem e0.ns.get item := by
  refine ⟨by decide, by decide, by decide, by decide⟩

/-- Finding C17-F8: `<a><b xmlns="u1"/><b/></a>` as JsonML data.  `get_namespaces` hands the encoder the default
    namespace declared by the first CHILD (`e0` binds "" although the root reports no declaration — the hypothesis
    `hroot` of `encode_decode_names_partial` fails): root and second child are encoded in `u1`; from the initial map
    that holds only what the root reports the names are those the data denotes. -/
theorem encoder_f8_counterexample :
    let item : Item := .node 0 (.loc "a") true [] []
      [.node 1 (.loc "b") true [("", "u1")] [] [], .node 2 (.loc "b") true [] [] []]
    let leaked : Mapper := ⟨[("", "u1")], [("u1", "")], []⟩
    let clean : Mapper := (initMapper .stacked [] (Item.xmlns item)).1
    encProjG (encodeDocG .repaired .stacked { ownTag := true } famSchema item leaked).2 =
      [(0, some ⟨"u1", "a"⟩, []), (1, some ⟨"u1", "b"⟩, []), (2, some ⟨"u1", "b"⟩, [])] ∧
    encProjG (encodeDocG .repaired .stacked { ownTag := true } famSchema item clean).2 =
      [(0, some ⟨"", "a"⟩, []), (1, some ⟨"u1", "b"⟩, []), (2, some ⟨"", "b"⟩, [])] ∧
    readItem Scope.empty item = [(0, some ⟨"", "a"⟩, []), (1, some ⟨"u1", "b"⟩, []), (2, some ⟨"", "b"⟩, [])] := by
  refine ⟨by decide, by decide, by decide⟩

end XsVerif.Props.C17
