/-
  C14 — element-type clause of the element restriction rule (elements.py `XsdElement.is_restriction`:
  `self.type.is_derived(other.type, 'restriction')`).

  A restricting element declaration may re-declare the child with ANOTHER named type only if that type is
  reached from the base element's type by a chain of derivation steps that are ALL restrictions.
  S  an `item` (name, content) list accepted by the restricting element is accepted by the base element.
  M  `derivedBy env admitExt fuel d b`: walk of the base-type chain of `d` up to `b`; a step by extension is
     admitted only when `admitExt` (the seeded/broken rule).  `elemRestr` = name ∧ occurs ∧ type clause.
-/
namespace XsVerif.Props.C14ElemType

inductive Meth | restriction | extension
  deriving DecidableEq, Repr

/-- type environment: `env[i]` = (base type, method) of the named type `i`, `none` for a root type. -/
abbrev Env := List (Option (Nat × Meth))

/-- port of `is_derived(other, 'restriction')` over named complex types: identity, or a chain of steps each of
    which is a restriction (or anything when `admitExt`, the rule WITHOUT the derivation-method test). -/
def derivedBy (env : Env) (admitExt : Bool) : Nat → Nat → Nat → Bool
  | 0, d, b => d == b
  | f + 1, d, b =>
    d == b ||
      match env[d]? with
      | some (some (p, m)) => (m == .restriction || admitExt) && derivedBy env admitExt f p b
      | _ => false

/-- what a validator accepts as content of an element of type `t` (content = child-name codes). -/
abbrev Val := Nat → List Nat → Bool

/-- hypothesis "C14 holds one level down": every declared restriction step narrows the content set. -/
def StepsNarrow (env : Env) (val : Val) : Prop :=
  ∀ d p, env[d]? = some (some (p, Meth.restriction)) → ∀ x, val d x = true → val p x = true

theorem derivedBy_restriction_narrows (env : Env) (val : Val) (h : StepsNarrow env val) :
    ∀ (fuel d b : Nat), derivedBy env false fuel d b = true → ∀ x, val d x = true → val b x = true := by
  intro fuel
  induction fuel with
  | zero =>
    intro d b hd x hx
    simp [derivedBy] at hd
    subst hd; exact hx
  | succ f ih =>
    intro d b hd x hx
    simp only [derivedBy, Bool.or_eq_true, beq_iff_eq] at hd
    rcases hd with rfl | hd
    · exact hx
    · cases he : env[d]? with
      | none => simp [he] at hd
      | some o =>
        cases o with
        | none => simp [he] at hd
        | some pm =>
          obtain ⟨p, m⟩ := pm
          simp only [he, Bool.and_eq_true, Bool.or_false] at hd
          obtain ⟨hm, hrec⟩ := hd
          have hm' : m = Meth.restriction := by
            cases m
            · rfl
            · exact absurd hm (by decide)
          subst hm'
          exact ih p b hrec x (h d p he x hx)

/-- an element particle: name code, type, occurrence range. -/
structure Elem where
  name : Nat
  ty : Nat
  lo : Nat
  hi : Option Nat

/-- the children it accepts: a run of `(name, content)` items, all of its name, each content valid for its
    type, their number in range. -/
def Elem.accepts (val : Val) (e : Elem) (w : List (Nat × List Nat)) : Bool :=
  w.all (fun it => it.1 == e.name && val e.ty it.2) &&
    decide (e.lo ≤ w.length) && (match e.hi with | none => true | some h => decide (w.length ≤ h))

def occursRestr (d b : Elem) : Bool :=
  decide (b.lo ≤ d.lo) &&
    (match b.hi, d.hi with
     | none, _ => true
     | some _, none => false
     | some hb, some hd => decide (hd ≤ hb))

/-- the element rule with its type clause. -/
def elemRestr (env : Env) (admitExt : Bool) (fuel : Nat) (d b : Elem) : Bool :=
  d.name == b.name && occursRestr d b && derivedBy env admitExt fuel d.ty b.ty

/-- with the type clause (restriction steps only) the element rule is narrowing. -/
theorem elem_type_clause_narrows (env : Env) (val : Val) (h : StepsNarrow env val) (fuel : Nat) (d b : Elem)
    (hr : elemRestr env false fuel d b = true) (w : List (Nat × List Nat))
    (hw : d.accepts val w = true) : b.accepts val w = true := by
  simp only [elemRestr, Bool.and_eq_true, beq_iff_eq] at hr
  obtain ⟨⟨hn, ho⟩, ht⟩ := hr
  have hty := derivedBy_restriction_narrows env val h fuel d.ty b.ty ht
  simp only [Elem.accepts, Bool.and_eq_true, decide_eq_true_eq, List.all_eq_true, beq_iff_eq] at hw ⊢
  obtain ⟨⟨hall, hlo⟩, hhi⟩ := hw
  simp only [occursRestr, Bool.and_eq_true, decide_eq_true_eq] at ho
  obtain ⟨holo, hohi⟩ := ho
  refine ⟨⟨?_, Nat.le_trans holo hlo⟩, ?_⟩
  · intro it hit
    obtain ⟨h1, h2⟩ := hall it hit
    exact ⟨h1.trans hn, hty _ h2⟩
  · cases hb : b.hi with
    | none => rfl
    | some hbv =>
      cases hd : d.hi with
      | none => simp [hb, hd] at hohi
      | some hdv =>
        simp only [hb, hd, decide_eq_true_eq] at hohi hhi ⊢
        exact Nat.le_trans hhi hohi

/-- type 0 = sequence(a); type 1 = extension of 0 adding b; type 2 = restriction of 0. -/
def envX : Env := [none, some (0, .extension), some (0, .restriction)]
def valX : Val := fun t x => match t with
  | 0 => x == [0]
  | 1 => x == [0, 1]
  | _ => x == [0]
def eB : Elem := { name := 7, ty := 0, lo := 1, hi := some 3 }
def eD : Elem := { name := 7, ty := 1, lo := 1, hi := some 2 }

/-- when a step by extension is admitted the rule accepts a widening: `item(a b)` is valid for the restricting
    element only (the shape of the demo); the rule with the clause refuses the pair, and the environment
    satisfies the hypothesis of `elem_type_clause_narrows` on its declared restriction step. -/
theorem elem_type_extension_counterexample :
    elemRestr envX true 3 eD eB = true ∧ elemRestr envX false 3 eD eB = false ∧
      eD.accepts valX [(7, [0, 1])] = true ∧ eB.accepts valX [(7, [0, 1])] = false ∧
      elemRestr envX false 3 { eD with ty := 2 } eB = true := by decide

end XsVerif.Props.C14ElemType
