/-
  C03 — attribute sets are validated per declared uses, value constraints and wildcards.
  ONLY the specification, the property theorems (+ the lemmas that mention the specification)
  and non-vacuity examples live here.  Model: XsVerif/Model/Attributes.lean.
-/
import XsVerif.Model.Attributes
import XsVerif.Lemmas.Attributes

namespace XsVerif.Props.C03
open XsVerif.Wildcard XsVerif.Attributes

/-! ## Specification (S) -/
/-- value valid for the declared type and equal in value space to any fixed value -/
def DeclOk (s : Sem) (d : Decl) (v : String) : Prop :=
  s.validT d.ty v = true ∧ ∀ f, d.fixed = some f → s.valueEq d.ty v f = true

/-- `d` is a live attribute use of the group for the name `n`. -/
def Uses (G : Group) (n : QN) (d : Decl) : Prop := d ∈ G.decls ∧ d.name = n ∧ d.use ≠ .prohibited

/-- processContents clause -/
def PcOk (s : Sem) (env : Env) (pc : PC) (n : QN) (v : String) : Prop :=
  match pc with
  | .skip => True
  | .lax => n.ns ∈ env.loaded → ∀ g ∈ env.globals, g.name = n → DeclOk s g v
  | .strict => n.ns ∈ env.loaded ∧ ∃ g ∈ env.globals, g.name = n ∧ DeclOk s g v

def WildOk (s : Sem) (env : Env) (G : Group) (n : QN) (v : String) : Prop :=
  ∃ a, G.any = some a ∧ anyMatches env a n = true ∧ PcOk s env a.pc n v

theorem anyErrs_nil_iff (s : Sem) (hrefl : ∀ t x, s.valueEq t x x = true) (env : Env)
    (hg : (env.globals.map (·.name)).Nodup) (a : AnyAttr) (n : QN) (v : String) :
    anyErrs s env a n v = [] ↔ (anyMatches env a n = true ∧ PcOk s env a.pc n v) := by
  unfold anyErrs PcOk
  simp only [List.append_eq_nil_iff]
  have hdo := declErrs_nil_iff s hrefl
  cases hm : anyMatches env a n
  · simp
  · simp only [if_true, true_and]
    cases hpc : a.pc
    · -- strict
      simp only [show (PC.strict == PC.skip) = false from rfl, show (PC.strict == PC.strict) = true from rfl]
      by_cases hl : n.ns ∈ env.loaded
      · have : env.loaded.contains n.ns = true := by simpa using hl
        simp only [this, if_true, hl, true_and]
        cases hlk : lookup env.globals n with
        | none =>
          simp only [Bool.false_eq_true, if_false, if_true]
          have := lookup_none_iff.mp hlk
          constructor
          · intro h; cases h
          · rintro ⟨g, hg1, hg2, -⟩; exact absurd hg2 (this g hg1)
        | some g =>
          obtain ⟨hg1, hg2⟩ := lookup_some_mem hlk
          simp only [Bool.false_eq_true, if_false]
          rw [hdo]
          constructor
          · intro h; exact ⟨g, hg1, hg2, h⟩
          · rintro ⟨g', hg1', hg2', h⟩
            have e1 := lookup_of_nodup hg hg1'
            rw [hg2', hlk] at e1
            cases e1; exact h
      · have : env.loaded.contains n.ns = false := by simpa using hl
        simp [this, hl]
    · -- lax
      simp only [show (PC.lax == PC.skip) = false from rfl, show (PC.lax == PC.strict) = false from rfl]
      by_cases hl : n.ns ∈ env.loaded
      · have : env.loaded.contains n.ns = true := by simpa using hl
        simp only [this, if_true, hl, true_imp_iff]
        cases hlk : lookup env.globals n with
        | none =>
          have := lookup_none_iff.mp hlk
          simp only [Bool.false_eq_true, if_false, true_iff]
          intro g hg1 hg2; exact absurd hg2 (this g hg1)
        | some g =>
          obtain ⟨hg1, hg2⟩ := lookup_some_mem hlk
          simp only [Bool.false_eq_true, if_false]
          rw [hdo]
          constructor
          · intro h g' hg1' hg2'
            have e1 := lookup_of_nodup hg hg1'
            rw [hg2', hlk] at e1
            cases e1; exact h
          · intro h; exact h g hg1 hg2
      · have : env.loaded.contains n.ns = false := by simpa using hl
        simp [this, hl]
    · simp

/-- the name is one of the always-available xsi attributes known to the maps -/
def XsiBuiltin (env : Env) (n : QN) : Prop := n.ns = xsiNs ∧ ∃ g ∈ env.globals, g.name = n

/-- S: one present attribute is acceptable. -/
def AttrOk (s : Sem) (env : Env) (G : Group) (n : QN) (v : String) : Prop :=
  (∃ d, Uses G n d ∧ DeclOk s d v) ∨
  ((¬ ∃ d, Uses G n d) ∧
    ((XsiBuiltin env n ∧ ∃ g ∈ env.globals, g.name = n ∧ DeclOk s g v) ∨
     (¬ XsiBuiltin env n ∧ WildOk s env G n v)))

/-- S: the attribute set `A` is valid for the group `G`. -/
def Ok (s : Sem) (env : Env) (G : Group) (A : List Attr) : Prop :=
  (∀ d ∈ G.decls, d.use = .required → ∃ v, (d.name, v) ∈ A) ∧
  ∀ a ∈ A, AttrOk s env G a.1 a.2

/-- schema-build guarantees: value constraints are valid for their type -/
def WF (s : Sem) (G : Group) : Prop :=
  ∀ d ∈ G.decls, (∀ f, d.fixed = some f → s.validT d.ty f = true) ∧
                 (∀ f, d.dflt = some f → s.validT d.ty f = true)

theorem missing_nil_iff (G : Group) (A : List Attr) :
    missing G A = [] ↔ ∀ d ∈ G.decls, d.use = .required → ∃ v, (d.name, v) ∈ A := by
  unfold missing
  simp only [List.map_eq_nil_iff, List.filter_eq_nil_iff, Bool.and_eq_true, beq_iff_eq,
    Bool.not_eq_true', not_and, Bool.not_eq_false, present_iff]

theorem mem_additional {o : Opts} {G : Group} {A : List Attr} {a : Attr} :
    a ∈ additional o G A ↔
      ∃ d ∈ G.decls, present A d.name = false ∧ constraintOf o d = some a.2 ∧ a.1 = d.name := by
  unfold additional
  simp only [List.mem_filterMap]
  constructor
  · rintro ⟨d, hd, h⟩
    cases hp : present A d.name <;> simp only [hp, if_true, if_false, Bool.false_eq_true] at h
    · cases hc : constraintOf o d with
      | none => simp [hc] at h
      | some v =>
        simp only [hc, Option.map_some, Option.some.injEq] at h
        subst h
        exact ⟨d, hd, hp, hc, rfl⟩
    · cases h
  · rintro ⟨d, hd, hp, hc, hn⟩
    refine ⟨d, hd, ?_⟩
    obtain ⟨n, v⟩ := a
    simp only at hc hn
    simp [hp, hc, hn]

theorem stepErrs_additional (s : Sem) (env : Env) (o : Opts) (G : Group) (A : List Attr)
    (hleg : o.legacy = false) (hwf : WF s G) (hnd : (G.decls.map (·.name)).Nodup)
    (a : Attr) (ha : a ∈ additional o G A) : stepErrs s env o G a = [] := by
  obtain ⟨d, hd, -, hc, hn⟩ := mem_additional.mp ha
  obtain ⟨n, v⟩ := a
  simp only at hc hn
  subst hn
  unfold stepErrs
  simp only [lookup_of_nodup hnd hd]
  unfold constraintOf at hc
  simp only [hleg, Bool.not_false, Bool.and_true] at hc
  cases hu : (d.use == Use.prohibited)
  · simp only [hu, Bool.false_eq_true, if_false] at hc
    unfold declaredErrs
    simp only [hu, Bool.false_eq_true, if_false]
    obtain ⟨w1, w2⟩ := hwf d hd
    unfold declErrs
    cases hf : d.fixed with
    | none =>
      simp only [hf] at hc
      cases hud : o.useDefaults <;> simp only [hud, if_true, if_false, Bool.false_eq_true] at hc
      · cases hc
      · simp [w2 v hc]
    | some f =>
      simp only [hf, Option.some.injEq] at hc
      subst hc
      simp [w1 f hf]
  · simp [hu] at hc

theorem uses_unique {G : Group} (hnd : (G.decls.map (·.name)).Nodup) {n : QN} {d : Decl}
    (hlk : lookup G.decls n = some d) {d' : Decl} (hu : Uses G n d') : d' = d := by
  obtain ⟨h1, h2, -⟩ := hu
  have := lookup_of_nodup hnd h1
  rw [h2, hlk] at this
  exact (Option.some.inj this).symm

theorem stepErrs_nil_iff (s : Sem) (hrefl : ∀ t x, s.valueEq t x x = true) (env : Env) (o : Opts)
    (G : Group) (hleg : o.legacy = false) (hnd : (G.decls.map (·.name)).Nodup)
    (hg : (env.globals.map (·.name)).Nodup) (hxsi : ∀ d ∈ G.decls, d.name.ns ≠ xsiNs)
    (a : Attr) : stepErrs s env o G a = [] ↔ AttrOk s env G a.1 a.2 := by
  obtain ⟨n, v⟩ := a
  simp only
  unfold stepErrs AttrOk
  simp only
  have hdo := declErrs_nil_iff s hrefl
  have hao := anyErrs_nil_iff s hrefl env hg
  cases hlk : lookup G.decls n with
  | some d =>
    obtain ⟨hd1, hd2⟩ := lookup_some_mem hlk
    simp only
    unfold declaredErrs
    by_cases hu : d.use = .prohibited
    · -- prohibited use: only the wildcard can admit the attribute
      have hno : ¬ ∃ d', Uses G n d' := by
        rintro ⟨d', hd'⟩
        have := uses_unique hnd hlk hd'
        subst this
        exact hd'.2.2 hu
      have hnx : ¬ XsiBuiltin env n := by
        rintro ⟨h, -⟩; exact hxsi d hd1 (hd2 ▸ h)
      simp only [hu, beq_self_eq_true, if_true, hleg, Bool.false_and, Bool.false_eq_true, if_false]
      have hsimp : ((∃ d', Uses G n d' ∧ DeclOk s d' v) ∨ (¬ ∃ d', Uses G n d') ∧
          ((XsiBuiltin env n ∧ ∃ g ∈ env.globals, g.name = n ∧ DeclOk s g v) ∨
           (¬ XsiBuiltin env n ∧ WildOk s env G n v))) ↔ WildOk s env G n v := by
        constructor
        · rintro (⟨d', h1, -⟩ | ⟨-, (⟨h, -⟩ | ⟨-, h⟩)⟩)
          · exact absurd ⟨d', h1⟩ hno
          · exact absurd h hnx
          · exact h
        · intro h; exact Or.inr ⟨hno, Or.inr ⟨hnx, h⟩⟩
      rw [hsimp]
      unfold WildOk
      cases hany : G.any with
      | none => simp
      | some w =>
        simp only [Option.some.injEq, exists_eq_left']
        cases hm : anyMatches env w n
        · simp
        · simp only [if_true]
          rw [hao, hm]; simp
    · have hb : (d.use == Use.prohibited) = false := by simpa using hu
      simp only [hb, Bool.false_eq_true, if_false]
      rw [hdo]
      constructor
      · intro h; exact Or.inl ⟨d, ⟨hd1, hd2, hu⟩, h⟩
      · rintro (⟨d', h1, h2⟩ | ⟨hno, -⟩)
        · have := uses_unique hnd hlk h1; subst this; exact h2
        · exact absurd ⟨d, hd1, hd2, hu⟩ hno
  | none =>
    have hnone := lookup_none_iff.mp hlk
    have hno : ¬ ∃ d', Uses G n d' := by
      rintro ⟨d', h1, h2, -⟩; exact hnone d' h1 h2
    simp only
    have hsimp : ∀ P Q : Prop, ((∃ d', Uses G n d' ∧ DeclOk s d' v) ∨ (¬ ∃ d', Uses G n d') ∧ (P ∨ Q)) ↔ (P ∨ Q) := by
      intro P Q
      constructor
      · rintro (⟨d', h1, -⟩ | ⟨-, h⟩)
        · exact absurd ⟨d', h1⟩ hno
        · exact h
      · intro h; exact Or.inr ⟨hno, h⟩
    rw [hsimp]
    have hwild : (match G.any with
        | some w => anyErrs s env w n v
        | none => [Err.notAllowed n]) = [] ↔ WildOk s env G n v := by
      unfold WildOk
      cases hany : G.any with
      | none => simp
      | some w => simp only [Option.some.injEq, exists_eq_left']; rw [hao]
    have hwild' : (match G.any with
        | some w => anyErrs s env w n v
        | none => [Err.notXsi n]) = [] ↔ WildOk s env G n v := by
      unfold WildOk
      cases hany : G.any with
      | none => simp
      | some w => simp only [Option.some.injEq, exists_eq_left']; rw [hao]
    by_cases hx : n.ns = xsiNs
    · simp only [hx, beq_self_eq_true, if_true]
      cases hgl : lookup env.globals n with
      | some g =>
        obtain ⟨hg1, hg2⟩ := lookup_some_mem hgl
        have hb : XsiBuiltin env n := ⟨hx, g, hg1, hg2⟩
        simp only
        rw [hdo]
        constructor
        · intro h; exact Or.inl ⟨hb, g, hg1, hg2, h⟩
        · rintro (⟨-, g', h1, h2, h3⟩ | ⟨h, -⟩)
          · have e1 := lookup_of_nodup hg h1
            rw [h2, hgl] at e1
            cases e1; exact h3
          · exact absurd hb h
      | none =>
        have hgn := lookup_none_iff.mp hgl
        have hb : ¬ XsiBuiltin env n := by
          rintro ⟨-, g, h1, h2⟩; exact hgn g h1 h2
        simp only
        refine hwild'.trans ?_
        constructor
        · intro h; exact Or.inr ⟨hb, h⟩
        · rintro (⟨h, -⟩ | ⟨-, h⟩)
          · exact absurd h hb
          · exact h
    · have hb : ¬ XsiBuiltin env n := fun h => hx h.1
      have hbe : (n.ns == xsiNs) = false := by simpa using hx
      simp only [hbe, Bool.false_eq_true, if_false]
      refine hwild.trans ?_
      constructor
      · intro h; exact Or.inr ⟨hb, h⟩
      · rintro (⟨h, -⟩ | ⟨-, h⟩)
        · exact absurd h hb
        · exact h

/-- **C03, validity clause.**  The decoder (current code, `legacy = false`) reports no error exactly when
    the attribute set is valid — for every group, including groups with `use="prohibited"` declarations. -/
theorem attrs_valid_iff (s : Sem) (env : Env) (o : Opts) (G : Group) (A : List Attr)
    (hleg : o.legacy = false) (hrefl : ∀ t x, s.valueEq t x x = true) (hwf : WF s G)
    (hnd : (G.decls.map (·.name)).Nodup) (hg : (env.globals.map (·.name)).Nodup)
    (hxsi : ∀ d ∈ G.decls, d.name.ns ≠ xsiNs) :
    errors s env o G A = [] ↔ Ok s env G A := by
  unfold errors Ok augmented
  simp only [List.append_eq_nil_iff, List.flatMap_eq_nil_iff, List.mem_append]
  rw [missing_nil_iff]
  constructor
  · rintro ⟨h1, h2⟩
    exact ⟨h1, fun a ha => (stepErrs_nil_iff s hrefl env o G hleg hnd hg hxsi a).mp (h2 a (Or.inl ha))⟩
  · rintro ⟨h1, h2⟩
    refine ⟨h1, fun a ha => ?_⟩
    rcases ha with ha | ha
    · exact (stepErrs_nil_iff s hrefl env o G hleg hnd hg hxsi a).mpr (h2 a ha)
    · exact stepErrs_additional s env o G A hleg hwf hnd a ha



/-! ## Decoded data: absent attributes -/

/-- S: what decoded data must say about a name `n` that does not occur in the element. -/
def AbsentOut (o : Opts) (G : Group) (n : QN) (s : Src) : Prop :=
  ∃ d ∈ G.decls, d.name = n ∧
    ((d.use ≠ .prohibited ∧ ∃ f, d.fixed = some f ∧ s = .typed d.ty f) ∨
     (d.use ≠ .prohibited ∧ d.fixed = none ∧ o.useDefaults = true ∧ ∃ f, d.dflt = some f ∧ s = .typed d.ty f) ∨
     (o.fillMissing = true ∧ s = .nil ∧
        (d.use = .prohibited ∨ (d.fixed = none ∧ (o.useDefaults = false ∨ d.dflt = none)))))

theorem anyItem_name {env : Env} {w : AnyAttr} {n : QN} {v : String} {it : Item}
    (h : anyItem env w n v = some it) : it.1 = n := by
  unfold anyItem at h
  split at h
  · cases h
  · split at h
    · split at h <;> (cases h; rfl)
    · cases h; rfl

theorem stepItem_name {env : Env} {o : Opts} {G : Group} {a : Attr} {it : Item}
    (h : stepItem env o G a = some it) : it.1 = a.1 := by
  unfold stepItem at h
  split at h
  · unfold declaredItem at h
    split at h
    · split at h
      · split at h
        · exact anyItem_name h
        · cases h; rfl
      · cases h; rfl
    · cases h; rfl
  · split at h
    · split at h
      · cases h; rfl
      · split at h
        · exact anyItem_name h
        · cases h
    · split at h
      · exact anyItem_name h
      · cases h

theorem constraintOf_none_iff (o : Opts) (hleg : o.legacy = false) (d : Decl) :
    constraintOf o d = none ↔
      (d.use = .prohibited ∨ (d.fixed = none ∧ (o.useDefaults = false ∨ d.dflt = none))) := by
  unfold constraintOf
  by_cases hu : d.use = .prohibited
  · simp [hu, hleg]
  · have hb : (d.use == Use.prohibited) = false := by simpa using hu
    simp only [hb, Bool.false_and, Bool.false_eq_true, if_false, hu, false_or]
    cases hf : d.fixed with
    | some f => simp
    | none => cases hud : o.useDefaults <;> simp

theorem constraintOf_some_iff (o : Opts) (hleg : o.legacy = false) (d : Decl) (v : String) :
    constraintOf o d = some v ↔
      (d.use ≠ .prohibited ∧ (d.fixed = some v ∨ (d.fixed = none ∧ o.useDefaults = true ∧ d.dflt = some v))) := by
  unfold constraintOf
  by_cases hu : d.use = .prohibited
  · simp [hu, hleg]
  · have hb : (d.use == Use.prohibited) = false := by simpa using hu
    simp only [hb, Bool.false_and, Bool.false_eq_true, if_false, hu, ne_eq, not_false_eq_true, true_and]
    cases hf : d.fixed with
    | some f => simp
    | none => cases hud : o.useDefaults <;> simp

theorem stepItem_additional (env : Env) (o : Opts) (G : Group) (hleg : o.legacy = false)
    (hnd : (G.decls.map (·.name)).Nodup) (d : Decl) (hd : d ∈ G.decls) (v : String)
    (hc : constraintOf o d = some v) : stepItem env o G (d.name, v) = some (d.name, .typed d.ty v) := by
  have hu := ((constraintOf_some_iff o hleg d v).mp hc).1
  have hb : (d.use == Use.prohibited) = false := by simpa using hu
  unfold stepItem
  simp only [lookup_of_nodup hnd hd]
  unfold declaredItem
  simp [hb]

theorem present_additional_iff (o : Opts) (G : Group) (A : List Attr)
    (hnd : (G.decls.map (·.name)).Nodup) (d : Decl) (hd : d ∈ G.decls) (hp : present A d.name = false) :
    present (additional o G A) d.name = true ↔ constraintOf o d ≠ none := by
  rw [present_iff]
  constructor
  · rintro ⟨v, hv⟩
    obtain ⟨d', hd', -, hc, hn⟩ := mem_additional.mp hv
    simp only at hc hn
    have e1 := lookup_of_nodup hnd hd'
    have e2 := lookup_of_nodup hnd hd
    rw [← hn, e2] at e1
    cases e1
    simp [hc]
  · intro h
    cases hc : constraintOf o d with
    | none => exact absurd hc h
    | some v => exact ⟨v, mem_additional.mpr ⟨d, hd, hp, hc, rfl⟩⟩

theorem present_append (A B : List Attr) (n : QN) : present (A ++ B) n = (present A n || present B n) := by
  unfold present; simp

/-- **C03, decoded-data clause.**  For a name that does not occur in the element, the decoded list
    contains exactly: the fixed value of a (non-prohibited) declaration; its default value when
    `use_defaults` is on; `None` for every other declared name when `fill_missing` is requested —
    and nothing else. -/
theorem decoded_absent_iff (env : Env) (o : Opts) (G : Group) (A : List Attr)
    (hleg : o.legacy = false) (hnd : (G.decls.map (·.name)).Nodup)
    (n : QN) (habs : ∀ v, (n, v) ∉ A) (s : Src) :
    (n, s) ∈ decoded env o G A ↔ AbsentOut o G n s := by
  have hpn : present A n = false := present_false_iff.mpr habs
  unfold decoded augmented AbsentOut
  simp only [List.mem_append, List.mem_filterMap]
  constructor
  · rintro (⟨a, (ha | ha), hst⟩ | hf)
    · -- an attribute of the element cannot produce an item for an absent name
      have := stepItem_name hst
      simp only at this
      obtain ⟨m, v⟩ := a
      simp only at this
      subst this
      exact absurd ha (habs v)
    · obtain ⟨d, hd, -, hc, hn⟩ := mem_additional.mp ha
      obtain ⟨m, v⟩ := a
      simp only at hc hn
      subst hn
      rw [stepItem_additional env o G hleg hnd d hd v hc] at hst
      simp only [Option.some.injEq, Prod.mk.injEq] at hst
      obtain ⟨h1, h2⟩ := hst
      obtain ⟨hu, hv⟩ := (constraintOf_some_iff o hleg d v).mp hc
      refine ⟨d, hd, h1, ?_⟩
      rcases hv with hv | ⟨hv1, hv2, hv3⟩
      · exact Or.inl ⟨hu, v, hv, h2.symm⟩
      · exact Or.inr (Or.inl ⟨hu, hv1, hv2, v, hv3, h2.symm⟩)
    · unfold filled at hf
      cases hfm : o.fillMissing
      · simp [hfm] at hf
      · simp only [hfm, if_true, List.mem_map, List.mem_filter] at hf
        obtain ⟨d, ⟨hd, hp⟩, he⟩ := hf
        simp only [Prod.mk.injEq] at he
        obtain ⟨h1, h2⟩ := he
        refine ⟨d, hd, h1, Or.inr (Or.inr ⟨rfl, h2.symm, ?_⟩)⟩
        unfold augmented at hp
        rw [present_append] at hp
        simp only [Bool.not_eq_true', Bool.or_eq_false_iff] at hp
        have hnone : constraintOf o d = none := by
          cases hc : constraintOf o d with
          | none => rfl
          | some v =>
            have := (present_additional_iff o G A hnd d hd hp.1).mpr (by simp [hc])
            rw [hp.2] at this; cases this
        exact (constraintOf_none_iff o hleg d).mp hnone
  · rintro ⟨d, hd, hn, h⟩
    subst hn
    rcases h with ⟨hu, f, hf, hs⟩ | ⟨hu, hf, hud, f, hdf, hs⟩ | ⟨hfm, hs, hc⟩
    · have hc : constraintOf o d = some f := (constraintOf_some_iff o hleg d f).mpr ⟨hu, Or.inl hf⟩
      refine Or.inl ⟨(d.name, f), Or.inr (mem_additional.mpr ⟨d, hd, hpn, hc, rfl⟩), ?_⟩
      rw [stepItem_additional env o G hleg hnd d hd f hc, hs]
    · have hc : constraintOf o d = some f :=
        (constraintOf_some_iff o hleg d f).mpr ⟨hu, Or.inr ⟨hf, hud, hdf⟩⟩
      refine Or.inl ⟨(d.name, f), Or.inr (mem_additional.mpr ⟨d, hd, hpn, hc, rfl⟩), ?_⟩
      rw [stepItem_additional env o G hleg hnd d hd f hc, hs]
    · have hnone := (constraintOf_none_iff o hleg d).mpr hc
      refine Or.inr ?_
      unfold filled
      simp only [hfm, if_true, List.mem_map, List.mem_filter]
      refine ⟨d, ⟨hd, ?_⟩, by rw [hs]⟩
      unfold augmented
      rw [present_append, hpn]
      simp only [Bool.false_or, Bool.not_eq_true']
      cases hpa : present (additional o G A) d.name
      · rfl
      · exact absurd hnone ((present_additional_iff o G A hnd d hd hpn).mp hpa)



/-! ## The step as it was before fix 9474062 (`legacy = true`, finding C03-F1 — fixed)

  The current code satisfies the unconditional statement `attrs_valid_iff` (no guard on prohibited
  declarations).  The pre-fix behaviour survives only in the two counter-example theorems below, which
  are about the old step of the model (`Opts.legacy = true`), not about /repo. -/

/-- plain string semantics used by the concrete witnesses: every lexical form valid, value
    equality = string equality -/
def semStr : Sem := { validT := fun _ _ => true, valueEq := fun _ a b => a == b }

def qa : QN := ⟨"", "a"⟩
/-- `<xs:attribute name="a" type="xs:int" use="prohibited" fixed="3"/>`, no wildcard -/
def gProhibitedFixed : Group :=
  { decls := [{ name := qa, use := .prohibited, fixed := some "3", ty := 0 }], any := none }
def envEmpty : Env := { globals := [], loaded := [] }

/-- C03-F1 (fixed), witness 1: the OLD step reported no error for `<e a="3"/>` although the attribute
    set is not valid (the only declaration of `a` is prohibited and there is no wildcard); the current
    step reports "prohibited". -/
theorem oldstep_admits_counterexample :
    errors semStr envEmpty { legacy := true } gProhibitedFixed [(qa, "3")] = [] ∧
    ¬ Ok semStr envEmpty gProhibitedFixed [(qa, "3")] ∧
    errors semStr envEmpty { legacy := false } gProhibitedFixed [(qa, "3")] = [.prohibited qa] := by
  refine ⟨by decide, ?_, by decide⟩
  rintro ⟨-, h⟩
  have h := h (qa, "3") (by simp)
  rcases h with ⟨d, ⟨hd, -, hu⟩, -⟩ | ⟨-, (⟨⟨hx, -⟩, -⟩ | ⟨-, a, ha, -⟩)⟩
  · simp only [gProhibitedFixed, List.mem_singleton] at hd
    subst hd
    exact hu rfl
  · exact absurd hx (by decide)
  · simp [gProhibitedFixed] at ha

/-- C03-F1 (fixed), witness 2: for `<e/>` the OLD step injected the fixed value of the prohibited
    declaration into the decoded data; the current one reports nothing. -/
theorem oldstep_injects_counterexample :
    decoded envEmpty { legacy := true } gProhibitedFixed [] = [(qa, .typed 0 "3")] ∧
    decoded envEmpty { legacy := false } gProhibitedFixed [] = [] := by
  constructor <;> decide




/-! ## Located errors -/

theorem declErrs_no_missing (s : Sem) (d : Decl) (n m : QN) (v : String) :
    Err.missing m ∉ declErrs s d n v := by
  unfold declErrs
  cases d.fixed <;> simp <;> (repeat' split) <;> simp

theorem anyErrs_no_missing (s : Sem) (env : Env) (a : AnyAttr) (n m : QN) (v : String) :
    Err.missing m ∉ anyErrs s env a n v := by
  unfold anyErrs
  have := declErrs_no_missing s
  simp only [List.mem_append, not_or]
  constructor
  · split <;> simp
  · (repeat' split) <;> simp [*]

theorem stepErrs_no_missing (s : Sem) (env : Env) (o : Opts) (G : Group) (a : Attr) (m : QN) :
    Err.missing m ∉ stepErrs s env o G a := by
  have h1 := declErrs_no_missing s
  have h2 := anyErrs_no_missing s env
  unfold stepErrs declaredErrs
  (repeat' split) <;> simp [*]

/-- **C03, required attributes.**  A "missing required attribute" error for `n` is reported exactly
    when a declaration with `use="required"` names `n` and the element does not carry it. -/
theorem required_error_located (s : Sem) (env : Env) (o : Opts) (G : Group) (A : List Attr) (n : QN) :
    Err.missing n ∈ errors s env o G A ↔
      ∃ d ∈ G.decls, d.name = n ∧ d.use = .required ∧ ∀ v, (n, v) ∉ A := by
  unfold errors
  simp only [List.mem_append, List.mem_flatMap]
  constructor
  · rintro (h | ⟨a, -, h⟩)
    · unfold missing at h
      simp only [List.mem_map, List.mem_filter, Bool.and_eq_true, beq_iff_eq, Bool.not_eq_true',
        Err.missing.injEq] at h
      obtain ⟨d, ⟨hd, hu, hp⟩, hn⟩ := h
      subst hn
      exact ⟨d, hd, rfl, hu, present_false_iff.mp hp⟩
    · exact absurd h (stepErrs_no_missing s env o G a n)
  · rintro ⟨d, hd, hn, hu, hab⟩
    left
    unfold missing
    simp only [List.mem_map, List.mem_filter, Bool.and_eq_true, beq_iff_eq, Bool.not_eq_true',
      Err.missing.injEq]
    exact ⟨d, ⟨hd, hu, hn ▸ present_false_iff.mpr hab⟩, hn⟩

/-- **C03, "no other attribute occurs".**  An attribute of the element that is neither named by a
    declaration of the group nor in the xsi namespace, in a group without wildcard, is reported as
    not allowed. -/
theorem unknown_attr_error (s : Sem) (env : Env) (o : Opts) (G : Group) (A : List Attr) (n : QN)
    (v : String) (ha : (n, v) ∈ A) (hno : ∀ d ∈ G.decls, d.name ≠ n) (hw : G.any = none)
    (hx : n.ns ≠ xsiNs) : Err.notAllowed n ∈ errors s env o G A := by
  unfold errors augmented
  simp only [List.mem_append, List.mem_flatMap]
  refine Or.inr ⟨(n, v), Or.inl ha, ?_⟩
  unfold stepErrs
  have hb : (n.ns == xsiNs) = false := by simpa using hx
  simp [lookup_none_iff.mpr hno, hb, hw]

/-! ## Corollaries of `decoded_absent_iff`, one per sentence of the property -/

/-- An absent attribute that declares a fixed value is reported with that value. -/
theorem absent_fixed_reported (env : Env) (o : Opts) (G : Group) (A : List Attr)
    (hleg : o.legacy = false) (hnd : (G.decls.map (·.name)).Nodup)
    (d : Decl) (hd : d ∈ G.decls) (hu : d.use ≠ .prohibited) (f : String) (hf : d.fixed = some f)
    (habs : ∀ v, (d.name, v) ∉ A) : (d.name, Src.typed d.ty f) ∈ decoded env o G A :=
  (decoded_absent_iff env o G A hleg hnd d.name habs _).mpr ⟨d, hd, rfl, Or.inl ⟨hu, f, hf, rfl⟩⟩

/-- An absent attribute that declares a default is reported (with some value) exactly when default
    filling or filling of missing attributes is enabled, and with its default value exactly when
    default filling is enabled. -/
theorem absent_default_iff (env : Env) (o : Opts) (G : Group) (A : List Attr)
    (hleg : o.legacy = false) (hnd : (G.decls.map (·.name)).Nodup)
    (d : Decl) (hd : d ∈ G.decls) (hu : d.use ≠ .prohibited) (hf : d.fixed = none)
    (f : String) (hdf : d.dflt = some f) (habs : ∀ v, (d.name, v) ∉ A) :
    ((d.name, Src.typed d.ty f) ∈ decoded env o G A ↔ o.useDefaults = true) := by
  rw [decoded_absent_iff env o G A hleg hnd d.name habs]
  constructor
  · rintro ⟨d', hd', hn, h⟩
    have e1 := lookup_of_nodup hnd hd'
    rw [hn, lookup_of_nodup hnd hd] at e1
    cases e1
    rcases h with ⟨-, f', hf', -⟩ | ⟨-, -, hud, -⟩ | ⟨-, hs, -⟩
    · rw [hf] at hf'; cases hf'
    · exact hud
    · cases hs
  · intro hud
    exact ⟨d, hd, rfl, Or.inr (Or.inl ⟨hu, hf, hud, f, hdf, rfl⟩)⟩

/-- No other absent attribute appears unless filling of missing attributes is requested. -/
theorem absent_silent (env : Env) (o : Opts) (G : Group) (A : List Attr)
    (hleg : o.legacy = false) (hnd : (G.decls.map (·.name)).Nodup) (hfm : o.fillMissing = false)
    (n : QN) (habs : ∀ v, (n, v) ∉ A) (s : Src) (h : (n, s) ∈ decoded env o G A) :
    ∃ d ∈ G.decls, d.name = n ∧ d.use ≠ .prohibited ∧
      ((∃ f, d.fixed = some f ∧ s = .typed d.ty f) ∨
       (d.fixed = none ∧ o.useDefaults = true ∧ ∃ f, d.dflt = some f ∧ s = .typed d.ty f)) := by
  obtain ⟨d, hd, hn, h⟩ := (decoded_absent_iff env o G A hleg hnd n habs s).mp h
  rcases h with ⟨hu, h⟩ | ⟨hu, h⟩ | ⟨h, -⟩
  · exact ⟨d, hd, hn, hu, Or.inl h⟩
  · exact ⟨d, hd, hn, hu, Or.inr h⟩
  · rw [hfm] at h; cases h



/-! ## Non-vacuity: a concrete group meeting every hypothesis, with valid and invalid sets -/

namespace Demo
def tns : String := "urn:t"
def qb : QN := ⟨"", "b"⟩
def qq : QN := ⟨tns, "q"⟩
def qg : QN := ⟨"urn:f", "g"⟩
def qz : QN := ⟨"urn:u", "z"⟩
/-- type 0 = "int": valid iff not "x"; "3" and "03" are the same value -/
def sem : Sem :=
  { validT := fun _ v => v != "x"
    valueEq := fun _ a b => a == b || (a == "03" && b == "3") || (a == "3" && b == "03") }
def G : Group :=
  { decls := [ { name := qa, use := .prohibited, ty := 0 },
               { name := qb, use := .required, ty := 0 },
               { name := qq, fixed := some "3", ty := 0 },
               { name := ⟨"", "c"⟩, dflt := some "4", ty := 0 } ],
    any := some { wc := { ns := .other, tns := tns }, pc := .lax } }
def env : Env := { globals := [{ name := qg, ty := 0 }], loaded := [tns, "urn:f"] }

theorem sem_refl : ∀ t x, sem.valueEq t x x = true := by intro t x; simp [sem]
theorem wf : WF sem G := by
  intro d hd
  simp only [G, List.mem_cons, List.not_mem_nil, or_false] at hd
  rcases hd with rfl | rfl | rfl | rfl <;> simp [sem]
theorem nd : (G.decls.map (·.name)).Nodup := by decide
theorem gnd : (env.globals.map (·.name)).Nodup := by decide
theorem noxsi : ∀ d ∈ G.decls, d.name.ns ≠ xsiNs := by decide

/-- a valid set: required present, fixed value in another lexical form, foreign attribute with a
    global declaration, unknown-namespace attribute under lax -/
example : errors sem env {} G [(qb, "1"), (qq, "03"), (qg, "5"), (qz, "x")] = [] := by decide
example : Ok sem env G [(qb, "1"), (qq, "03"), (qg, "5"), (qz, "x")] :=
  (attrs_valid_iff sem env {} G _ rfl sem_refl wf nd gnd noxsi).mp (by decide)
/-- invalid sets: each clause of the property fails in turn -/
example : errors sem env {} G [] = [.missing qb] := by decide
example : errors sem env {} G [(qb, "1"), (qq, "4")] = [.fixedMismatch qq] := by decide
example : errors sem env {} G [(qb, "x")] = [.invalidValue qb] := by decide
example : errors sem env {} G [(qb, "1"), (qa, "1")] = [.prohibited qa] := by decide
example : errors sem env {} G [(qb, "1"), (⟨tns, "zz"⟩, "1")] = [.wildcardDenied ⟨tns, "zz"⟩] := by decide
example : errors sem env {} G [(qb, "1"), (qg, "x")] = [.invalidValue qg] := by decide
example : ¬ Ok sem env G [(qb, "1"), (qg, "x")] := fun h =>
  absurd ((attrs_valid_iff sem env {} G _ rfl sem_refl wf nd gnd noxsi).mpr h) (by decide)
/-- decoded data of `<e b="1"/>`: fixed injected, default injected iff use_defaults, fillers on request -/
example : decoded env {} G [(qb, "1")] =
    [(qb, .typed 0 "1"), (qq, .typed 0 "3"), (⟨"", "c"⟩, .typed 0 "4")] := by decide
example : decoded env { useDefaults := false } G [(qb, "1")] = [(qb, .typed 0 "1"), (qq, .typed 0 "3")] := by
  decide
example : decoded env { useDefaults := false, fillMissing := true } G [(qb, "1")] =
    [(qb, .typed 0 "1"), (qq, .typed 0 "3"), (qa, .nil), (⟨"", "c"⟩, .nil)] := by decide
example : AbsentOut {} G qq (.typed 0 "3") :=
  (decoded_absent_iff env {} G [(qb, "1")] rfl nd qq (by intro v h; simp [qq, qb] at h) _).mp (by decide)
end Demo


end XsVerif.Props.C03
