/-
  C04 — all validation entry points and modes agree on one verdict.
  ONLY property theorems and non-vacuity examples live here.

  English property (properties.jsonl):
    is_valid() is true exactly when iter_errors() yields nothing, validate() does not raise,
    strict decoding does not raise, lax decoding returns an empty error list and the validate
    command exits with status 0; strict mode raises precisely the first error that lax mode
    collects.  The verdict and the decoded data of a valid document do not depend on the
    validation mode […].

  Reading.  `sv` is the script of `iter_errors`, `sd` the script of `iter_decode` for the same
  schema and document (Model/Modes.lean).  S (the specification) is the mode-oblivious reading of
  a script: `events s` (the error events in call order) and `results s`.  A document is valid
  iff `events sv = []`.  The theorems say that every wrapper computes exactly that reading:
  unbounded in the number of errors, chunks, and data items.
  Source-kind independence and the equality `events sv = events sd` (the descent emits the same
  events whoever calls it) are established by execution in the correspondence run, not here.
-/
import XsVerif.Model.Modes
import XsVerif.Lemmas.Modes
import XsVerif.Model.AttrDefaults
import XsVerif.Lemmas.AttrDefaults
import XsVerif.Model.NsLeak
import XsVerif.Model.CharData
import XsVerif.Lemmas.NsStack

namespace XsVerif.Props.C04
open XsVerif.Modes
variable {D : Type}

/-! ### the two modes that must never raise -/

/-- lax mode never raises, whatever the script: the generator ends normally and `decode` returns. -/
theorem lax_never_raises (s : List (Step D)) :
    (iterDecode .lax s).raised = none ∧ ∃ r, decode .lax s = .ok r := by
  refine ⟨gen_lax_raised s [], ?_⟩
  simp [decode, decodeLoop_lax, gen_lax_raised]

/-- skip mode never raises and returns no error list. -/
theorem skip_never_raises (s : List (Step D)) :
    (iterDecode .skip s).raised = none ∧ decode .skip s = .ok (shape (results s), []) := by
  refine ⟨gen_skip_raised s [], ?_⟩
  simp [decode, decodeLoop_skip, gen_skip_raised, gen_skip_data]

example : decode .skip [Step.collect 7, .flush, .result "d", .direct 9 true] = .ok (.one "d", []) := by
  decide

/-- what `iter_decode(validation='skip')` yields: every result, and of the errors only those that the
    generator itself yields (missing element); nothing that went through `context.errors`. -/
theorem skip_yields_spec (s : List (Step D)) :
    errsOf (iterDecode .skip s).items = skipDirects s ∧ dataOf (iterDecode .skip s).items = results s := by
  refine ⟨?_, gen_skip_data s []⟩
  unfold iterDecode
  induction s with
  | nil => rfl
  | cons st k ih =>
    cases st with
    | direct e sk => cases sk <;> simp [gen, skipDirects, errsOf, ih]
    | _ => simp [gen, skipDirects, errsOf, ih]

example : (iterDecode .skip [Step.collect 1, .flush, .direct 2 true, .direct 3 false, .result "d"]).items
    = [.err 2, .data "d"] := by decide

/-! ### validation API -/

/-- `iter_errors` yields exactly the error events of the run, in call order. -/
theorem iterErrors_spec (sv : List (Step D)) (h : wf sv false = true) : iterErrors sv = events sv := by
  simpa [iterErrors] using gen_lax_errs sv false [] h (by simp)

theorem items_of_no_data (l : List (Item D)) (h : dataOf l = []) : l = (errsOf l).map .err := by
  induction l with
  | nil => rfl
  | cons i k ih => cases i <;> simp [dataOf] at h <;> simp [errsOf]; exact ih h

/-- `is_valid` never raises and is true exactly when `iter_errors` yields nothing
    (`hv`: the validation generator never yields data — schemas.py:1369-1374). -/
theorem isValid_iff (sv : List (Step D)) (hv : results sv = []) :
    isValid sv = .ok (iterErrors sv).isEmpty ∧ (isValid sv = .ok true ↔ iterErrors sv = []) := by
  have hr := gen_lax_raised sv []
  have hd := gen_lax_data sv []
  rw [hv] at hd
  have key : isValid sv = .ok (iterErrors sv).isEmpty := by
    unfold isValid next? iterErrors
    rw [items_of_no_data _ hd]
    cases errsOf (gen .lax sv []).items <;> simp [hr, errsOf]
  refine ⟨key, ?_⟩
  rw [key]
  cases iterErrors sv <;> simp

example : isValid ([Step.collect 3, .collect 4, .flush, .direct 5 true] : List (Step Nat)) = .ok false := by decide
example : isValid ([Step.flush] : List (Step Nat)) = .ok true := by decide

/-- what `validate` does, for every script: it raises the first error event, or returns. -/
theorem validate_spec (sv : List (Step D)) :
    validate sv = match events sv with
      | [] => .ok ()
      | e :: _ => .raise e := by
  obtain ⟨h0, h1⟩ := gen_strict sv
  unfold validate raiseFirst
  cases he : events sv with
  | nil => obtain ⟨a, b, _⟩ := h0 he; simp [a, b]
  | cons e r => obtain ⟨a, b⟩ := h1 e r he; simp [a, b]

/-- `validate` does not raise exactly when `iter_errors` yields nothing. -/
theorem validate_ok_iff (sv : List (Step D)) (h : wf sv false = true) :
    validate sv = .ok () ↔ iterErrors sv = [] := by
  rw [validate_spec, iterErrors_spec sv h]
  cases events sv <;> simp

/-- strict mode raises precisely the first error that lax mode collects. -/
theorem validate_raises_first (sv : List (Step D)) (h : wf sv false = true) (e : Err) :
    validate sv = .raise e ↔ (iterErrors sv).head? = some e := by
  rw [validate_spec, iterErrors_spec sv h]
  cases events sv <;> simp

example : wf ([Step.collect 3, .collect 4, .flush, .direct 5 true] : List (Step Nat)) false = true ∧
    validate ([Step.collect 3, .collect 4, .flush, .direct 5 true] : List (Step Nat)) = .raise 3 := by decide

/-- The discipline `wf` is needed: a generator that yielded a direct error while collected errors
    are pending would report a different first error in lax mode than the one strict mode raises.
    (No generator of the code does this; the harness checks `wf` on every recorded script.) -/
theorem validate_raises_first_needs_wf :
    validate ([Step.collect 1, .direct 2 true, .flush] : List (Step Nat)) = .raise 1 ∧
    (iterErrors ([Step.collect 1, .direct 2 true, .flush] : List (Step Nat))).head? = some 2 := by decide

/-! ### decoding API -/

theorem decode_lax_spec (sd : List (Step D)) (h : wf sd false = true) :
    decode .lax sd = .ok (shape (results sd), events sd) := by
  have := gen_lax_errs sd false [] h (by simp)
  simp [decode, decodeLoop_lax, gen_lax_raised, gen_lax_data, this]

theorem decode_strict_spec (sd : List (Step D)) :
    decode .strict sd = match events sd with
      | [] => .ok (shape (results sd), [])
      | e :: _ => .raise e := by
  obtain ⟨h0, h1⟩ := gen_strict sd
  unfold decode
  cases he : events sd with
  | nil =>
    obtain ⟨a, b, c⟩ := h0 he
    simp [decodeLoop_strict_noerr _ _ _ b, a, c]
  | cons e r =>
    obtain ⟨a, b⟩ := h1 e r he
    simp [decodeLoop_strict_noerr _ _ _ b, a]

/-- strict decoding raises precisely the first error of the list that lax decoding returns. -/
theorem decode_strict_raises_first_lax (sd : List (Step D)) (h : wf sd false = true) (e : Err) :
    decode .strict sd = .raise e ↔ ∃ d es, decode .lax sd = .ok (d, es) ∧ es.head? = some e := by
  rw [decode_strict_spec, decode_lax_spec sd h]
  cases events sd with
  | nil => simp
  | cons a r =>
    constructor
    · intro h; cases h; exact ⟨_, _, rfl, rfl⟩
    · rintro ⟨d, es, h1, h2⟩; cases h1; simp at h2; simp [h2]

/-- strict decoding does not raise exactly when lax decoding returns an empty error list. -/
theorem decode_strict_ok_iff_lax_empty (sd : List (Step D)) (h : wf sd false = true) :
    (∃ r, decode .strict sd = .ok r) ↔ ∃ d, decode .lax sd = .ok (d, []) := by
  rw [decode_strict_spec, decode_lax_spec sd h]
  cases events sd <;> simp

/-- the decoded data of a valid document do not depend on the validation mode. -/
theorem decode_valid_mode_independent (sd : List (Step D)) (h : wf sd false = true) (d : Shape D)
    (hl : decode .lax sd = .ok (d, [])) :
    decode .strict sd = .ok (d, []) ∧ decode .skip sd = .ok (d, []) := by
  rw [decode_lax_spec sd h] at hl
  rw [decode_strict_spec, (skip_never_raises sd).2]
  cases he : events sd <;> simp_all

example : wf [Step.flush, .result "x", .direct 1 true] false = true := by decide
example : decode .lax [Step.collect 1, .collect 2, .flush, .result "x"] = .ok (.one "x", [1, 2]) := by
  decide

/-! ### command line -/

theorem sum_eq_zero_iff (l : List Nat) : l.sum = 0 ↔ ∀ n ∈ l, n = 0 := by
  induction l with
  | nil => simp
  | cons a k ih => simp [ih]

/-- the status seen by the caller is the saturated total (no wrap-around) … -/
theorem cli_exit_eq (fs : List FileRes) : cliExit fs = min (totErrors fs) 255 := by
  unfold cliExit cliCode osStatus; omega

/-- … hence it is 0 exactly when every file was read and has no error: for every number of files
    and every error count (including totals that are multiples of 256). -/
theorem cli_exit_zero_iff (fs : List FileRes) : cliExit fs = 0 ↔ ∀ f ∈ fs, f = .errors 0 := by
  rw [cli_exit_eq]
  have : min (totErrors fs) 255 = 0 ↔ totErrors fs = 0 := by omega
  rw [this, totErrors, sum_eq_zero_iff]
  constructor
  · intro h f hf
    have := h f.count (List.mem_map.mpr ⟨f, hf, rfl⟩)
    cases f <;> simp_all [FileRes.count]
  · intro h n hn
    obtain ⟨f, hf, rfl⟩ := List.mem_map.mp hn
    rw [h f hf]; rfl

example : cliExit [.errors 256] = 255 ∧ cliExit [.errors 128, .errors 128] = 255 ∧
    cliExit [.errors 0, .libError] = 1 ∧ cliExit [.errors 0, .errors 0] = 0 := by decide

/-- the exit code used before commit 6c4f37d (`sys.exit(tot_errors)`) reported success for 256
    errors; kept as the record of the repaired defect C04-F1. -/
theorem cli_unsaturated_counterexample :
    osStatus (cliCodeUnsaturated [.errors 256]) = 0 ∧ osStatus (cliCodeUnsaturated [.errors 512]) = 0 := by
  decide

/-! ### one verdict -/

/-- what the command counts for a file that could be read: `len(list(iter_errors(file)))`. -/
def fileRes (sv : List (Step D)) : FileRes := .errors (iterErrors sv).length

/-- **All entry points agree.**  If validation and decoding of the same document emit the same
    error events (`hev`: the descent does not depend on who calls it — checked by execution), then
    is_valid, iter_errors, validate, strict decode, lax decode and the exit status of the command
    give the same verdict. -/
theorem verdicts_agree (sv sd : List (Step D)) (hv : wf sv false = true) (hd : wf sd false = true)
    (hnd : results sv = []) (hev : events sv = events sd) :
    let V := iterErrors sv = []
    (isValid sv = .ok true ↔ V) ∧ (validate sv = .ok () ↔ V) ∧
    ((∃ r, decode .strict sd = .ok r) ↔ V) ∧ ((∃ d, decode .lax sd = .ok (d, [])) ↔ V) ∧
    (cliExit [fileRes sv] = 0 ↔ V) := by
  intro V
  refine ⟨(isValid_iff sv hnd).2, validate_ok_iff sv hv, ?_, ?_, ?_⟩
  · rw [decode_strict_spec]; simp only [V]; rw [iterErrors_spec sv hv, hev]; cases events sd <;> simp
  · rw [decode_lax_spec sd hd]; simp only [V]; rw [iterErrors_spec sv hv, hev]; simp
  · rw [cli_exit_zero_iff]
    simp only [V, fileRes]
    cases iterErrors sv <;> simp

/-- and they name the same first error. -/
theorem first_errors_agree (sv sd : List (Step D)) (hv : wf sv false = true)
    (hev : events sv = events sd) (e : Err) :
    (validate sv = .raise e ↔ (iterErrors sv).head? = some e) ∧
    (decode .strict sd = .raise e ↔ (iterErrors sv).head? = some e) := by
  refine ⟨validate_raises_first sv hv e, ?_⟩
  rw [decode_strict_spec, iterErrors_spec sv hv, hev]
  cases events sd <;> simp

/-- The hypothesis `events sv = events sd` is not implied by the wrappers: these are the two scripts
    that the code produced (before `fix: validate references when decoding`, notes/fixes/C04-…)
    for a document with a dangling IDREF — `iter_errors` runs the reference check
    (schemas.py:1391), `iter_decode` of a fully loaded document skipped it (schemas.py:1612) —
    and the verdicts differ.  Replayed on the real code by the harness (finding C04-F2). -/
theorem verdicts_differ_without_same_events_counterexample :
    let sv : List (Step Nat) := [.flush, .direct 0 true]
    let sd : List (Step Nat) := [.flush, .result 7]
    wf sv false = true ∧ wf sd false = true ∧ isValid sv = .ok false ∧
    decode .strict sd = .ok (.one 7, []) ∧ decode .lax sd = .ok (.one 7, []) := by decide

/-! ### component level (ValidationMixin) -/

/-- the component-level API agrees with itself in the same way … -/
theorem mix_agree (c : Core D) (e : Err) :
    (mixIsValid c = true ↔ mixIterErrors c = []) ∧
    (mixValidate c = .ok () ↔ mixIterErrors c = []) ∧
    (mixValidate c = .raise e ↔ (mixIterErrors c).head? = some e) ∧
    (mixDecode .strict c = .raise e ↔ (mixIterErrors c).head? = some e) ∧
    (mixDecode .lax c = .ok (c.value, mixIterErrors c)) ∧
    (mixIterErrors c = [] → mixDecode .strict c = .ok (c.value, []) ∧ mixDecode .skip c = .ok (c.value, [])) := by
  obtain ⟨ev, v⟩ := c
  cases ev <;> simp [mixIsValid, mixIterErrors, mixValidate, mixDecode, rawDecode]

/-- the schema-level generators around one component run: `iter_errors` = run, flush, references;
    `iter_decode` = run, flush, result, references. -/
def embedVal (c : Core D) (refs : List Err) : List (Step D) :=
  c.events.map .collect ++ [.flush] ++ refs.map (Step.direct · false)

def embedDec (c : Core D) (refs : List Err) : List (Step D) :=
  c.events.map .collect ++ [.flush] ++ (match c.value with | some d => [.result d] | none => []) ++
    refs.map (Step.direct · false)

theorem events_embed (ev refs : List Err) (mid : List (Step D)) (hm : events (mid ++ refs.map (Step.direct · false)) = refs) :
    events (ev.map Step.collect ++ [.flush] ++ mid ++ refs.map (Step.direct · false)) = ev ++ refs := by
  induction ev with
  | nil => simpa [events] using hm
  | cons e k ih => simpa [events] using ih

theorem events_directs (refs : List Err) : events (refs.map (Step.direct (D := D) · false)) = refs := by
  induction refs with
  | nil => rfl
  | cons e k ih => simp [events, ih]

theorem tail2_directs (refs : List Err) : tail2 (refs.map (Step.direct (D := D) · false)) = true := by
  induction refs with
  | nil => rfl
  | cons e k ih => simp [tail2, ih]

theorem wf_directs (refs : List Err) : wf (refs.map (Step.direct (D := D) · false)) false = true := by
  induction refs with
  | nil => rfl
  | cons e k ih => simp [wf, ih, tail2_directs]

theorem wf_embed (ev : List Err) (p : Bool) (rest : List (Step D)) (h : wf rest false = true) :
    wf (ev.map Step.collect ++ .flush :: rest) p = true := by
  induction ev generalizing p with
  | nil => simpa [wf] using h
  | cons e k ih => simpa [wf] using ih true

/-- … and with the schema-level API: around the same component run the schema-level `iter_errors`
    yields the component's errors followed by the reference errors, strict `validate` raises the
    same first error, and decoding returns the component's value. -/
theorem component_eq_schema (c : Core D) (refs : List Err) :
    iterErrors (embedVal c refs) = mixIterErrors c ++ refs ∧
    decode .lax (embedDec c refs) = .ok (shape c.value.toList, mixIterErrors c ++ refs) ∧
    (refs = [] → (validate (embedVal c refs) = mixValidate c)) := by
  obtain ⟨ev, v⟩ := c
  have wv : wf (embedVal ⟨ev, v⟩ refs) false = true := by
    simpa [embedVal] using wf_embed ev false _ (wf_directs refs)
  have evv : events (embedVal ⟨ev, v⟩ refs) = ev ++ refs := by
    simpa [embedVal] using events_embed ev refs ([] : List (Step D)) (by simpa using events_directs refs)
  have wd : wf (embedDec ⟨ev, v⟩ refs) false = true := by
    cases v <;> simpa [embedDec, wf] using wf_embed ev false _ (by simp [wf, wf_directs])
  have evd : events (embedDec ⟨ev, v⟩ refs) = ev ++ refs := by
    cases v
    · simpa [embedDec] using events_embed ev refs ([] : List (Step D)) (by simpa using events_directs refs)
    · simpa [embedDec] using events_embed ev refs [Step.result _] (by simpa [events] using events_directs refs)
  have rd : results (embedDec ⟨ev, v⟩ refs) = v.toList := by
    have hdir : ∀ l : List Err, results (l.map (Step.direct (D := D) · false)) = [] := by
      intro l; induction l with
      | nil => rfl
      | cons e k ih => simp [results, ih]
    have hcol : ∀ (l : List Err) (rest : List (Step D)),
        results (l.map Step.collect ++ rest) = results rest := by
      intro l rest; induction l with
      | nil => rfl
      | cons e k ih => simpa [results] using ih
    cases v <;> simp [embedDec, hcol, results, hdir]
  refine ⟨?_, ?_, ?_⟩
  · rw [iterErrors_spec _ wv, evv]; simp [mixIterErrors, rawDecode]
  · rw [decode_lax_spec _ wd, evd, rd]; simp [mixIterErrors, rawDecode]
  · intro hr; subst hr
    rw [validate_spec, evv]
    cases ev <;> simp [mixValidate, mixIterErrors, rawDecode]

example : iterErrors (embedVal (⟨[1, 2], some "d"⟩ : Core String) [9]) = [1, 2, 9] := by decide

/-! ### the mode-dependent spot: union types

  Full statement (false for the code as it is):
    `∀ ms g, (unionEvents .strict ms g).head? = (unionEvents .lax ms g).head?`
  i.e. "strict mode raises precisely the first error that lax mode collects" also inside a union.
  What holds: the *verdict* never depends on the mode, and the errors coincide unless a member type
  rejected the value because of a facet. -/

/-- a union value is accepted in strict mode exactly when it is accepted in lax mode -/
theorem union_verdict_mode_independent (ms : List (Member D)) (g : Err) :
    unionEvents .strict ms g = [] ↔ unionEvents .lax ms g = [] := by
  unfold unionEvents
  cases firstOk ms with
  | some d => simp
  | none =>
    simp only
    cases hf : firstFacet ms with
    | none => simp
    | some es =>
      have : es ≠ [] := by
        induction ms with
        | nil => simp [firstFacet] at hf
        | cons m k ih => cases m <;> simp [firstFacet] at hf <;> first | exact ih hf | (subst hf; simp)
      simp [this]

/-- guard: no member type fails on a facet (all failures are lexical) — then strict raises exactly
    what lax collects -/
theorem union_first_error_partial (ms : List (Member D)) (g : Err) (h : firstFacet ms = none) :
    unionEvents .strict ms g = unionEvents .lax ms g := by
  unfold unionEvents
  cases firstOk ms <;> simp [h]

example : firstFacet ([.lexical 1, .lexical 2] : List (Member Nat)) = none ∧
    unionEvents .strict ([.lexical 1, .lexical 2] : List (Member Nat)) 0 = [0] := by decide

/-- witness (finding C04-F3): `<u>E</u>` with `u : union(xs:int, code)`, `code` an enumeration —
    xs:int fails lexically (1), `code` fails on its enumeration facet (2); strict raises the generic
    "invalid value 'E'" (0), lax collects the enumeration error (2). -/
theorem union_first_error_counterexample :
    unionEvents .strict ([.lexical 1, .facet 2 []] : List (Member Nat)) 0 = [0] ∧
    unionEvents .lax ([.lexical 1, .facet 2 []] : List (Member Nat)) 0 = [2] := by decide

/-! ### the other mode-tested spot: wildcards with processContents

  `XsdAnyAttribute.raw_decode` / `XsdAnyElement.raw_decode` test the validation mode explicitly
  (`validation != 'skip'`) before they report a name without a global declaration or of an
  unavailable namespace.  With that guard the events reached do not depend on strict / lax, so strict
  raises precisely the first error that lax collects, for every processContents value, look-up
  outcome and inner error list. -/

theorem take_one_eq_nil {α} (l : List α) : l.take 1 = [] ↔ l = [] := by
  cases l <;> simp

/-- attribute wildcard: strict raises precisely the first error that lax collects -/
theorem anyAttr_strict_raises_first_lax (pc : PC) (matching ps : Bool) (lk : Lookup) (eNA eUn eNF : Err) :
    anyAttrEvents .strict pc matching ps lk eNA eUn eNF =
      (anyAttrEvents .lax pc matching ps lk eNA eUn eNF).take 1 := by
  simp [anyAttrEvents, inMode, anyAttrReachedWith, reportsMissing]

/-- attribute wildcard: the verdict does not depend on the mode, and skip mode is silent -/
theorem anyAttr_verdict_mode_independent (pc : PC) (matching ps : Bool) (lk : Lookup) (eNA eUn eNF : Err) :
    (anyAttrEvents .strict pc matching ps lk eNA eUn eNF = [] ↔
      anyAttrEvents .lax pc matching ps lk eNA eUn eNF = []) ∧
    anyAttrEvents .skip pc matching ps lk eNA eUn eNF = [] := by
  refine ⟨?_, rfl⟩
  rw [anyAttr_strict_raises_first_lax, take_one_eq_nil]

example : anyAttrEvents .strict .strict true false .notFound 0 1 2 = [2] ∧
    anyAttrEvents .lax .strict true false .notFound 0 1 2 = [2] ∧
    anyAttrEvents .lax .lax true false .notFound 0 1 2 = [] ∧
    anyAttrEvents .lax .strict false false (.declared [7, 8]) 0 1 2 = [0, 7, 8] ∧
    anyAttrEvents .strict .strict false false (.declared [7, 8]) 0 1 2 = [0] := by decide

/-- element wildcard: strict raises precisely the first error that lax collects -/
theorem anyElem_strict_raises_first_lax (pc : PC) (matching ps xsiType : Bool) (lk : Lookup) (anon : List Err)
    (eNA eUn eNF : Err) :
    anyElemEvents .strict pc matching ps xsiType lk anon eNA eUn eNF =
      (anyElemEvents .lax pc matching ps xsiType lk anon eNA eUn eNF).take 1 := by
  simp [anyElemEvents, inMode, anyElemReachedWith, reportsMissing]

theorem anyElem_verdict_mode_independent (pc : PC) (matching ps xsiType : Bool) (lk : Lookup) (anon : List Err)
    (eNA eUn eNF : Err) :
    (anyElemEvents .strict pc matching ps xsiType lk anon eNA eUn eNF = [] ↔
      anyElemEvents .lax pc matching ps xsiType lk anon eNA eUn eNF = []) ∧
    anyElemEvents .skip pc matching ps xsiType lk anon eNA eUn eNF = [] := by
  refine ⟨?_, rfl⟩
  rw [anyElem_strict_raises_first_lax, take_one_eq_nil]

example : anyElemEvents .lax .strict true false false .unavailable [5] 0 1 2 = [1, 5] ∧
    anyElemEvents .strict .strict true false false .unavailable [5] 0 1 2 = [1] ∧
    anyElemEvents .lax .strict true false true .unavailable [5] 0 1 2 = [5] ∧
    anyElemEvents .lax .skip true false false .notFound [5] 0 1 2 = [] := by decide

/-- The guard matters: written as `validation == 'strict'` the "not found" error of a strict wildcard
    exists in strict mode only — validate() raises while iter_errors() yields nothing.
    Replayed on the real code by the harness (witness case of family W). -/
theorem wildcard_guard_counterexample :
    inMode .strict (anyAttrReachedWith reportsMissingStrictOnly .strict .strict true false .notFound 0 1 2) = [2] ∧
    inMode .lax (anyAttrReachedWith reportsMissingStrictOnly .lax .strict true false .notFound 0 1 2) = [] := by
  decide

/-! ### scoped copies of the context -/

mutual
theorem scopes_shared_lax_eq_reached (r : Run) (h : r.allShared = true) : r.lax = r.reached := by
  match r with
  | .err e => simp [Run.lax, Run.reached]
  | .scope shared body =>
    simp only [Run.allShared, Bool.and_eq_true] at h
    simp [Run.lax, Run.reached, h.1, scopes_shared_laxL_eq_reachedL body h.2]
theorem scopes_shared_laxL_eq_reachedL (rs : List Run) (h : Run.allSharedL rs = true) :
    Run.laxL rs = Run.reachedL rs := by
  match rs with
  | [] => simp [Run.laxL, Run.reachedL]
  | r :: k =>
    simp only [Run.allSharedL, Bool.and_eq_true] at h
    simp [Run.laxL, Run.reachedL, scopes_shared_lax_eq_reached r h.1, scopes_shared_laxL_eq_reachedL k h.2]
end

/-- when every scoped copy shares the error list, lax mode collects exactly the events the descent
    reaches: a strict run raises (the first reached event) exactly when the lax list is not empty, and
    it raises precisely the first error that lax collects — for every nesting of scopes. -/
theorem scopes_shared_strict_raises_first_lax (rs : List Run) (h : Run.allSharedL rs = true) :
    (Run.reachedL rs).head? = (Run.laxL rs).head? ∧ (Run.reachedL rs = [] ↔ Run.laxL rs = []) := by
  rw [scopes_shared_laxL_eq_reachedL rs h]; exact ⟨rfl, Iff.rfl⟩

example : Run.allSharedL [.err 1, .scope true [.err 2, .scope true [.err 3]], .err 4] = true ∧
    Run.laxL [.err 1, .scope true [.err 2, .scope true [.err 3]], .err 4] = [1, 2, 3, 4] := by decide

/-- with a copy that does not share the list (`errors.copy()`, finding C04-F5) the error below the
    scope is reached — validate() raises it — and lax mode reports nothing.  Witness:
    `<top lang="en"><a>1</a><a>x</a></top>`, `lang` inheritable; replayed by the harness. -/
theorem unshared_scope_counterexample :
    Run.reachedL [.scope false [.err 7]] = [7] ∧ Run.laxL [.scope false [.err 7]] = [] := by decide

/-! ### the prefix map at the end of an element (identity fields with prefix-dependent values)

  The fields of an identity constraint are collected at the END of the selected element, after its
  children were processed.  A QName-valued field must then be resolved with the declarations in
  scope of the element itself, whatever its children (re)declared.  This holds for the call pattern
  of the code (`NsMapper.visit`: enter, children, `set_xmlns_context` again) — for validation and for
  decoding alike, both run this pattern — and fails without the end-of-element call. -/
section NsScope
open XsVerif.NsMapper XsVerif.NsMapper.Stack XsVerif.NsLeak

mutual
theorem specObs_end_eq_key (ns0 : Map) : ∀ t : Tree,
    (specObs ns0 t).map (fun x => (x.1, x.2.2.1)) = (specObs ns0 t).map (fun x => (x.1, x.2.1))
  | .node id tag attrs decl ch => by
    simp only [specObs, List.map_cons]
    rw [specObsList_end_eq_key (Map.update ns0 decl) ch]
theorem specObsList_end_eq_key (ns0 : Map) : ∀ ts : List Tree,
    (specObsList ns0 ts).map (fun x => (x.1, x.2.2.1)) = (specObsList ns0 ts).map (fun x => (x.1, x.2.1))
  | [] => by simp [specObsList]
  | t :: ts => by
    simp only [specObsList, List.map_append]
    rw [specObs_end_eq_key ns0 t, specObsList_end_eq_key ns0 ts]
end

/-- for every element of every document: the map in force when the element ends is the map of the
    element's own scope (initial map updated by the declarations on the path root → element) -/
theorem ns_scope_at_element_end (v : Variant) (t : Tree) (m0 : Mapper) (hd : SibDistinct t)
    (h0 : m0.stack = []) :
    endPurged v t m0 = (specObs m0.ns t).map (fun x => (x.1, x.2.2.1)) := by
  have h := (visit_spec v t hd 0 m0 [] m0.ns m0.rev [] (by intro c hc; cases hc)
    (Or.inl ⟨h0, rfl, rfl⟩) (by simp)).2
  unfold endPurged
  rw [← h, List.map_map]
  rfl

/-- … and it does not depend on the children: it equals the map right after entering the element -/
theorem ns_scope_children_independent (v : Variant) (t : Tree) (m0 : Mapper) (hd : SibDistinct t)
    (h0 : m0.stack = []) :
    (visit v .stacked 0 t m0).2.map (fun o => (o.id, o.nsAtAttrs)) =
      (visit v .stacked 0 t m0).2.map (fun o => (o.id, o.nsAtKey)) := by
  have h := (visit_spec v t hd 0 m0 [] m0.ns m0.rev [] (by intro c hc; cases hc)
    (Or.inl ⟨h0, rfl, rfl⟩) (by simp)).2
  have e1 : (visit v .stacked 0 t m0).2.map (fun o => (o.id, o.nsAtAttrs)) =
      ((visit v .stacked 0 t m0).2.map proj).map (fun x => (x.1, x.2.2.1)) := by
    rw [List.map_map]; rfl
  have e2 : (visit v .stacked 0 t m0).2.map (fun o => (o.id, o.nsAtKey)) =
      ((visit v .stacked 0 t m0).2.map proj).map (fun x => (x.1, x.2.1)) := by
    rw [List.map_map]; rfl
  rw [e1, e2, h]
  exact specObs_end_eq_key m0.ns t

/-- witness: `<root xmlns:p="urn:a"><item code="p:x"><tail xmlns:p="urn:b"/></item></root>` — with the
    end-of-element call the field `@code` of `item` (id 1) is resolved with p ↦ urn:a, without it with
    the binding p ↦ urn:b leaked by its last child.  Replayed on the real code (family Q). -/
theorem ns_leak_counterexample :
    let t : Tree := .node 0 ⟨"", "root"⟩ [] [("p", "urn:a")]
      [.node 1 ⟨"", "item"⟩ [] [] [.node 2 ⟨"", "tail"⟩ [] [("p", "urn:b")] []]]
    let m0 : Mapper := ⟨[], [], []⟩
    ((endPurged .repaired t m0).map fun x => (x.1, x.2.get "p")) =
      [(0, some "urn:a"), (1, some "urn:a"), (2, some "urn:b")] ∧
    (((endNoPurge .repaired 0 t m0).2).map fun x => (x.1, x.2.get "p")) =
      [(0, some "urn:b"), (1, some "urn:b"), (2, some "urn:b")] := by decide

end NsScope

/-! ### character data of element-only content and comment / PI nodes (Model/CharData.lean) -/
section CharData
open XsVerif.CharData

theorem nonBlank_append (a b : String) : nonBlank (a ++ b) = (nonBlank a || nonBlank b) := by
  simp [nonBlank, String.toList_append, List.any_append]

theorem dropNodes_check (kids : List Kid) : ∀ cur : String,
    (nonBlank (dropNodes cur kids).1 || (dropNodes cur kids).2.any nonBlank) =
      (nonBlank cur || kids.any (fun k => nonBlank k.tail)) := by
  induction kids with
  | nil => intro cur; simp [dropNodes]
  | cons k ks ih =>
    intro cur
    cases k with
    | node t =>
      simp only [dropNodes, List.any_cons, Kid.tail]
      rw [ih (cur ++ t), nonBlank_append, Bool.or_assoc]
      rfl
    | elem t =>
      simp only [dropNodes, List.any_cons, Kid.tail]
      rw [ih t]
      rfl

/-- **comment / PI nodes are transparent for the character-data check**: the check of the code gives the same
    answer on a tree that keeps these nodes and on the tree a parser builds that drops them — for every element,
    every number and position of nodes and every text. -/
theorem cdata_check_source_independent (text : String) (kids : List Kid) :
    hasCdataDropped text kids = hasCdata text kids := by
  unfold hasCdataDropped hasCdata
  exact dropNodes_check kids text

example : hasCdata "" [.elem "", .node "stray", .elem " "] = true ∧
    hasCdataDropped "" [.elem "", .node "stray", .elem " "] = true ∧
    hasCdata " " [.node "\n", .elem ""] = false := by decide

/-- skipping the tails of comment / PI children breaks it: `<r><a/><!-- c -->stray</r>` is accepted from a tree
    that keeps the comment and rejected from text.  Replayed on the real code (documents with a node followed by
    character data). -/
theorem cdata_skipping_nodes_counterexample :
    hasCdataSkippingNodes "" [.elem "", .node "stray"] = false ∧
    hasCdataDropped "" [.elem "", .node "stray"] = true := by decide

end CharData

/-! ### value constraints and the document-level state (Model/AttrDefaults.lean)

  `verdicts_agree` needs `events sv = events sd`.  The part of the descent where that equality could
  break silently — attributes (and simple content) that the instance OMITS but that the schema
  constrains with `default` / `fixed`, decoded by a type with a document-level effect (xs:IDREF,
  xs:IDREFS, xs:ID, xs:QName) — is modelled, and the model is the oracle for BOTH runs: the harness
  compares `run …` with the events of `iter_errors` and with the events of `iter_decode`.
  S: the reference errors of a document are the decoded IDREF values (explicit or supplied by a value
  constraint) that no decoded ID value defines.  Unbounded in the number of elements, attributes,
  declarations and list items. -/
section AttrDefaults
open XsVerif.AttrDefaults

variable (toks : String → List String) (pfx : String → Option String) (isXsi : String → Bool)
  (ns : List String) (v11 ud : Bool) (xsi : List Decl)

/-- which attributes an attribute group decodes: those of the instance and, for every attribute that
    the instance omits, the fixed value or (with `use_defaults`) the default value of a
    non-prohibited declaration — for validation and for decoding alike (the function has no other
    parameter). -/
theorem processed_attributes_spec (ds : List Decl) (obj : Attrs) (k v : String) :
    (k, v) ∈ effective ud ds obj ↔
      (k, v) ∈ obj ∨ (hasKey k obj = false ∧ ∃ d ∈ ds, d.name = k ∧ d.use ≠ .prohibited ∧
        (d.fixed = some v ∨ (d.fixed = none ∧ d.dflt = some v ∧ ud = true))) := by
  rw [mem_effective, mem_valueConstraints]

example : effective true [⟨"ref", .optional, none, some "a1", .idref⟩, ⟨"fx", .optional, some "F", none, .plain⟩,
      ⟨"id", .optional, none, none, .id⟩] [("fx", "F")] = [("fx", "F"), ("ref", "a1")] := by decide
example : effective false [⟨"ref", .optional, none, some "a1", .idref⟩, ⟨"r3", .optional, some "a3", none, .idref⟩] []
    = [("r3", "a3")] := by decide

/-- the reference errors of a run are exactly the decoded IDREF values that no decoded ID defines -/
theorem dangling_iff (doc : List Elem) (k : String) :
    Ev.dangling k ∈ run toks pfx isXsi ns v11 ud xsi doc ↔
      k ∈ refsOf toks (docActsWith effective isXsi ud xsi doc) ∧
      k ∉ idsOf (docActsWith effective isXsi ud xsi doc) := by
  obtain ⟨_, hd, ho⟩ := exec_spec toks pfx ns v11 (docActsWith effective isXsi ud xsi doc) St.init inv_init
  have hn := exec_events_noDangling toks pfx ns v11 (docActsWith effective isXsi ud xsi doc) St.init
    (docActs_noDangling effective isXsi ud xsi doc)
  simp only [run, runWith, List.mem_append, List.mem_map, danglings, List.mem_filter, decide_eq_true_eq]
  constructor
  · rintro (h | ⟨x, ⟨h1, h2⟩, hx⟩)
    · exact absurd rfl (hn _ h k)
    · cases hx
      have h1' := (ho k).mp h1
      have h2' : k ∉ idsOf (docActsWith effective isXsi ud xsi doc) := fun hc => h2 ((hd k).mpr (Or.inr hc))
      simp only [St.init, List.not_mem_nil, false_or] at h1'
      rcases h1' with h1' | h1'
      · exact ⟨h1', h2'⟩
      · exact absurd h1' h2'
  · rintro ⟨h1, h2⟩
    refine Or.inr ⟨k, ⟨(ho k).mpr (Or.inr (Or.inl h1)), ?_⟩, rfl⟩
    intro hc
    rcases (hd k).mp hc with hc | hc
    · cases hc
    · exact h2 hc

/-- a document has no reference error exactly when every decoded IDREF is a decoded ID -/
theorem no_reference_error_iff (doc : List Elem) :
    (∀ k, Ev.dangling k ∉ run toks pfx isXsi ns v11 ud xsi doc) ↔
      ∀ k ∈ refsOf toks (docActsWith effective isXsi ud xsi doc),
        k ∈ idsOf (docActsWith effective isXsi ud xsi doc) := by
  constructor
  · intro h k hk
    by_cases hi : k ∈ idsOf (docActsWith effective isXsi ud xsi doc)
    · exact hi
    · exact absurd ((dangling_iff toks pfx isXsi ns v11 ud xsi doc k).mpr ⟨hk, hi⟩) (h k)
  · intro h k hk
    obtain ⟨h1, h2⟩ := (dangling_iff toks pfx isXsi ns v11 ud xsi doc k).mp hk
    exact h2 (h k h1)

/-- an IDREF attribute that the instance omits and the schema constrains IS a reference of the
    document (fixed always, default when `use_defaults`) … -/
theorem constrained_idref_is_reference (doc : List Elem) (e : Elem) (d : Decl) (v : String)
    (he : e ∈ doc) (hl : lookup d.name e.decls = some d) (hk : d.kind = .idref)
    (hu : d.use ≠ .prohibited) (hm : hasKey d.name e.attrs = false)
    (hv : d.fixed = some v ∨ (d.fixed = none ∧ d.dflt = some v ∧ ud = true)) :
    v ∈ refsOf toks (docActsWith effective isXsi ud xsi doc) := by
  have hd : d ∈ e.decls := List.mem_of_find?_eq_some hl
  have hmem : (d.name, v) ∈ effective ud e.decls e.attrs :=
    (processed_attributes_spec ud e.decls e.attrs d.name v).mpr (Or.inr ⟨hm, d, hd, rfl, hu, hv⟩)
  have hpost : Act.post .idref v ∈ attrActs isXsi xsi e.decls (!hasKey d.name e.attrs) (d.name, v) := by
    simp [attrActs, hl, hu, declActs, hk]
  have hact : Act.post .idref v ∈ docActsWith effective isXsi ud xsi doc := by
    simp only [docActsWith, List.mem_flatMap]
    refine ⟨e, he, ?_⟩
    simp only [elemActsWith, groupActsWith, List.mem_append, List.mem_cons, List.mem_flatMap]
    exact Or.inl (Or.inr (Or.inr ⟨_, hmem, hpost⟩))
  simp only [refsOf, List.mem_flatMap]
  exact ⟨_, hact, by simp [Act.refs]⟩

/-- … so when no ID of the document defines it, every run reports it. -/
theorem constrained_idref_dangling (doc : List Elem) (e : Elem) (d : Decl) (v : String)
    (he : e ∈ doc) (hl : lookup d.name e.decls = some d) (hk : d.kind = .idref)
    (hu : d.use ≠ .prohibited) (hm : hasKey d.name e.attrs = false)
    (hv : d.fixed = some v ∨ (d.fixed = none ∧ d.dflt = some v ∧ ud = true))
    (hid : v ∉ idsOf (docActsWith effective isXsi ud xsi doc)) :
    Ev.dangling v ∈ run toks pfx isXsi ns v11 ud xsi doc :=
  (dangling_iff toks pfx isXsi ns v11 ud xsi doc v).mpr
    ⟨constrained_idref_is_reference toks isXsi ud xsi doc e d v he hl hk hu hm hv, hid⟩

example : run (fun s => [s]) (fun _ => none) (fun _ => false) [] false true []
    [⟨[⟨"id", .optional, none, none, .id⟩], [("id", "b1")], none⟩,
     ⟨[⟨"ref", .optional, none, some "a1", .idref⟩], [], none⟩] = [.dangling "a1"] := by decide
example : run (fun s => [s]) (fun _ => none) (fun _ => false) [] false true []
    [⟨[⟨"ref", .optional, none, some "a1", .idref⟩], [], none⟩,
     ⟨[⟨"id", .optional, none, none, .id⟩], [("id", "a1")], none⟩] = [] := by decide

/-- an injected xs:QName literal is not resolved with the prefixes of the instance (attributes.py:745-751);
    the default of an element's simple content still is (elements.py) -/
example : run (fun s => [s]) (fun s => if s = "t:nm" then some "t" else none) (fun _ => false) ["p"] false true []
    [⟨[⟨"q", .optional, none, some "t:nm", .qname⟩], [], none⟩,
     ⟨[⟨"q", .optional, none, some "t:nm", .qname⟩], [("q", "t:nm")], none⟩,
     ⟨[], [], some (⟨none, some "t:nm", .qname⟩, "")⟩] = [.unmapped "t", .unmapped "t"] := by decide

/-- the same for the simple content of an empty element declared with a default / fixed IDREF -/
theorem constrained_text_idref_is_reference (doc : List Elem) (e : Elem) (td : TextDecl) (v : String)
    (he : e ∈ doc) (ht : e.text = some (td, "")) (hk : td.kind = .idref)
    (hv : td.fixed = some v ∨ (td.fixed = none ∧ td.dflt = some v ∧ ud = true)) :
    v ∈ refsOf toks (docActsWith effective isXsi ud xsi doc) := by
  have hpost : Act.post .idref v ∈ textActs ud td "" := by
    rcases hv with hv | ⟨h1, h2, h3⟩
    · simp [textActs, hv, hk]
    · simp [textActs, h1, h2, h3, hk]
  have hact : Act.post .idref v ∈ docActsWith effective isXsi ud xsi doc := by
    simp only [docActsWith, List.mem_flatMap]
    refine ⟨e, he, ?_⟩
    simp only [elemActsWith, ht, List.mem_append]
    exact Or.inr hpost
  simp only [refsOf, List.mem_flatMap]
  exact ⟨_, hact, by simp [Act.refs]⟩

/-- Processing the value constraints of the omitted attributes is needed for that: a descent that
    decodes only the attributes written in the instance (what a validation-only shortcut would do)
    accepts the document `<item id="b1"/>` + omitted `ref : xs:IDREF default="a1"` that the real
    descent rejects.  Replayed on the real code by the harness (witness case of family V). -/
theorem ignoring_constraints_counterexample :
    let doc : List Elem := [⟨[⟨"id", .optional, none, none, .id⟩, ⟨"ref", .optional, none, some "a1", .idref⟩],
                             [("id", "b1")], none⟩]
    run (fun s => [s]) (fun _ => none) (fun _ => false) [] false true [] doc = [.dangling "a1"] ∧
    runWith effectiveIgnoringConstraints (fun s => [s]) (fun _ => none) (fun _ => false) [] false true [] doc = [] := by
  decide

end AttrDefaults

end XsVerif.Props.C04
