/-
  C19 — errors point at the offending node: the path AS A USER READS IT.
  ONLY property theorems and non-vacuity examples (continuation of Props/C19.lean).

  `error.path` is computed on the tree of expanded names, written with a namespace map `m` and read back by the
  user with the map `m'` the error carries (Model/PathsNs.lean).  `scoped_path_selects`: whenever every name on
  the path reads back (with `m'`) to the expanded name it was written for (with `m`), the user's evaluation of the
  path selects exactly the element — for every document, every position, every pair of maps.  With `m' = m`
  (the path is written and read with one and the same map) the hypothesis is `render_resolves_partial` of
  Props/C19.lean: it holds for every name in a namespace, and for a name in no namespace unless the map binds the
  empty prefix (finding C19-F1).  `stale_map_counterexample`: a path written with the map in scope at a nested
  element and read with the root-level map the error carries afterwards cannot be read / selects nothing.
-/
import XsVerif.Model.PathsNs
import XsVerif.Props.C19

set_option linter.unusedSimpArgs false

namespace XsVerif.Props.C19
open XsVerif.NsMapper XsVerif.Paths XsVerif.PathsNs

namespace Ns

theorem idxOf_split (l : List QT) (i : Nat) (c : QT) (k : Nat) (h : l[i]? = some c) :
    PathsNs.idxOf c.q l k
      = PathsNs.idxOf c.q (l.take i) k ++ (k + i) :: PathsNs.idxOf c.q (l.drop (i + 1)) (k + i + 1) := by
  induction l generalizing i k with
  | nil => simp at h
  | cons d cs ih =>
    cases i with
    | zero =>
      simp only [List.getElem?_cons_zero, Option.some.injEq] at h
      subst h
      simp [PathsNs.idxOf]
    | succ i =>
      simp only [List.getElem?_cons_succ] at h
      have := ih i (k + 1) h
      simp only [PathsNs.idxOf, List.take_succ_cons, List.drop_succ_cons]
      have e1 : k + 1 + i = k + (i + 1) := by omega
      have e2 : k + 1 + i + 1 = k + (i + 1) + 1 := by omega
      rw [e1] at this
      split
      · rw [this]; simp
      · exact this

/-- the step computed for child `i` (expanded names) selects exactly child `i` -/
theorem selectStep_stepFor (l : List QT) (i : Nat) (s : QStep) (h : PathsNs.stepFor l i = some s) :
    PathsNs.selectStep l s = [i] := by
  unfold PathsNs.stepFor at h
  cases hc : l[i]? with
  | none => simp [hc] at h
  | some c =>
    simp only [hc, Option.some.injEq] at h
    have hs := idxOf_split l i c 0 hc
    simp only [Nat.zero_add] at hs
    split at h
    · rename_i h1
      subst h
      simp only [PathsNs.selectStep]
      rw [hs] at h1 ⊢
      simp only [List.length_append, List.length_cons] at h1
      have ha : (PathsNs.idxOf c.q (l.take i) 0).length = 0 := by omega
      have hb : (PathsNs.idxOf c.q (l.drop (i + 1)) (i + 1)).length = 0 := by omega
      rw [List.length_eq_zero_iff] at ha hb
      rw [ha, hb]; rfl
    · subst h
      simp only [PathsNs.selectStep, Nat.add_one_ne_zero, if_false, Nat.add_sub_cancel]
      rw [hs, List.getElem?_append_right (Nat.le_refl _)]
      simp

end Ns

/-- On the tree of expanded names, the path computed for a position selects exactly that position
    (`path_selects_unique` with the name test on expanded names, as `etree_getpath` compares tags). -/
theorem qpath_selects_unique (t : QT) (pos : List Nat) (p : QN × List QStep)
    (h : PathsNs.getPath t pos = some p) : PathsNs.selectAbs t p = [pos] := by
  unfold PathsNs.getPath at h
  cases hs : PathsNs.getSteps t pos with
  | none => simp [hs] at h
  | some steps =>
    simp only [hs, Option.map_some, Option.some.injEq] at h
    subst h
    simp only [PathsNs.selectAbs, if_true]
    induction pos generalizing t steps with
    | nil =>
      cases t; simp only [PathsNs.getSteps, Option.some.injEq] at hs; subst hs; rfl
    | cons i is ih =>
      obtain ⟨tag, ch⟩ := t
      simp only [PathsNs.getSteps] at hs
      cases h1 : PathsNs.stepFor ch i with
      | none => simp [h1] at hs
      | some s =>
        cases h2 : ch[i]? with
        | none => simp [h1, h2] at hs
        | some c =>
          simp only [h1, h2] at hs
          cases h3 : PathsNs.getSteps c is with
          | none => simp [h3] at hs
          | some rest =>
            simp only [h3, Option.map_some, Option.some.injEq] at hs
            subst hs
            simp only [PathsNs.select, Ns.selectStep_stepFor ch i s h1, List.flatMap_cons, List.flatMap_nil,
              List.append_nil, h2, ih c rest h3, List.map_cons, List.map_nil]

/-- same local name in different namespaces among the siblings: the position counts the siblings with the same
    EXPANDED name (`{urn:t}e`, `{urn:x}e`, `e`, `{urn:t}e`: the last one is `{urn:t}e[2]`, not `[3]` or `[4]`) -/
example : let t := QT.node ⟨"urn:t", "r"⟩ [.node ⟨"urn:t", "e"⟩ [], .node ⟨"urn:x", "e"⟩ [], .node ⟨"", "e"⟩ [],
      .node ⟨"urn:t", "e"⟩ []]
    PathsNs.getPath t [3] = some (⟨"urn:t", "r"⟩, [⟨⟨"urn:t", "e"⟩, some 2⟩]) ∧
    PathsNs.getPath t [1] = some (⟨"urn:t", "r"⟩, [⟨⟨"urn:x", "e"⟩, none⟩]) ∧
    errorPathSelects [("t", "urn:t"), ("x", "urn:x")] [("t", "urn:t"), ("x", "urn:x")] t [3] = some [[3]] := by
  decide

/-- the reader of Model/PathsNs.lean is the reader of `render_resolves_partial` -/
theorem readName_eq (m : Map) (n : PName) : readName m n = resolveName m n := by
  cases n <;> rfl

/-- every name of the path, written with `m`, reads back with `m'` to the name it was written for -/
def RoundTrips (m m' : Map) (p : QN × List QStep) : Prop :=
  readName m' (renderName m p.1) = some p.1 ∧ ∀ s ∈ p.2, readName m' (renderName m s.name) = some s.name

theorem readSteps_render (m m' : Map) (steps : List QStep)
    (h : ∀ s ∈ steps, readName m' (renderName m s.name) = some s.name) :
    readSteps m' (steps.map fun s => (⟨renderName m s.name, s.pos⟩ : RStep)) = some steps := by
  induction steps with
  | nil => rfl
  | cons s rest ih =>
    have h1 := h s List.mem_cons_self
    have h2 := ih fun x hx => h x (List.mem_cons_of_mem _ hx)
    simp only [List.map_cons, readSteps, h1, h2]

/-- **The path as a user reads it selects exactly the element the error is about**, whenever the names on the
    path survive the round trip "written with `m`, read with `m'`" — any document, position and maps. -/
theorem scoped_path_selects (m m' : Map) (t : QT) (pos : List Nat) (p : QN × List QStep)
    (h : PathsNs.getPath t pos = some p) (hr : RoundTrips m m' p) :
    errorPathSelects m m' t pos = some [pos] := by
  obtain ⟨r, steps⟩ := p
  simp only [errorPathSelects, h, userSelect, readPath, renderPath, hr.1,
    readSteps_render m m' steps hr.2, Option.map_some, qpath_selects_unique t pos _ h]

/-- the guard of `render_resolves_partial` for every name of a path: a name in no namespace only if the map does
    not bind the empty prefix to a namespace (the exception is finding C19-F1) -/
def NoBareUnderDefault (m : Map) (p : QN × List QStep) : Prop :=
  (p.1.ns = "" → m.get "" = none ∨ m.get "" = some "") ∧
  ∀ s ∈ p.2, s.name.ns = "" → m.get "" = none ∨ m.get "" = some ""

/-- The code as it is: `error.path` is written with the map the error carries at the moment it is read, and the
    user reads it with that same map.  Then the path selects exactly the element (outside C19-F1). -/
theorem same_map_path_selects (m : Map) (hn : m.Nodup) (t : QT) (pos : List Nat) (p : QN × List QStep)
    (h : PathsNs.getPath t pos = some p) (hg : NoBareUnderDefault m p) :
    errorPathSelects m m t pos = some [pos] := by
  apply scoped_path_selects m m t pos p h
  refine ⟨?_, fun s hs => ?_⟩
  · rw [readName_eq]; exact render_resolves_partial m p.1 hn hg.1
  · rw [readName_eq]; exact render_resolves_partial m s.name hn (hg.2 s hs)

/-- If a name on the path cannot be read with the user's map, the user gets nothing at all. -/
theorem unreadable_step (m m' : Map) (t : QT) (pos : List Nat) (p : QN × List QStep)
    (h : PathsNs.getPath t pos = some p) (hu : readName m' (renderName m p.1) = none) :
    errorPathSelects m m' t pos = none := by
  simp only [errorPathSelects, h, userSelect, readPath, renderPath, hu, Option.map_none]

/-- the document of the witnesses: `<order xmlns="urn:a"><id/><p:parcel xmlns:p="urn:b"/><parcel xmlns="urn:b"/></order>` -/
def orderDoc : QT :=
  .node ⟨"urn:a", "order"⟩ [.node ⟨"urn:a", "id"⟩ [], .node ⟨"urn:b", "parcel"⟩ [.node ⟨"urn:b", "weight"⟩ []],
    .node ⟨"urn:b", "parcel"⟩ [.node ⟨"urn:b", "weight"⟩ []]]

/-- written and read with one map (here the root-level map: `{urn:b}` names stay braced): selects the element -/
example : errorPathSelects [("", "urn:a")] [("", "urn:a")] orderDoc [2, 0] = some [[2, 0]] := by decide

example : PathsNs.getPath orderDoc [1] = some (⟨"urn:a", "order"⟩, [⟨⟨"urn:b", "parcel"⟩, some 1⟩]) ∧
    RoundTrips [("", "urn:a"), ("p", "urn:b")] [("", "urn:a"), ("p", "urn:b")]
      (⟨"urn:a", "order"⟩, [⟨⟨"urn:b", "parcel"⟩, some 1⟩]) := by
  refine ⟨by decide, by decide, ?_⟩
  intro s hs
  simp only [List.mem_singleton] at hs
  subst hs
  decide

/-- **A path written with another map than the one the error carries** (the map in scope at a nested element when
    the error was collected vs the root-level map `error.namespaces` shows afterwards):
    (1) `/order/p:parcel[1]` cannot be read with `{'': 'urn:a'}` (prefix `p` is not declared);
    (2) `/{urn:a}order/parcel[2]`, written under the new default namespace `urn:b`, selects nothing with
        `{'': 'urn:a'}`;
    (3) written after the prefixes were swapped (`t`↔`x`), `/x:root` read with the unswapped map selects nothing. -/
theorem stale_map_counterexample :
    errorPathSelects [("", "urn:a"), ("p", "urn:b")] [("", "urn:a")] orderDoc [1] = none ∧
    errorPathSelects [("", "urn:b")] [("", "urn:a")] orderDoc [2] = some [] ∧
    errorPathSelects [("t", "urn:x"), ("x", "urn:t")] [("t", "urn:t"), ("x", "urn:x")]
      (.node ⟨"urn:t", "root"⟩ [.node ⟨"urn:t", "item"⟩ []]) [0] = some [] := by decide

end XsVerif.Props.C19
