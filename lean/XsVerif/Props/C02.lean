/-
  C02 — simple-type validation and decoding follow XSD datatype semantics.
  ONLY property theorems and non-vacuity examples live here (helper lemmas: Lemmas/Datatypes.lean).

  Property (properties.jsonl):  a text is accepted for a simple type exactly when, after the type's
  white-space normalisation, it lies in the lexical space of the type and its value satisfies every
  facet in force, lists item-wise, unions by first matching member; the decoded value denotes the XSD
  value; encoding it yields text that decodes to the same value.

  Layers: S = the Prop-valued readings below (`IntLex`, `DecLex`, `XsdBounds`, …); M = the port of the
  code in Model/Datatypes*.lean (`decode`), tied to /repo by the correspondence run of ./check C02.
  The model is parameterised by the two repairs proposed in notes/fixes (white-space class `W`,
  `cdFix`); theorems are stated for every `W` unless they say `isXmlWs`, and the `_counterexample`
  theorems exhibit the pinned behaviour (`isPyWs`, `cdFix := false`).
  The float/double value space has no Lean semantics (oracle).  `pattern` facets: a regular-expression subset is
  evaluated by the model (section 9, `Model/DatatypesPat`), the other patterns stay an oracle `P`; section 9 also
  covers the patterns of restricted unions, which travel through the validation context (`decodeS`).
-/
import XsVerif.Model.Datatypes
import XsVerif.Model.DatatypesDate
import XsVerif.Generated.Builtins
import XsVerif.Model.DatatypesEnc
import XsVerif.Lemmas.Datatypes
import XsVerif.Lemmas.DatatypesDec
import XsVerif.Lemmas.DatatypesEnc
import XsVerif.Lemmas.DatatypesWs
import XsVerif.Lemmas.DatatypesBin
import XsVerif.Lemmas.DatatypesDateLex
import XsVerif.Lemmas.DatatypesDateRt
import XsVerif.Lemmas.DatatypesPat

namespace XsVerif.Props.C02
open XsVerif.Datatypes XsVerif.Generated

/-! ## 1. white-space normalisation -/

/-- collapsing does not change the white-space separated words of a text -/
theorem words_collapse (W : Char → Bool) (hsp : W ' ' = true) (s : Str) :
    words W (wsCollapse W s) = words W s := by
  unfold words wsCollapse strip
  rw [splitWs_rstrip, splitWs_lstrip, splitWs_squeeze W hsp s false [] (by simp)]

example : words isXmlWs (wsCollapse isXmlWs "  a \t\n b  ".toList) = ["a".toList, "b".toList] := by decide

/-- `replace` keeps the length and leaves no white character other than a blank -/
theorem replace_spec (W : Char → Bool) (s : Str) :
    (wsReplace W s).length = s.length ∧ ∀ c ∈ wsReplace W s, W c = true → c = ' ' := by
  refine ⟨by simp [wsReplace], ?_⟩
  intro c hc hw
  simp only [wsReplace, List.mem_map] at hc
  obtain ⟨a, -, rfl⟩ := hc
  by_cases ha : W a = true <;> simp_all

/-- XSD white space is a sub-class of what the pinned code treats as white space … -/
theorem xmlWs_sub_pyWs (c : Char) (h : isXmlWs c = true) : isPyWs c = true := by
  simp only [isXmlWs, Bool.or_eq_true, beq_iff_eq] at h
  rcases h with ((rfl | rfl) | rfl) | rfl <;> decide

/-- … strictly: with Python's class (pinned code, finding C02-F4) EM SPACE is stripped and `12<U+2003>`
    becomes the integer literal `12`; with the XSD class it is kept and the text is not an integer. -/
theorem whitespace_counterexample :
    parseInt (wsCollapse isPyWs ['1', '2', Char.ofNat 0x2003]) = some 12 ∧
    parseInt (wsCollapse isXmlWs ['1', '2', Char.ofNat 0x2003]) = none := by decide

/-! ## 2. integers: lexical space, value, bounds, round trip -/

def IntLex (s : Str) (v : Int) : Prop :=
  ∃ (sg ds : Str), s = sg ++ ds ∧ (sg = [] ∨ sg = ['+'] ∨ sg = ['-']) ∧ ds ≠ [] ∧
    (∀ c ∈ ds, isDig c = true) ∧ v = (if sg = ['-'] then -(posVal ds : Int) else (posVal ds : Int))

/-- `integer_to_python` accepts exactly the XSD integer literals and returns their value -/
theorem parseInt_iff (s : Str) (v : Int) : parseInt s = some v ↔ IntLex s v := by
  unfold IntLex
  rcases splitSign_cases s with ⟨r, rfl, h⟩ | ⟨r, rfl, h⟩ | ⟨h1, h2, h⟩
  · rw [parseInt_of_split h]
    constructor
    · rintro ⟨hne, hd, hv⟩
      exact ⟨['-'], r, rfl, by simp, hne, hd, by simp [hv]⟩
    · rintro ⟨sg, ds, hs, hsg, hne, hd, hv⟩
      rcases hsg with rfl | rfl | rfl
      · exact absurd hs.symm (not_digit_sign hd '-' (by simp) r)
      · simp at hs
      · simp at hs; subst hs; exact ⟨hne, hd, by simp [hv]⟩
  · rw [parseInt_of_split h]
    constructor
    · rintro ⟨hne, hd, hv⟩
      exact ⟨['+'], r, rfl, by simp, hne, hd, by simp [hv]⟩
    · rintro ⟨sg, ds, hs, hsg, hne, hd, hv⟩
      rcases hsg with rfl | rfl | rfl
      · exact absurd hs.symm (not_digit_sign hd '+' (by simp) r)
      · simp at hs; subst hs; exact ⟨hne, hd, by simp [hv]⟩
      · simp at hs
  · rw [parseInt_of_split h]
    constructor
    · rintro ⟨hne, hd, hv⟩
      exact ⟨[], s, rfl, by simp, hne, hd, by simp [hv]⟩
    · rintro ⟨sg, ds, hs, hsg, hne, hd, hv⟩
      rcases hsg with rfl | rfl | rfl
      · simp at hs; subst hs; exact ⟨hne, hd, by simp [hv]⟩
      · exact absurd hs (h2 ds)
      · exact absurd hs (h1 ds)

example : IntLex "-007".toList (-7) := (parseInt_iff _ _).mp (by decide)

/-- XSD Part 2 §3.3.13–3.3.25: the bounds of the integer family, written from the recommendation -/
def xsdIntBounds : List (String × Option Int × Option Int) := [
  ("byte", some (-128), some 127),
  ("int", some (-2147483648), some 2147483647),
  ("integer", none, none),
  ("long", some (-9223372036854775808), some 9223372036854775807),
  ("negativeInteger", none, some (-1)),
  ("nonNegativeInteger", some 0, none),
  ("nonPositiveInteger", none, some 0),
  ("positiveInteger", some 1, none),
  ("short", some (-32768), some 32767),
  ("unsignedByte", some 0, some 255),
  ("unsignedInt", some 0, some 4294967295),
  ("unsignedLong", some 0, some 18446744073709551615),
  ("unsignedShort", some 0, some 65535)]

/-- the bounds in force in /repo (facet elements of the built-in types, dumped by import on every run)
    are the bounds of the recommendation -/
theorem intTable_eq_xsd : intTable.map (fun r => (r.1, r.2.2.1, r.2.2.2)) = xsdIntBounds := by decide

/-- for each of the 13 integer types the validator *function* that the code runs (helpers.py:168-237,
    ported in `FnV.intOk`) accepts exactly the values between the declared bounds -/
theorem int_family_bounds : ∀ r ∈ intTable, ∀ v : Int,
    (match r.2.1 with | some f => f.intOk v | none => true) = true ↔
    ((match r.2.2.1 with | some lo => lo ≤ v | none => True) ∧
     (match r.2.2.2 with | some hi => v ≤ hi | none => True)) := by
  intro r hr v
  simp only [intTable, List.mem_cons, List.mem_nil_iff, or_false] at hr
  rcases hr with rfl | rfl | rfl | rfl | rfl | rfl | rfl | rfl | rfl | rfl | rfl | rfl | rfl <;>
    simp [FnV.intOk] <;> omega

example : ("byte", some FnV.byte, some (-128 : Int), some (127 : Int)) ∈ intTable := by decide

/-- the Lean port of the range validators agrees with the real functions, called at every bound ±1 -/
theorem probes_agree : ∀ p ∈ probes, FnV.intOk p.1 p.2.1 = p.2.2 := by
  have h : probes.all (fun p => FnV.intOk p.1 p.2.1 == p.2.2) = true := by decide +kernel
  intro p hp
  have := List.all_eq_true.mp h p hp
  simpa using this

/-- encode then decode an integer: `integer_to_python (python_to_int v) = v` -/
theorem int_roundtrip (v : Int) : parseInt (intToStr v) = some v := by
  rw [parseInt_iff]
  unfold intToStr
  by_cases hv : v < 0
  · obtain ⟨h1, h2, h3⟩ := natDigits_spec v.natAbs
    refine ⟨['-'], natDigits v.natAbs, by simp [hv], by simp, h2, h3, ?_⟩
    simp only [if_true, ← natOfDigits_eq_posVal, h1]; omega
  · obtain ⟨h1, h2, h3⟩ := natDigits_spec v.natAbs
    refine ⟨[], natDigits v.natAbs, by simp [hv], by simp, h2, h3, ?_⟩
    simp only [← natOfDigits_eq_posVal, h1]
    simp; omega

example : intToStr (-120) = "-120".toList := by decide

/-! ## 3. boolean -/

/-- `XSD_BOOLEAN_MAP` (dumped from /repo) is the lexical mapping of xs:boolean -/
theorem boolean_lex (s : Str) (b : Bool) : lookupBool booleanMap s = some b ↔
    ((s = "true".toList ∨ s = "1".toList) ∧ b = true) ∨ ((s = "false".toList ∨ s = "0".toList) ∧ b = false) := by
  simp only [lookupBool, booleanMap, List.find?_cons, List.find?_nil]
  by_cases h1 : "false".toList = s
  · subst h1; cases b <;> simp
  · by_cases h2 : "0".toList = s
    · subst h2; cases b <;> simp
    · by_cases h3 : "true".toList = s
      · subst h3; cases b <;> simp
      · by_cases h4 : "1".toList = s
        · subst h4; cases b <;> simp
        · have e1 : (['f', 'a', 'l', 's', 'e'] == s) = false := by simpa using h1
          have e2 : (['0'] == s) = false := by simpa using h2
          have e3 : (['t', 'r', 'u', 'e'] == s) = false := by simpa using h3
          have e4 : (['1'] == s) = false := by simpa using h4
          have h1' : s ≠ ['f', 'a', 'l', 's', 'e'] := fun h => h1 (by simp [h])
          have h2' : s ≠ ['0'] := fun h => h2 (by simp [h])
          have h3' : s ≠ ['t', 'r', 'u', 'e'] := fun h => h3 (by simp [h])
          have h4' : s ≠ ['1'] := fun h => h4 (by simp [h])
          simp [e1, e2, e3, e4, h1', h2', h3', h4']

/-! ## 4. facets, restriction, list, union -/

/-- all validators pass iff every facet in force is satisfied -/
theorem facets_all (E : Env) (fs : List Facet) (v : Val) :
    facetErrs E fs v = [] ↔ ∀ f ∈ fs, f.ok E v = true := facetErrs_nil_iff E fs v

/-- the bound facets on integers use exactly the comparison of their name -/
theorem facet_bounds_int (E : Env) (b v : Int) :
    ((Facet.minInclusive (.int b)).ok E (.atom (.int v)) = true ↔ b ≤ v) ∧
    ((Facet.minExclusive (.int b)).ok E (.atom (.int v)) = true ↔ b < v) ∧
    ((Facet.maxInclusive (.int b)).ok E (.atom (.int v)) = true ↔ v ≤ b) ∧
    ((Facet.maxExclusive (.int b)).ok E (.atom (.int v)) = true ↔ v < b) := by
  simp [Facet.ok, ltLe, Val.num?, AVal.num?, Dec.lt, Dec.le, Dec.ofInt, Dec.toInt]
  refine ⟨?_, ?_, ?_, ?_⟩ <;> (split <;> split <;> omega)

/-- the length facets on strings count characters, on lists items -/
theorem facet_length (E : Env) (n : Nat) (s : Str) (l : List (Option AVal)) :
    ((Facet.length n).ok E (.atom (.str s)) = true ↔ s.length = n) ∧
    ((Facet.minLength n).ok E (.atom (.str s)) = true ↔ n ≤ s.length) ∧
    ((Facet.maxLength n).ok E (.atom (.str s)) = true ↔ s.length ≤ n) ∧
    ((Facet.length n).ok E (.list l) = true ↔ l.length = n) ∧
    ((Facet.minLength n).ok E (.list l) = true ↔ n ≤ l.length) ∧
    ((Facet.maxLength n).ok E (.list l) = true ↔ l.length ≤ n) := by
  simp [Facet.ok, Val.len?]

/-- restriction: valid iff own pattern, base (on the text normalised by the restriction) and own facets -/
theorem restriction_valid_iff (E : Env) (C : Conv) (base : SType) (ws : WsMode) (pat : Option Nat)
    (fs : List Facet) (s : Str) :
    (decode E C (.restr base ws pat fs) s).valid = true ↔
      (∀ id, pat = some id → E.P id (normalize E.W ws s) = some true) ∧
      (decode E C base (normalize E.W ws s)).valid = true ∧
      ((decode E C base (normalize E.W ws s)).val ≠ .none →
        ∀ f ∈ fs, f.ok E (decode E C base (normalize E.W ws s)).val = true) := by
  simp only [decode, Res.valid, List.isEmpty_iff, List.append_eq_nil_iff, patErrs_nil_iff]
  constructor
  · rintro ⟨⟨h1, h2⟩, h3⟩
    refine ⟨h1, h2, ?_⟩
    intro hv
    cases hval : (decode E C base (normalize E.W ws s)).val with
    | none => exact absurd hval hv
    | atom a => rw [hval] at h3; exact (facetErrs_nil_iff E fs _).mp h3
    | list l => rw [hval] at h3; exact (facetErrs_nil_iff E fs _).mp h3
  · rintro ⟨h1, h2, h3⟩
    refine ⟨⟨h1, h2⟩, ?_⟩
    cases hval : (decode E C base (normalize E.W ws s)).val with
    | none => rfl
    | atom a => rw [hval] at h3; exact (facetErrs_nil_iff E fs _).mpr (h3 (by simp))
    | list l => rw [hval] at h3; exact (facetErrs_nil_iff E fs _).mpr (h3 (by simp))

theorem restriction_narrows (E : Env) (C : Conv) (base : SType) (ws : WsMode) (pat : Option Nat)
    (fs : List Facet) (s : Str) (h : (decode E C (.restr base ws pat fs) s).valid = true) :
    (decode E C base (normalize E.W ws s)).valid = true ∧
    (decode E C (.restr base ws pat fs) s).val = (decode E C base (normalize E.W ws s)).val :=
  ⟨((restriction_valid_iff E C base ws pat fs s).mp h).2.1, by simp [decode]⟩

/-- union: the outcome is that of the first member (in declaration order) that accepts the text;
    the union accepts iff some member does -/
theorem union_first_match (E : Env) (C : Conv) (ms : STypes) (s : Str) :
    ((decode E C (.union ms) s).valid = true ↔ ∃ t ∈ ms.toList, (decode E C t s).valid = true) ∧
    (∀ pre t post, ms.toList = pre ++ t :: post → (∀ u ∈ pre, (decode E C u s).valid = false) →
      (decode E C t s).valid = true → decode E C (.union ms) s = decode E C t s) := by
  have hall := decodeAll_eq E C ms s
  constructor
  · simp only [decode, unionRes, hall]
    cases hf : firstValid (ms.toList.map fun t => decode E C t s) with
    | some r =>
      obtain ⟨hm, hv, -⟩ := firstValid_some hf
      simp only [hv, true_iff]
      obtain ⟨t, ht, rfl⟩ := List.mem_map.mp hm
      exact ⟨t, ht, hv⟩
    | none =>
      have hn := firstValid_none.mp hf
      have : ¬ ∃ t ∈ ms.toList, (decode E C t s).valid = true := by
        rintro ⟨t, ht, hv⟩
        have := hn _ (List.mem_map.mpr ⟨t, ht, rfl⟩)
        simp [hv] at this
      simp only [this, iff_false]
      cases hd : firstNonDecode (ms.toList.map fun t => decode E C t s) with
      | some r => simp [(firstNonDecode_invalid hd).2]
      | none => simp [Res.valid]
  · intro pre t post hsplit hpre hv
    simp only [decode, unionRes, hall, hsplit, List.map_append, List.map_cons]
    have : firstValid (pre.map (fun t => decode E C t s) ++ decode E C t s :: post.map (fun t => decode E C t s))
        = some (decode E C t s) := by
      clear hsplit
      induction pre with
      | nil => simp [firstValid, hv]
      | cons a p ih =>
        have ha := hpre a (by simp)
        simp only [List.map_cons, List.cons_append, firstValid, ha]
        exact ih (fun u hu => hpre u (by simp [hu]))
    simp [this]

/-- list: split the collapsed text at white space; valid iff every item is valid for the item type;
    the value is the list of the item values (guard: the item type is not itself a list) -/
theorem list_itemwise (E : Env) (C : Conv) (item : SType) (s : Str)
    (hnl : ∀ w ∈ words E.W (normalize E.W .collapse s), (itemOf (decode E C item w)).isSome = true) :
    ((decode E C (.list item) s).valid = true ↔
      ∀ w ∈ words E.W (normalize E.W .collapse s), (decode E C item w).valid = true) ∧
    (decode E C (.list item) s).val =
      .list ((words E.W (normalize E.W .collapse s)).filterMap fun w => itemOf (decode E C item w)) := by
  have hall : ((words E.W (normalize E.W .collapse s)).map (decode E C item)).all
      (fun r => (itemOf r).isSome) = true := by
    simp only [List.all_map, List.all_eq_true]
    intro w hw; exact hnl w hw
  constructor
  · simp only [decode, listRes, hall, if_true, Res.valid, List.isEmpty_iff]
    simp [List.flatten_eq_nil_iff]
  · simp only [decode, listRes, hall, if_true, List.filterMap_map]
    rfl

/-! ## 5. named witnesses of the findings (replayed on the real code by the harness) -/

/-- C02-F5 (pinned `count_digits`): the zero `0.0000000` is given 6 fraction digits; repaired: none -/
theorem countDigits_counterexample :
    countDigitsDec false ⟨false, 0, 7⟩ = (0, 6) ∧ countDigitsDec true ⟨false, 0, 7⟩ = (0, 0) := by decide

/-- C02-F6: XSD 1.1, years above 9999: leap test on year+1 (elementpath) -/
theorem leap_year_counterexample :
    parseDt .date true "10000-02-29".toList = none ∧ isLeap 10000 = true ∧
    (parseDt .date true "10003-02-29".toList).isSome = true ∧ isLeap 10003 = false := by decide

/-- C02-F7: the duration sub-types check the value, not the literal -/
theorem duration_lexical_counterexample :
    (parseDur .dayTimeDuration "P0Y1D".toList).isSome = true ∧
    (parseDur .yearMonthDuration "P1YT0S".toList).isSome = true := by decide

/-- C02-F11: `==` of date/time objects reads a missing time zone as UTC -/
theorem timezone_equality_counterexample :
    dtCompare true ⟨.gDay, 2000, 1, 15, 0, 0, 0, 0, none⟩ ⟨.gDay, 2000, 1, 15, 0, 0, 0, 0, some 0⟩ = some .eq := by
  decide

/-- time zones accepted by the date/time parsers lie within ±14:00 -/
theorem timezone_range (s : Str) (z : Int) (h : parseTz s = some (some z)) : -840 ≤ z ∧ z ≤ 840 := by
  unfold parseTz at h
  split at h
  · simp at h
  · simp at h; omega
  · split at h
    · simp at h
      obtain ⟨hc, hz⟩ := h
      split at hz <;> omega
    · simp at h
  · simp at h


/-! ## 6. decimals: lexical space, value, order, digit counting, round trip

  Specs (Lemmas/DatatypesDec.lean, DatatypesEnc.lean):
  `DecLex s d`      s = sign? ++ (digits+ ('.' digits*)? | '.' digits+), d = ⟨sign, ip ++ fp as a numeral, |fp|⟩
  `Dec.toRat d`     the rational ±coef / 10^scale
  `IntDigits q I`   I = length of the decimal numeral of q (0 for 0)
  `FracDigits c s F`  F = least number of places that writes c / 10^s exactly -/

/-- `decimal_to_python` accepts exactly the XSD decimal literals and returns sign, digits and exponent
    of the literal … -/
theorem parseDec_iff (s : Str) (d : Dec) : parseDec s = some d ↔ DecLex s d := parseDec_iff' s d

example : DecLex "-.50".toList ⟨true, 50, 2⟩ := (parseDec_iff _ _).mp (by decide)
example : ¬ DecLex "1 2".toList ⟨false, 12, 0⟩ := fun h => by
  have := (parseDec_iff _ _).mpr h; revert this; decide

/-- … which denote the rational  ±(integer digits + fraction digits / 10^|fraction digits|) -/
theorem decimal_value (neg : Bool) (ip fp : Str) :
    Dec.toRat ⟨neg, posVal (ip ++ fp), fp.length⟩ =
      (if neg then -1 else 1) * ((posVal ip : Rat) + (posVal fp : Rat) / (10 : Rat) ^ fp.length) :=
  dec_value neg ip fp

/-- the comparisons the model (and Python's exact `Decimal` comparison) makes are the order of the
    rationals denoted -/
theorem dec_order (a b : Dec) :
    (a.le b = true ↔ a.toRat ≤ b.toRat) ∧ (a.lt b = true ↔ a.toRat < b.toRat) ∧
    (a.eqv b = true ↔ a.toRat = b.toRat) ∧ ∀ i : Int, (Dec.ofInt i).toRat = (i : Rat) :=
  ⟨dec_le_iff a b, dec_lt_iff a b, dec_eqv_iff a b, ofInt_toRat⟩

example : (Dec.mk false 150 2).eqv ⟨false, 15, 1⟩ = true ∧ (Dec.mk true 1 1).lt ⟨true, 0, 5⟩ = true := by decide

/-- the four bound facets on numbers (xs:decimal and the integer types, bound and value each an `int` or a
    `Decimal`) are ≤, <, ≥, > of the rationals denoted -/
theorem facet_bounds_dec (E : Env) (v b : AVal) (x y : Dec)
    (hv : v = .dec x ∨ ∃ i, v = .int i ∧ x = Dec.ofInt i) (hb : b = .dec y ∨ ∃ i, b = .int i ∧ y = Dec.ofInt i) :
    ((Facet.minInclusive b).ok E (.atom v) = true ↔ y.toRat ≤ x.toRat) ∧
    ((Facet.minExclusive b).ok E (.atom v) = true ↔ y.toRat < x.toRat) ∧
    ((Facet.maxInclusive b).ok E (.atom v) = true ↔ x.toRat ≤ y.toRat) ∧
    ((Facet.maxExclusive b).ok E (.atom v) = true ↔ x.toRat < y.toRat) := by
  have key : ltLe E (.atom v) b = some (x.lt y, x.le y) := by
    rcases hv with rfl | ⟨i, rfl, rfl⟩ <;> rcases hb with rfl | ⟨j, rfl, rfl⟩ <;>
      simp [ltLe, Val.num?, AVal.num?]
  have h1 := dec_lt_iff x y
  have h2 := dec_le_iff x y
  simp only [Facet.ok, key]
  refine ⟨?_, ?_, h2, h1⟩
  · rw [← Rat.not_lt, ← h1]; simp
  · rw [← Rat.not_le, ← h2]; simp

/-- an environment for the examples: XSD white space, repaired `count_digits`, no patterns -/
def exEnv : Env := ⟨isXmlWs, true, fun _ _ => none, fun _ _ => none, fun _ _ => none⟩

example : (Facet.maxExclusive (.int 2)).ok exEnv (.atom (.dec ⟨false, 199, 2⟩)) = true := by decide

/-- `count_digits(str(Decimal))` (repaired, fix de12daf) = (digits of the integer part, least number of
    fraction digits) of the value, for each of the three shapes `str(Decimal)` takes -/
theorem count_digits_spec (d : Dec) :
    IntDigits (d.coef / 10 ^ d.scale) (countDigitsDec true d).1 ∧
    FracDigits d.coef d.scale (countDigitsDec true d).2 := countDigitsDec_spec d

example : countDigitsDec true ⟨false, 1230, 10⟩ = (0, 9) ∧ countDigitsDec true ⟨false, 0, 7⟩ = (0, 0) ∧
    countDigitsDec true ⟨true, 123450, 3⟩ = (3, 2) := by decide

/-- XSD Part 2 §4.3.11/12 on xs:decimal: `fractionDigits = n` admits |v| = i / 10^m with m ≤ n;
    `totalDigits = n` admits |v| = i / 10^m with m ≤ n and i < 10^n.  The implementation tests
    `fraction ≤ n` resp. `integer + fraction ≤ n` on the result of `count_digits`. -/
theorem facet_digits_dec (E : Env) (hfix : E.cdFix = true) (n : Nat) (d : Dec) :
    ((Facet.fractionDigits n).ok E (.atom (.dec d)) = true ↔
      ∃ i m, m ≤ n ∧ d.coef * 10 ^ m = i * 10 ^ d.scale) ∧
    ((Facet.totalDigits n).ok E (.atom (.dec d)) = true ↔
      ∃ i m, m ≤ n ∧ i < 10 ^ n ∧ d.coef * 10 ^ m = i * 10 ^ d.scale) := by
  obtain ⟨hI, hF⟩ := countDigitsDec_spec d
  simp only [Facet.ok, Val.digits?, hfix, decide_eq_true_eq]
  exact ⟨frac_le_iff hF, total_le_iff hI hF⟩

/-- on the integer types `totalDigits = n` admits |v| < 10^n -/
theorem facet_totalDigits_int (E : Env) (n : Nat) (i : Int) :
    (Facet.totalDigits n).ok E (.atom (.int i)) = true ↔ i.natAbs < 10 ^ n := by
  have h := dropZeros_spec (natDigits i.natAbs) (natDigits_spec i.natAbs).2.2
  rw [posVal_natDigits] at h
  simp only [Facet.ok, Val.digits?, countDigitsInt, Nat.add_zero, decide_eq_true_eq]
  generalize ((natDigits i.natAbs).dropWhile (· == '0')).length = I at h
  rcases h with ⟨a, b⟩ | ⟨a, b, c⟩
  · rw [a, b]; simp; exact Nat.pow_pos (by omega)
  · constructor
    · intro hn; exact Nat.lt_of_lt_of_le c (Nat.pow_le_pow_right (by omega) hn)
    · intro hn
      have := (Nat.pow_lt_pow_iff_right (by omega : 1 < 10)).mp (Nat.lt_of_le_of_lt b hn)
      omega

example : (Facet.totalDigits 3).ok exEnv (.atom (.int (-999))) = true ∧
    (Facet.totalDigits 3).ok exEnv (.atom (.int 1000)) = false := by decide

/-- encode then decode an xs:decimal (plain notation, fix 1f6f95f): same sign, digits and exponent -/
theorem decimal_roundtrip (d : Dec) : parseDec (decPlain d) = some d := parseDec_decPlain d

example : decPlain ⟨true, 1, 7⟩ = "-0.0000001".toList ∧ decPlain ⟨false, 12300, 2⟩ = "123.00".toList := by decide

/-! ## 7. collapse: shape and idempotence -/

/-- the collapsed text contains no white character other than single interior blanks (no tab/LF/CR, no
    leading or trailing blank, no two adjacent blanks) and collapsing it again changes nothing -/
theorem normalize_collapse_spec (W : Char → Bool) (hsp : W ' ' = true) (s : Str) :
    (∀ c ∈ wsCollapse W s, W c = true → c = ' ') ∧
    (∀ x, (wsCollapse W s).head? = some x → W x = false) ∧
    (∀ x, (wsCollapse W s).getLast? = some x → W x = false) ∧
    (∀ pre a c post, wsCollapse W s = pre ++ a :: c :: post → ¬ (W a = true ∧ W c = true)) ∧
    wsCollapse W (wsCollapse W s) = wsCollapse W s := by
  have h := wsCollapse_sqz W hsp s
  have hl : ∀ x, (wsCollapse W s).getLast? = some x → W x = false := by
    unfold wsCollapse strip; exact rstrip_last W _
  obtain ⟨h1, h2, h3⟩ := sqz_spec W true _ h
  exact ⟨h1, h2 rfl, hl, h3, wsCollapse_fix W _ h hl⟩

example : wsCollapse isXmlWs " \t a \r\n  b\t".toList = "a b".toList := by decide

/-! ## 8. binaries and boolean: lexical spaces, length in octets, round trips
    (specs `HexLex`, `hexOctets`, `B64Lex` in Lemmas/DatatypesBin.lean) -/

/-- `HexBinary.validate` accepts exactly sequences of pairs of hex digits; `len()` (length facets) is the
    number of pairs = octets -/
theorem hexBinary_lex (s : Str) :
    (hexOk s = true ↔ ∃ n, HexLex s n) ∧ ∀ n, HexLex s n → Val.len? (.atom (.hex s)) = some n :=
  ⟨hexOk_iff s, fun n h => hex_len s n h⟩

example : HexLex "0aFF".toList 2 := ⟨[('0', 'a'), ('F', 'F')], by decide, by decide, rfl⟩

/-- equality of hexBinary values in the model (upper-cased literals) is equality of the octets denoted -/
theorem hexBinary_eq_octets (a b : Str) (ha : hexOk a = true) (hb : hexOk b = true) :
    (hexUp a = hexUp b ↔ hexOctets a = hexOctets b) ∧
    (hexOctets a).length = a.length / 2 ∧ ∀ o ∈ hexOctets a, o < 256 :=
  ⟨hex_eq_iff_octets a b ha hb, hexOctets_length a ha⟩

example : hexOctets "0aFF".toList = [10, 255] := by decide

/-- `str(HexBinary)` (upper case) is a literal of the same value and length -/
theorem hexBinary_roundtrip (de : DtVal → DtVal → Bool) (s : Str) (h : hexOk s = true) :
    hexOk (encHex s) = true ∧ AVal.pyEq de (.hex (encHex s)) (.hex s) = true ∧
    Val.len? (.atom (.hex (encHex s))) = Val.len? (.atom (.hex s)) := hex_roundtrip de s h

/-- `Base64Binary(value)` accepts exactly the XSD base64Binary literals (blanks removed); `len()` is the
    number of octets -/
theorem base64_lex (s t : Str) :
    (parseB64 s = some t ↔ (t = s.filter (· != ' ') ∧ ∃ n, B64Lex t n)) ∧
    ∀ n, B64Lex t n → Val.len? (.atom (.b64 t)) = some n :=
  ⟨parseB64_iff s t, fun n h => by simp [Val.len?, b64_len t n h]⟩

example : B64Lex "YWJjYQ==".toList 4 :=
  Or.inr ⟨["YWJj".toList], "YQ==".toList, 1, by decide, by
    intro q hq; simp at hq; subst hq; exact ⟨'Y', 'W', 'J', 'j', by decide⟩,
    ⟨'Y', 'Q', '=', '=', by decide⟩, rfl⟩

/-- `str(Base64Binary)` is the stored literal: decoding it again gives the same value -/
theorem base64_roundtrip (s t : Str) (h : parseB64 s = some t) : parseB64 (encB64 t) = some t :=
  b64_roundtrip s t h

/-- `boolean_to_python(python_to_boolean(b)) = b` on the map dumped from /repo -/
theorem boolean_roundtrip (b : Bool) : lookupBool booleanMap (encBool b) = some b := by
  cases b <;> decide

/-- on the decode path the text reaches `HexBinary(…)` / `Base64Binary(…)` collapsed by xmlschema; elementpath
    collapses once more with its own class (`epCollapse`): when the text has no white space outside the XSD
    class this changes nothing, so the three theorems above describe what `decode` accepts -/
theorem binary_second_collapse (s : Str) (h : ∀ c ∈ s, isEpWs c = true → isXmlWs c = true) :
    epCollapse (wsCollapse isXmlWs s) = wsCollapse isXmlWs s := epCollapse_collapsed s h

example : epCollapse (wsCollapse isXmlWs " 0a\t".toList) = "0a".toList := by decide

/-- … and when it has (C02-F4, call site elementpath binary.py:56-61): EM SPACE survives the XSD collapse, is
    removed by elementpath, and `4a<U+2003>` is accepted as xs:hexBinary, `Y<U+2003>WJj` as xs:base64Binary -/
theorem binary_whitespace_counterexample :
    hexOk (wsCollapse isXmlWs ['4', 'a', Char.ofNat 0x2003]) = false ∧
    hexOk (epCollapse (wsCollapse isXmlWs ['4', 'a', Char.ofNat 0x2003])) = true ∧
    parseB64 (wsCollapse isXmlWs ['Y', Char.ofNat 0x2003, 'W', 'J', 'j']) = none ∧
    parseB64 (epCollapse (wsCollapse isXmlWs ['Y', Char.ofNat 0x2003, 'W', 'J', 'j'])) = some "YWJj".toList := by
  decide

/-! ## 9. xs:date end to end: lexical grammar against the port of `Date.fromstring` + constructor
    (specs `TzLex`, `DateLex`, `DateJudged` in Lemmas/DatatypesDateLex.lean) -/

/-- the time-zone part: `Z | (+|-)hh:mm` with hh:mm ≤ 14:00, value in minutes -/
theorem timezone_lex (s : Str) (tz : Tz) : parseTz s = some tz ↔ TzLex s tz := parseTz_iff s tz

/-- FULL statement (false for the code: `date_lex_counterexample`, finding C02-F6):
      ∀ v11 s v, parseDt .date v11 s = some v ↔ DateLex v11 s v
    proved for the years the check judges (`DateJudged`: XSD 1.1 from −2³¹ to 9999, XSD 1.0 from 1 to 2³¹):
    the constructor accepts exactly  -?yyyy+-mm-dd(tz)?  with no superfluous leading zero, no year 0 in 1.0,
    month 1..12, day within the month of the proleptic Gregorian calendar, time zone within ±14:00, and
    returns those fields (1.1 stores non-positive years shifted by one) -/
theorem date_lex_partial (v11 : Bool) (s : Str) (v : DtVal) (hg : DateJudged v11 v.year) :
    parseDt .date v11 s = some v ↔ DateLex v11 s v := XsVerif.Datatypes.date_lex_partial v11 s v hg

example : DateLex true "2000-02-29+14:00".toList ⟨.date, 2000, 2, 29, 0, 0, 0, 0, some 840⟩ :=
  (date_lex_partial true _ _ (by decide)).mp (by decide)
example : parseDt .date false "1900-02-29".toList = none := by decide

/-- the guard is needed: 10000-02-29 is an xs:date (10000 is a leap year) and the constructor refuses it -/
theorem date_lex_counterexample :
    DateLex true "10000-02-29".toList ⟨.date, 10000, 2, 29, 0, 0, 0, 0, none⟩ ∧
    parseDt .date true "10000-02-29".toList = none := XsVerif.Datatypes.date_lex_counterexample

/-- FULL statement (false for the code: `date_roundtrip_counterexample`, finding C02-F10):
      ∀ v11 s v, parseDt .date v11 s = some v → parseDt .date v11 (dateStr v11 v) = some v
    i.e. `str(Date)` of a decoded xs:date decodes to the same value (year with the 1.1 shift undone, two-digit
    month and day, `Z`/`±hh:mm`); proved for every year except XSD 1.1 years below −9999 -/
theorem date_roundtrip_partial (v11 : Bool) (s : Str) (v : DtVal)
    (h : parseDt .date v11 s = some v) (hg : DateRtJudged v11 v.year) :
    parseDt .date v11 (dateStr v11 v) = some v := XsVerif.Datatypes.date_roundtrip_partial v11 s v h hg

example : dateStr true ⟨.date, -1, 2, 29, 0, 0, 0, 0, some (-300)⟩ = "0000-02-29-05:00".toList ∧
    parseDt .date true "0000-02-29-05:00".toList = some ⟨.date, -1, 2, 29, 0, 0, 0, 0, some (-300)⟩ := by decide

/-- C02-F10: XSD 1.1, '-9999-01-01' decodes to year −10000, is written '-10000-01-01', which decodes to −10001 -/
theorem date_roundtrip_counterexample :
    parseDt .date true "-9999-01-01".toList = some ⟨.date, -10000, 1, 1, 0, 0, 0, 0, none⟩ ∧
    dateStr true ⟨.date, -10000, 1, 1, 0, 0, 0, 0, none⟩ = "-10000-01-01".toList ∧
    parseDt .date true "-10000-01-01".toList = some ⟨.date, -10001, 1, 1, 0, 0, 0, 0, none⟩ :=
  XsVerif.Datatypes.date_roundtrip_counterexample

/-! ## 10. pattern facets (regular-expression subset) and the patterns of restricted unions -/

/-- the matcher the model runs for the patterns of the subset decides the language of the expression
    (`Rx.Lang`: ∅, ε, character class, concatenation, alternation, counted repetition; anchored) -/
theorem pattern_matcher_decides (r : CRx) (s : Str) : rxMatch r s = true ↔ CRx.Lang r s := rxMatch_iff r s

/-- `[0-9]{3}|true` -/
def exCode : CRx := .alt (.rep (.sym ⟨false, [(48, 57)]⟩) 3 (some 3))
  (.cat (.sym ⟨false, [(116, 116)]⟩) (.cat (.sym ⟨false, [(114, 114)]⟩) (.cat (.sym ⟨false, [(117, 117)]⟩)
    (.sym ⟨false, [(101, 101)]⟩))))
example : rxMatch exCode "123".toList = true ∧ rxMatch exCode "true".toList = true ∧
    rxMatch exCode "12".toList = false ∧ rxMatch exCode "2020-01-01".toList = false := by decide

/-- a pattern group of the table is accepted by the environment's `P` exactly for the texts in the language of
    one of its patterns (the patterns of one derivation step are alternatives) -/
theorem pattern_group_lang (tab : PatTable) (tr : List (Nat × Str × Bool)) (id : Nat) (g : List CRx) (t : Str)
    (h : tab.lookup id = some g) : mkP tab tr id t = some true ↔ ∃ r ∈ g, CRx.Lang r t :=
  mkP_table tab tr id g t h

example : mkP [(7, [exCode])] [] 7 "true".toList = some true := by decide

/-- whatever a decode pushes into `context.patterns` is taken out again before it returns: a decode that starts
    with an empty slot ends with an empty slot (no pattern outlives the value it belongs to) -/
theorem context_patterns_restored (E : Env) (C : Conv) (chain : Bool) (t : SType) (s : Str) :
    (decodeS E C chain t [] s).2.1 = [] := slot_empty E C chain t s

/-- the values of one document, decoded one after the other in one validation context, are each judged as on
    their own: by their own type only -/
theorem document_values_independent (E : Env) (C : Conv) (chain : Bool) :
    ∀ items : List (SType × Str),
      decodeSeq E C chain [] items = (items.map fun x => decodeTop E C chain x.1 x.2, [])
  | [] => rfl
  | (t, s) :: rest => by
    simp only [decodeSeq, List.map_cons, decodeTop, slot_empty E C chain t s]
    rw [document_values_independent E C chain rest]
    rfl

/-- the members of a union never see the patterns pushed for the union, and their own patterns are in force:
    each member is decoded exactly as on its own -/
theorem union_members_standalone (E : Env) (C : Conv) (chain : Bool) (ms : STypes) (σ : Slot) (s : Str) :
    (decodeS E C chain (.union ms) σ s).1 =
      unionResS E σ s (ms.toList.map fun m => (m, decodeTop E C chain m s, strictDecodeErr E C chain m s)) := by
  simp only [decodeS, decodeAllS_standalone, decodeTop, strictDecodeErr]

/-- in strict mode a union without a matching member raises a decode error, whatever its members raised: as a member
    of another union it is skipped like a member that fails to decode (and is never the `xsd_type` of the lax retry) -/
theorem union_strict_error_class (E : Env) (C : Conv) (chain : Bool) (ms : STypes) (s : Str) :
    strictDecodeErr E C chain (.union ms) s = true ↔ ∀ m ∈ ms.toList, (decodeTop E C chain m s).valid = false := by
  simp [strictDecodeErr, decodeS, decodeAllS_standalone, decodeTop]

/-- a union restricted by a pattern group `p` (and facets `fs`): valid iff there is a FIRST member that accepts
    the text, the group accepts the text as that member normalises it, and the facets hold for that member's
    value; the value is that member's -/
theorem union_pattern_first_match (E : Env) (C : Conv) (chain : Bool) (ms : STypes) (ws : WsMode) (p : Nat)
    (fs : List Facet) (s : Str) :
    ((decodeTop E C chain (.restr (.union ms) ws (some p) fs) s).valid = true ↔
      ∃ pre m post, ms.toList = pre ++ m :: post ∧
        (∀ u ∈ pre, (decodeTop E C chain u (normalize E.W ws s)).valid = false) ∧
        (decodeTop E C chain m (normalize E.W ws s)).valid = true ∧
        E.P p (normalize E.W (wsOf m) (normalize E.W ws s)) = some true ∧
        ((decodeTop E C chain m (normalize E.W ws s)).val ≠ .none →
          ∀ f ∈ fs, f.ok E (decodeTop E C chain m (normalize E.W ws s)).val = true)) ∧
    (∀ pre m post, ms.toList = pre ++ m :: post →
        (∀ u ∈ pre, (decodeTop E C chain u (normalize E.W ws s)).valid = false) →
        (decodeTop E C chain m (normalize E.W ws s)).valid = true →
        (decodeTop E C chain (.restr (.union ms) ws (some p) fs) s).val =
          (decodeTop E C chain m (normalize E.W ws s)).val) := by
  have hform : decodeTop E C chain (.restr (.union ms) ws (some p) fs) s =
      ⟨(unionResS E [p] (normalize E.W ws s)
          (ms.toList.map fun m => (m, decodeTop E C chain m (normalize E.W ws s),
            strictDecodeErr E C chain m (normalize E.W ws s)))).val,
        (unionResS E [p] (normalize E.W ws s)
          (ms.toList.map fun m => (m, decodeTop E C chain m (normalize E.W ws s),
            strictDecodeErr E C chain m (normalize E.W ws s)))).errs ++
        (match (unionResS E [p] (normalize E.W ws s)
          (ms.toList.map fun m => (m, decodeTop E C chain m (normalize E.W ws s),
            strictDecodeErr E C chain m (normalize E.W ws s)))).val with
          | .none => []
          | v => facetErrs E fs v)⟩ := by
    simp [decodeTop, strictDecodeErr, decodeS, primIsUnion, push, decodeAllS_standalone]
    generalize (unionResS E [p] _ _).val = v
    cases v <;> rfl
  generalize hrs : (ms.toList.map fun m => (m, decodeTop E C chain m (normalize E.W ws s),
    strictDecodeErr E C chain m (normalize E.W ws s))) = rs at hform
  have hsplit : ∀ x, firstValidM rs = some x ↔ ∃ pre m post, ms.toList = pre ++ m :: post ∧
      (∀ u ∈ pre, (decodeTop E C chain u (normalize E.W ws s)).valid = false) ∧
      (decodeTop E C chain m (normalize E.W ws s)).valid = true ∧
      x = (m, decodeTop E C chain m (normalize E.W ws s), strictDecodeErr E C chain m (normalize E.W ws s)) := by
    intro x
    rw [firstValidM_some_iff, ← hrs]
    constructor
    · rintro ⟨pre', post', h, hpre, hx⟩
      obtain ⟨pre, rest, hL, hpre_eq, hrest⟩ := List.map_eq_append_iff.mp h
      obtain ⟨m, post, hrest_eq, hm, hpost⟩ := List.map_eq_cons_iff.mp hrest
      refine ⟨pre, m, post, by rw [hL, hrest_eq], ?_, ?_, hm.symm⟩
      · intro u hu
        have := hpre (u, decodeTop E C chain u (normalize E.W ws s), strictDecodeErr E C chain u (normalize E.W ws s)) (by
          rw [← hpre_eq]; exact List.mem_map.mpr ⟨u, hu, rfl⟩)
        exact this
      · rw [← hm] at hx; exact hx
    · rintro ⟨pre, m, post, hL, hpre, hm, rfl⟩
      refine ⟨pre.map (fun m => (m, decodeTop E C chain m (normalize E.W ws s),
          strictDecodeErr E C chain m (normalize E.W ws s))),
        post.map (fun m => (m, decodeTop E C chain m (normalize E.W ws s),
          strictDecodeErr E C chain m (normalize E.W ws s))), by simp [hL], ?_, hm⟩
      intro y hy
      obtain ⟨u, hu, rfl⟩ := List.mem_map.mp hy
      exact hpre u hu
  constructor
  · rw [hform]
    have hmk : ∀ (v : Val) (e : List Err), (Res.mk v e).valid = true ↔ e = [] := by
      intro v e; simp [Res.valid]
    have hU : (unionResS E [p] (normalize E.W ws s) rs).errs = [] ↔
        (unionResS E [p] (normalize E.W ws s) rs).valid = true := by simp [Res.valid]
    rw [hmk, List.append_eq_nil_iff, hU, unionResS_valid_iff E [p] (normalize E.W ws s) rs]
    constructor
    · rintro ⟨⟨x, hx, hpat⟩, hfac⟩
      obtain ⟨pre, m, post, hL, hpre, hm, rfl⟩ := (hsplit x).mp hx
      refine ⟨pre, m, post, hL, hpre, hm, ?_, ?_⟩
      · rw [slotErrs_single] at hpat
        exact (patErrs_nil_iff E (some p) _).mp hpat p rfl
      · intro hne
        rw [unionResS_val E [p] _ rs _ hx] at hfac
        cases hval : (decodeTop E C chain m (normalize E.W ws s)).val with
        | none => exact absurd hval hne
        | atom a => simp only [hval] at hfac; exact (facetErrs_nil_iff E fs _).mp hfac
        | list l => simp only [hval] at hfac; exact (facetErrs_nil_iff E fs _).mp hfac
    · rintro ⟨pre, m, post, hL, hpre, hm, hpat, hfac⟩
      have hx := (hsplit (m, decodeTop E C chain m (normalize E.W ws s),
        strictDecodeErr E C chain m (normalize E.W ws s))).mpr ⟨pre, m, post, hL, hpre, hm, rfl⟩
      refine ⟨⟨_, hx, ?_⟩, ?_⟩
      · rw [slotErrs_single]
        exact (patErrs_nil_iff E (some p) _).mpr (fun id hid => by cases hid; exact hpat)
      · rw [unionResS_val E [p] _ rs _ hx]
        cases hval : (decodeTop E C chain m (normalize E.W ws s)).val with
        | none => rfl
        | atom a => simp only [hval] at hfac ⊢; exact (facetErrs_nil_iff E fs _).mpr (hfac (by simp))
        | list l => simp only [hval] at hfac ⊢; exact (facetErrs_nil_iff E fs _).mpr (hfac (by simp))
  · intro pre m post hL hpre hm
    have hx := (hsplit (m, decodeTop E C chain m (normalize E.W ws s),
      strictDecodeErr E C chain m (normalize E.W ws s))).mpr ⟨pre, m, post, hL, hpre, hm, rfl⟩
    rw [hform]
    exact unionResS_val E [p] _ rs _ hx

/-- patterns of successive derivation steps over a union are all in force (`chain := true`, the repaired
    behaviour): a restriction of a pattern-restricted union accepts only what its base accepts, with the same value -/
theorem restricted_union_chain (E : Env) (C : Conv) (ms : STypes) (ws1 ws2 : WsMode) (p1 p2 : Nat)
    (fs1 fs2 : List Facet) (s : Str)
    (h : (decodeTop E C true (.restr (.restr (.union ms) ws1 (some p1) fs1) ws2 (some p2) fs2) s).valid = true) :
    (decodeTop E C true (.restr (.union ms) ws1 (some p1) fs1) (normalize E.W ws2 s)).valid = true ∧
    (decodeTop E C true (.restr (.restr (.union ms) ws1 (some p1) fs1) ws2 (some p2) fs2) s).val =
      (decodeTop E C true (.restr (.union ms) ws1 (some p1) fs1) (normalize E.W ws2 s)).val := by
  simp only [decodeTop, decodeS, primIsUnion, push, if_true, decodeAllS_standalone, List.nil_append,
    List.cons_append] at h ⊢
  generalize hrs : (ms.toList.map fun m =>
    (m, (decodeS E C true m [] (normalize E.W ws1 (normalize E.W ws2 s))).1,
      (decodeS E C true m [] (normalize E.W ws1 (normalize E.W ws2 s))).2.2)) = rs at h ⊢
  simp only [Res.valid, List.isEmpty_iff, List.append_eq_nil_iff] at h
  obtain ⟨⟨hU, hf1⟩, -⟩ := h
  have hv2 := (unionResS_valid_iff E [p2, p1] _ rs).mp (by simpa [Res.valid] using hU)
  obtain ⟨x, hx, hs⟩ := hv2
  have hs1 : slotErrs E [p1] (normalize E.W (wsOf x.1) (normalize E.W ws1 (normalize E.W ws2 s))) = [] := by
    rw [slotErrs_nil_iff] at hs ⊢
    intro p hp; exact hs p (by simp at hp; simp [hp])
  have hv1 := (unionResS_valid_iff E [p1] _ rs).mpr ⟨x, hx, hs1⟩
  have hval : (unionResS E [p1] (normalize E.W ws1 (normalize E.W ws2 s)) rs).val =
      (unionResS E [p2, p1] (normalize E.W ws1 (normalize E.W ws2 s)) rs).val := by
    rw [unionResS_val E _ _ rs x hx, unionResS_val E _ _ rs x hx]
  refine ⟨?_, hval.symm⟩
  simp only [Res.valid, List.isEmpty_iff, List.append_eq_nil_iff]
  refine ⟨by simpa [Res.valid] using hv1, ?_⟩
  rw [hval]; exact hf1

/-- `int | string`, restricted by `[0-9]{3}`, restricted again by `[0-9]*` -/
def exConv : Conv := ⟨fun _ _ _ => none, fun _ _ => none, fun _ => false, fun _ => none, fun _ => false, fun _ => none⟩
def exPatEnv : Env := ⟨isXmlWs, true,
  mkP [(1, [.rep (.sym ⟨false, [(48, 57)]⟩) 3 (some 3)]), (2, [.rep (.sym ⟨false, [(48, 57)]⟩) 0 none])] [],
  fun _ _ => none, fun _ _ => none⟩
def exIntOrString : SType :=
  .union (.cons (.builtin { prim := .integer, ws := .collapse }) (.cons (.builtin { prim := .string, ws := .preserve }) .nil))
def exR1 : SType := .restr exIntOrString .preserve (some 1) []
def exR2 : SType := .restr exR1 .preserve (some 2) []

example : (decodeTop exPatEnv exConv true exR2 "123".toList).valid = true := by decide

/-- C02-F12 (pinned, `chain := false`): the restriction that finds `context.patterns` occupied drops its own
    patterns, so `12` is accepted by the derived type although its base type refuses it; repaired: refused -/
theorem pattern_chain_counterexample :
    (decodeTop exPatEnv exConv false exR1 "12".toList).valid = false ∧
    (decodeTop exPatEnv exConv false exR2 "12".toList).valid = true ∧
    (decodeTop exPatEnv exConv true exR2 "12".toList).valid = false := by decide

/-- types without patterns on restrictions of unions and without unions nested in unions (`flat`): the decode with
    the context slot is the plain `decode` of sections 4-8, whose theorems (`restriction_valid_iff`, `union_first_match`, `list_itemwise`) carry over -/
theorem decode_conservative (E : Env) (C : Conv) (chain : Bool) (t : SType) (s : Str) (h : flat t = true) :
    decodeTop E C chain t s = decode E C t s := decodeS_flat E C chain t s h

example : flat exIntOrString = true ∧ flat exR1 = false := by decide

/-! ## 11. the length family on xs:QName / xs:NOTATION: exempted on the atomic types, counting items on lists -/

/-- a restriction of a LIST is never exempted, whatever the item type is (xs:QName included): its length-family
    facets stay in force (and count items: `facet_length`, `list_itemwise`) -/
theorem list_length_never_exempt (item : SType) (ws : WsMode) (pat : Option Nat) (fs : List Facet) :
    applyExempt (.restr (.list item) ws pat fs) = .restr (.list (applyExempt item)) ws pat fs := by
  simp [applyExempt, lenExemptRoot, exemptFacets]

/-- the same through further derivation steps over the list, and over unions -/
theorem list_length_never_exempt_chain (base : SType) (ws : WsMode) (pat : Option Nat) (fs : List Facet)
    (h : lenExemptRoot base = false) :
    applyExempt (.restr base ws pat fs) = .restr (applyExempt base) ws pat fs := by
  simp [applyExempt, exemptFacets, h]

example (item : SType) (ws : WsMode) (fs : List Facet) :
    lenExemptRoot (.restr (.restr (.list item) ws none fs) ws none fs) = false := by simp [lenExemptRoot]

/-- on an atomic type whose primitive type is xs:QName / xs:NOTATION no length-family facet is checked, every other
    facet is kept as declared -/
theorem atomic_qname_length_exempt (base : SType) (ws : WsMode) (pat : Option Nat) (fs : List Facet)
    (h : lenExemptRoot base = true) :
    ∃ fs', applyExempt (.restr base ws pat fs) = .restr (applyExempt base) ws pat fs' ∧
      (∀ f ∈ fs', f.isLengthFamily = false) ∧
      (∀ f ∈ fs, f.isLengthFamily = false → f ∈ fs') ∧ fs'.length = fs.length := by
  refine ⟨exemptFacets true fs, by simp [applyExempt, h], ?_, ?_, by simp [exemptFacets]⟩
  · intro f hf
    simp only [exemptFacets, if_true, List.mem_map] at hf
    obtain ⟨g, -, rfl⟩ := hf
    cases hg : g.isLengthFamily
    · simpa using hg
    · simp [Facet.isLengthFamily]
  · intro f hf hn
    simp only [exemptFacets, if_true, List.mem_map]
    exact ⟨f, hf, by simp [hn]⟩

/-- a facet that is not checked never fails -/
theorem skipped_facet_ok (E : Env) (v : Val) : Facet.skip.ok E v = true := rfl

example : lenExemptRoot (.restr (.builtin { prim := .string, ws := .collapse, lenExempt := true }) .collapse none []) = true ∧
    lenExemptRoot (.list (.builtin { prim := .string, ws := .collapse, lenExempt := true })) = false := by decide

end XsVerif.Props.C02
