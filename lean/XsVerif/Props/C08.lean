/-
  C08 — identity constraints: ID/IDREF and unique/key/keyref are enforced exactly.
  ONLY property theorems (and the statements they need) live here; helper lemmas are in
  Lemmas/Identity.lean, the model in Model/Identity.lean.
-/
import XsVerif.Model.Identity
import XsVerif.Lemmas.Identity

namespace XsVerif.Props.C08
open XsVerif.Identity

/-- the qualified tuples of a scope -/
abbrev Q (rows : List (List (FRes Val))) : List (List Val) := rows.filterMap complete?

/-- schema-level requirement: an identity constraint has at least one field -/
def HasFields (rows : List (List (FRes Val))) : Prop := ∀ r ∈ rows, r ≠ []

theorem offerAll_cons (kind : Kind) (r : List (FRes Val)) (rs : List (List (FRes Val)))
    (table : List Tuple) :
    offerAll kind (r :: rs) table =
      ((offerAll kind rs (offer kind table r).1).1,
       (offer kind table r).2.toList ++ (offerAll kind rs (offer kind table r).1).2) := by
  simp [offerAll]

/-! ### key -/

theorem key_gen (rows : List (List (FRes Val))) (table : List Tuple) (hn : table.Nodup)
    (hr : HasFields rows) :
    (offerAll .key rows table).2 = [] ↔
      AllComplete rows ∧ (Q rows).Nodup ∧ ∀ t ∈ Q rows, wrap t ∉ table := by
  induction rows generalizing table with
  | nil => simp [offerAll, AllComplete]
  | cons r rs ih =>
    have hr' : HasFields rs := fun x hx => hr x (List.mem_cons_of_mem _ hx)
    have hrr : r ≠ [] := hr r (List.mem_cons_self ..)
    rw [offerAll_cons]
    cases hc : complete? r with
    | none =>
      obtain ⟨e, he⟩ := offer_key_incomplete table hc
      simp [he, AllComplete, hc]
    | some t =>
      rw [offer_complete (by decide) table hc hrr]
      by_cases hm : wrap t ∈ table
      · simp [(count_one_iff hn).mpr hm, hc]
        grind
      · have hcnt : ¬ table.count (wrap t) = 1 := fun h => hm ((count_one_iff hn).mp h)
        have hn' : (wrap t :: table).Nodup := List.nodup_cons.mpr ⟨hm, hn⟩
        simp only [hcnt, if_false, Option.toList, List.nil_append]
        rw [ih _ hn' hr']
        simp only [AllComplete, List.mem_cons, forall_eq_or_imp, hc, Option.isSome_some,
          List.filterMap_cons, List.nodup_cons, wrap_inj, not_or, true_and]
        grind

/-- **key**: a scope's key counter, started empty, raises no error exactly when every selected
    node has all its fields and no two selected nodes have equal tuples. -/
theorem key_scope_iff (rows : List (List (FRes Val))) (hr : HasFields rows) :
    (offerAll .key rows []).2 = [] ↔ KeyOk rows := by
  rw [key_gen rows [] List.nodup_nil hr]
  simp only [KeyOk, Distinct, List.not_mem_nil, not_false_eq_true, implies_true, and_true]
  constructor
  · intro ⟨h1, h2⟩
    refine ⟨fun r hr' hm => ?_, h1, h2⟩
    have := h1 r hr'
    rw [complete_none_of_multi hm] at this
    simp at this
  · intro ⟨_, h1, h2⟩; exact ⟨h1, h2⟩

example : HasFields [[FRes.val (Val.num 1 0), .val (.bool true)], [.val (.num 1 0), .absent]] := by
  intro r hr; simp at hr; rcases hr with rfl | rfl <;> simp

/-! ### unique -/

theorem unique_gen (rows : List (List (FRes Val))) (table : List Tuple) (hn : table.Nodup)
    (hr : HasFields rows) :
    (offerAll .unique rows table).2 = [] ↔
      NoMulti rows ∧ (Q rows).Nodup ∧ ∀ t ∈ Q rows, wrap t ∉ table := by
  induction rows generalizing table with
  | nil => simp [offerAll, NoMulti]
  | cons r rs ih =>
    have hr' : HasFields rs := fun x hx => hr x (List.mem_cons_of_mem _ hx)
    have hrr : r ≠ [] := hr r (List.mem_cons_self ..)
    rw [offerAll_cons]
    by_cases hm : FRes.multi ∈ r
    · obtain ⟨e, he⟩ := offer_multi (kind := .unique) (by decide) table hm
      simp [he, NoMulti, hm]
    · have hnm : NoMulti (r :: rs) ↔ NoMulti rs := by
        simp [NoMulti, hm]
      rw [hnm]
      cases hc : complete? r with
      | some t =>
        rw [offer_complete (by decide) table hc hrr]
        by_cases hmem : wrap t ∈ table
        · simp [(count_one_iff hn).mpr hmem, hc]
          grind
        · have hcnt : ¬ table.count (wrap t) = 1 := fun h => hmem ((count_one_iff hn).mp h)
          have hn' : (wrap t :: table).Nodup := List.nodup_cons.mpr ⟨hmem, hn⟩
          simp only [hcnt, if_false, Option.toList, List.nil_append]
          rw [ih _ hn' hr']
          simp only [List.mem_cons, hc, List.filterMap_cons, List.nodup_cons, wrap_inj, not_or]
          grind
      | none =>
        -- a node lacking a field — all of them or (cc593f3) only some — is outside the qualified
        -- node set: the counter ignores it
        rw [offer_unique_incomplete table hm hc]
        simp only [Option.toList, List.nil_append, List.filterMap_cons, hc]
        exact ih table hn hr'

/-- **unique** (XSD §3.11.4, cvc-identity-constraint 4.1), full statement: a scope's unique counter,
    started empty, raises no error exactly when no field selects several nodes and no two selected
    nodes *having all their fields* have equal tuples — whatever the nodes that lack some or all of
    their fields look like.  (Before the `fix:` commit cc593f3 this held only on the region without
    partially absent tuples.) -/
theorem unique_scope_iff (rows : List (List (FRes Val))) (hr : HasFields rows) :
    (offerAll .unique rows []).2 = [] ↔ UniqueOk rows := by
  rw [unique_gen rows [] List.nodup_nil hr]
  simp [UniqueOk, Distinct]

example : HasFields [[FRes.val (Val.num 1 0), .val (.bool true)], [.val (.num 1 0), .absent],
    [.absent, .absent]] := by
  intro r hr; simp at hr; rcases hr with rfl | rfl | rfl <;> simp

/-- the witness of the former finding C08-F6 (replayed on the real code by the harness): two nodes
    `(1, ⊥)`; and the same partial node between two equal complete ones -/
def uniqueWitness : List (List (FRes Val)) := [[.val (.num 1 0), .absent], [.val (.num 1 0), .absent]]
def uniqueWitness2 : List (List (FRes Val)) :=
  [[.val (.num 1 0), .val (.num 2 0)], [.val (.num 1 0), .absent], [.val (.num 1 0), .val (.num 2 0)]]

/-- regression witnesses for cc593f3: partially absent tuples are neither compared with each other
    nor do they hide a duplicate among the complete ones -/
theorem unique_partial_witness :
    (UniqueOk uniqueWitness ∧ (offerAll .unique uniqueWitness []).2 = []) ∧
    (¬ UniqueOk uniqueWitness2 ∧ (offerAll .unique uniqueWitness2 []).2 = [.dup]) := by
  decide

/-- zero and the empty string are values like any other (the tuples are `Option`-valued: an absent
    field is `none`, never confused with a present falsy value): two nodes `(0, ⊥)` / `("", ⊥)` are
    outside the qualified node set of a two-field unique, two nodes `(0, "")` are duplicates, and a
    reference `(0, "")` is found.  Replayed on the real code by the harness (family `falsy_cases`). -/
def z0 : FRes Val := .val (.num 0 0)
def e0 : FRes Val := .val (.str "")
theorem unique_falsy_witness :
    (UniqueOk [[z0, .absent], [z0, .absent]] ∧ (offerAll .unique [[z0, .absent], [z0, .absent]] []).2 = []) ∧
    (UniqueOk [[e0, .absent], [e0, .absent]] ∧ (offerAll .unique [[e0, .absent], [e0, .absent]] []).2 = []) ∧
    (¬ UniqueOk [[z0, e0], [z0, e0]] ∧ (offerAll .unique [[z0, e0], [z0, e0]] []).2 = [.dup]) ∧
    (¬ KeyOk [[z0, .absent]] ∧ (offerAll .key [[z0, .absent]] []).2 = [.missing 1]) ∧
    KeyrefOk [[z0, e0], [z0, .absent]] (Q [[z0, e0]]) ∧
    parseInteger "-0".toList = parseDecimal "0.0".toList ∧ parseInteger "+00".toList = some (.num 0 0) := by
  decide

/-! ### keyref -/

theorem keyref_gen (rows : List (List (FRes Val))) (table : List Tuple) :
    ((offerAll .keyref rows table).2 = [] ↔ NoMulti rows) ∧
    (NoMulti rows → ∀ x, x ∈ (offerAll .keyref rows table).1 ↔
        x ∈ table ∨ ∃ t ∈ Q rows, x = wrap t) := by
  induction rows generalizing table with
  | nil => simp [offerAll, NoMulti]
  | cons r rs ih =>
    rw [offerAll_cons]
    by_cases hm : FRes.multi ∈ r
    · obtain ⟨e, he⟩ := offer_multi (kind := .keyref) (by decide) table hm
      simp [he, NoMulti, hm]
    · have hnm : NoMulti (r :: rs) ↔ NoMulti rs := by simp [NoMulti, hm]
      rw [hnm]
      cases hc : complete? r with
      | some t =>
        rw [offer_keyref_complete table hc]
        obtain ⟨h1, h2⟩ := ih (wrap t :: table)
        refine ⟨by simpa using h1, fun hn x => ?_⟩
        rw [h2 hn x]
        simp only [List.mem_cons, List.filterMap_cons, hc]
        grind
      | none =>
        rw [offer_keyref_incomplete table hm hc]
        obtain ⟨h1, h2⟩ := ih table
        refine ⟨by simpa using h1, fun hn x => ?_⟩
        rw [h2 hn x]
        simp only [List.filterMap_cons, hc]

/-- `KeyrefCounter.iter_errors` yields nothing exactly when every own tuple is in the table read -/
theorem keyrefErrs_nil_iff (c s : Nat) (own refer : List Tuple) :
    keyrefErrs c s own refer = [] ↔ ∀ v ∈ own, v ∈ refer := by
  simp [keyrefErrs, List.filter_eq_nil_iff, List.mem_eraseDups]

/-- the table a key counter leaves behind: exactly the qualified tuples -/
theorem key_table (rows : List (List (FRes Val))) (table : List Tuple) (hr : HasFields rows)
    (x : Tuple) :
    x ∈ (offerAll .key rows table).1 ↔ x ∈ table ∨ ∃ t ∈ Q rows, x = wrap t := by
  induction rows generalizing table with
  | nil => simp [offerAll]
  | cons r rs ih =>
    have hr' : HasFields rs := fun x hx => hr x (List.mem_cons_of_mem _ hx)
    have hrr : r ≠ [] := hr r (List.mem_cons_self ..)
    rw [offerAll_cons]
    cases hc : complete? r with
    | some t =>
      rw [offer_complete (by decide) table hc hrr, ih _ hr']
      simp only [List.mem_cons, List.filterMap_cons, hc]
      grind
    | none =>
      obtain ⟨e, he⟩ := offer_key_incomplete table hc
      rw [he, ih _ hr']
      simp only [List.filterMap_cons, hc]

/-- **keyref** (key and keyref collected in the same run, the key's counter being the one read at
    the end of the keyref's scope): no "missing field"/"not found" error exactly when every keyref
    node whose fields are all present has its tuple among the key's qualified tuples.  Nodes with an
    absent field are ignored (after the `fix:` commit 3a2eb1a). -/
theorem keyref_scope_iff (c s : Nat) (krows rrows : List (List (FRes Val))) (hk : HasFields krows) :
    ((offerAll .keyref rrows []).2 = [] ∧
      keyrefErrs c s (offerAll .keyref rrows []).1 (offerAll .key krows []).1 = []) ↔
    KeyrefOk rrows (Q krows) := by
  obtain ⟨h1, h2⟩ := keyref_gen rrows []
  rw [h1, keyrefErrs_nil_iff]
  unfold KeyrefOk Resolved
  constructor
  · intro ⟨hn, h⟩
    refine ⟨hn, fun t ht => ?_⟩
    have := h (wrap t) ((h2 hn _).mpr (Or.inr ⟨t, ht, rfl⟩))
    rw [key_table krows [] hk] at this
    simp only [List.not_mem_nil, false_or] at this
    obtain ⟨t', ht', he⟩ := this
    rw [wrap_inj.mp he]; exact ht'
  · intro ⟨hn, h⟩
    refine ⟨hn, fun v hv => ?_⟩
    rw [h2 hn] at hv
    simp only [List.not_mem_nil, false_or] at hv
    obtain ⟨t, ht, rfl⟩ := hv
    rw [key_table krows [] hk]
    exact Or.inr ⟨t, h t ht, rfl⟩

example : KeyrefOk [[FRes.val (Val.num 1 0)], [FRes.absent]] (Q [[FRes.val (Val.num 1 0)]]) := by
  decide

/-! ### O is S: the executable per-scope oracle reports no clause exactly when the rule holds -/

theorem rowsClauses_unique_nil {α : Type} [DecidableEq α] (rows : List (List (FRes α))) (tb) :
    rowsClauses .unique rows tb = [] ↔ UniqueOk rows := by
  simp [rowsClauses, UniqueOk]

theorem rowsClauses_key_nil {α : Type} [DecidableEq α] (rows : List (List (FRes α))) (tb) :
    rowsClauses .key rows tb = [] ↔ KeyOk rows := by
  simp [rowsClauses, KeyOk]

theorem rowsClauses_keyref_nil {α : Type} [DecidableEq α] (rows : List (List (FRes α)))
    (tb : List (List α)) : rowsClauses .keyref rows (some tb) = [] ↔ KeyrefOk rows tb := by
  simp [rowsClauses, KeyrefOk]

/-! ### the per-document machine: one scope of one constraint -/

/-- the rows a scope `s` of constraint `c` collects from the visited nodes `ns` -/
def scopeRows (env : Env) (c s : Nat) (ns : List Nat) : List (List (FRes Val)) :=
  (ns.filter (env.sel c s)).map (env.fields c)

theorem collect_block (env : Env) (c s : Nat) (ns : List Nat) (st : St) (tb : List Tuple)
    (hc : st.ctrs c = some ⟨s, true, tb⟩) :
    let fin := ns.foldl (fun st n => collectOne env n st c) st
    fin.ctrs c = some ⟨s, true, (offerAll (env.kind c) (scopeRows env c s ns) tb).1⟩ ∧
    (fin.errs = [] ↔ st.errs = [] ∧ (offerAll (env.kind c) (scopeRows env c s ns) tb).2 = []) := by
  induction ns generalizing st tb with
  | nil => simp [scopeRows, offerAll, hc]
  | cons n ns ih =>
    simp only [List.foldl_cons]
    by_cases hs : env.sel c s n = true
    · have hrows : scopeRows env c s (n :: ns) = env.fields c n :: scopeRows env c s ns := by
        simp [scopeRows, hs]
      rw [hrows, offerAll_cons]
      generalize ho : offer (env.kind c) tb (env.fields c n) = o
      obtain ⟨tb', e⟩ := o
      have hst : ∃ st', collectOne env n st c = st' ∧ st'.ctrs c = some ⟨s, true, tb'⟩ ∧
          (st'.errs = [] ↔ st.errs = [] ∧ e = none) := by
        refine ⟨_, rfl, ?_⟩
        simp only [collectOne, hc, hs, ho, Bool.not_true, Bool.or_false, Bool.false_eq_true,
          if_false]
        cases e with
        | none => simp [St.put]
        | some e => cases e <;> simp [St.put, St.err]
      obtain ⟨st', hst', h1, h2⟩ := hst
      rw [hst']
      obtain ⟨i1, i2⟩ := ih st' tb' h1
      refine ⟨i1, ?_⟩
      rw [i2, h2]
      cases e <;> simp
    · have hrows : scopeRows env c s (n :: ns) = scopeRows env c s ns := by
        simp [scopeRows, hs]
      have hst : collectOne env n st c = st := by
        simp only [collectOne, hc]
        simp [hs]
      rw [hrows, hst]
      exact ih st tb hc

def runFrom (env : Env) (st : St) (evs : List Ev) : St := evs.foldl (step env) st

theorem run_eq_runFrom (env : Env) (evs : List Ev) : run env evs = runFrom env St.init evs := rfl

theorem collects_fold (env : Env) (c : Nat) (ns : List Nat) (st : St) :
    (ns.map fun n => Ev.collect n [c]).foldl (step env) st =
      ns.foldl (fun st n => collectOne env n st c) st := by
  induction ns generalizing st with
  | nil => rfl
  | cons n ns ih =>
    simp only [List.map_cons, List.foldl_cons]
    have : step env st (.collect n [c]) = collectOne env n st c := by
      simp [step]
    rw [this]
    exact ih _

/-- the state right after `enter s [c]` -/
theorem enter_state (env : Env) (c s : Nat) (st : St) (he : st.errs = []) :
    (step env st (.enter s [c])).ctrs c = some ⟨s, true, []⟩ ∧
    (step env st (.enter s [c])).errs = [] ∧
    ∀ r, r ≠ c → (step env st (.enter s [c])).ctrs r = st.ctrs r := by
  simp only [step, List.foldl_cons, List.foldl_nil, enterOne]
  cases st.ctrs c with
  | none => simp [St.put, he]; intro r hr; simp [hr]
  | some k => simp only [St.put]; split <;> (simp [he]; intro r hr; simp [hr])

/-- **one scope, unique / key, from any history**: entering a scope resets the counter, so whatever
    was validated before, the block `enter s; collect n₁ … n_k; leave s` adds no error exactly when the
    per-scope counter run on the selected rows adds none (which `key_scope_iff` / `unique_scope_iff`
    equate with the XSD rule). -/
theorem scope_block_iff (env : Env) (c s : Nat) (ns : List Nat) (st : St)
    (hk : env.kind c ≠ .keyref) (he : st.errs = []) :
    (runFrom env st (.enter s [c] :: (ns.map fun n => Ev.collect n [c]) ++ [.leave s [c]])).errs = [] ↔
      (offerAll (env.kind c) (scopeRows env c s ns) []).2 = [] := by
  unfold runFrom
  rw [List.cons_append, List.foldl_cons, List.foldl_append, collects_fold]
  obtain ⟨hc1, he1, _⟩ := enter_state env c s st he
  generalize step env st (.enter s [c]) = st1 at hc1 he1
  obtain ⟨b1, b2⟩ := collect_block env c s ns st1 [] hc1
  generalize ns.foldl (fun st n => collectOne env n st c) st1 = fin at b1 b2
  simp only [List.foldl_cons, List.foldl_nil, step, leaveOne, b1]
  rw [if_neg hk]
  simp only [St.put]
  rw [b2]
  simp [he1]

/-! ### one scope of a keyref whose referenced constraint has no scope instance inside it -/

theorem collectOne_frame (env : Env) (n c r : Nat) (st : St) (h : r ≠ c) :
    (collectOne env n st c).ctrs r = st.ctrs r := by
  unfold collectOne
  cases st.ctrs c with
  | none => rfl
  | some k =>
    simp only
    split
    · rfl
    · generalize offer (env.kind c) k.table (env.fields c n) = o
      obtain ⟨tb, e⟩ := o
      cases e with
      | none => simp [St.put, h]
      | some e => cases e <;> simp [St.put, St.err, h]

theorem collects_frame (env : Env) (c r : Nat) (ns : List Nat) (st : St) (h : r ≠ c) :
    (ns.foldl (fun st n => collectOne env n st c) st).ctrs r = st.ctrs r := by
  induction ns generalizing st with
  | nil => rfl
  | cons n ns ih => rw [List.foldl_cons, ih, collectOne_frame env n c r st h]

theorem referTableIn_congr {a b : St} {r : Nat} (h : a.ctrs r = b.ctrs r) :
    referTableIn a r = referTableIn b r := by
  unfold referTableIn; rw [h]

theorem referTableIn_ensureRefer (n r : Nat) (st : St) :
    referTableIn (ensureRefer n st r) r = referTableIn st r := by
  unfold ensureRefer referTableIn
  cases h : st.ctrs r with
  | none => simp [St.put]
  | some k => simp [h]

theorem ensureRefer_errs (n r : Nat) (st : St) : (ensureRefer n st r).errs = st.errs := by
  unfold ensureRefer
  cases st.ctrs r <;> rfl

/-- **one scope, keyref, from any history, the referenced constraint `r` having no scope instance
    inside the block**: the block adds no error exactly when the keyref counter run adds none and
    every collected tuple is in the table that `r`'s counter held *before* the block — the empty
    table when `r` has no counter at all (b32146f: no KeyError any more).  A table left behind by
    a scope instance of `r` *outside* this scope is read here: that is finding C08-F4. -/
theorem keyref_block_iff (env : Env) (c r s : Nat) (ns : List Nat) (st : St)
    (hk : env.kind c = .keyref) (hr : env.refer c = some r) (hne : r ≠ c) (he : st.errs = []) :
    (runFrom env st (.enter s [c] :: (ns.map fun n => Ev.collect n [c]) ++ [.leave s [c]])).errs = [] ↔
      ((offerAll .keyref (scopeRows env c s ns) []).2 = [] ∧
       keyrefErrs c s (offerAll .keyref (scopeRows env c s ns) []).1 (referTableIn st r) = []) := by
  unfold runFrom
  rw [List.cons_append, List.foldl_cons, List.foldl_append, collects_fold]
  obtain ⟨hc1, he1, hf1⟩ := enter_state env c s st he
  have hr1 := hf1 r hne
  generalize step env st (.enter s [c]) = st1 at hc1 he1 hr1
  obtain ⟨b1, b2⟩ := collect_block env c s ns st1 [] hc1
  have b3 := collects_frame env c r ns st1 hne
  generalize ns.foldl (fun st n => collectOne env n st c) st1 = fin at b1 b2 b3
  rw [hk] at b1 b2
  simp only [List.foldl_cons, List.foldl_nil, step, leaveOne, b1, hk, if_true, hr]
  have htab : referTableIn (ensureRefer s (fin.put c ⟨s, false,
        (offerAll .keyref (scopeRows env c s ns) []).1⟩) r) r = referTableIn st r := by
    rw [referTableIn_ensureRefer]
    apply referTableIn_congr
    simp [St.put, hne, b3, hr1]
  rw [htab, ensureRefer_errs]
  simp only [St.put, List.append_eq_nil_iff, List.reverse_eq_nil_iff]
  rw [b2]
  simp [he1, and_comm]

/-- **keyref, the referenced key never occurred** (the region of the former finding C08-F7, now a
    verdict instead of a KeyError): the block adds no error exactly when the keyref rule holds
    against the EMPTY table, i.e. no selected node has all its fields. -/
theorem keyref_absent_refer_iff (env : Env) (c r s : Nat) (ns : List Nat) (st : St)
    (hk : env.kind c = .keyref) (hr : env.refer c = some r) (hne : r ≠ c) (he : st.errs = [])
    (hno : st.ctrs r = none) :
    (runFrom env st (.enter s [c] :: (ns.map fun n => Ev.collect n [c]) ++ [.leave s [c]])).errs = [] ↔
      KeyrefOk (scopeRows env c s ns) ([] : List (List Val)) := by
  rw [keyref_block_iff env c r s ns st hk hr hne he]
  have ht : referTableIn st r = [] := by simp [referTableIn, hno]
  obtain ⟨h1, h2⟩ := keyref_gen (scopeRows env c s ns) []
  rw [ht, h1, keyrefErrs_nil_iff]
  unfold KeyrefOk Resolved
  constructor
  · intro ⟨hn, h⟩
    refine ⟨hn, fun t ht' => ?_⟩
    exact absurd (h (wrap t) ((h2 hn _).mpr (Or.inr ⟨t, ht', rfl⟩))) (by simp)
  · intro ⟨hn, h⟩
    refine ⟨hn, fun v hv => ?_⟩
    rw [h2 hn] at hv
    simp only [List.not_mem_nil, false_or] at hv
    obtain ⟨t, ht', rfl⟩ := hv
    exact absurd (h t ht') (by simp)

/-! ### the loop of `collect_key_fields` over the open constraints (elements.py:912-950, 1e49c64) -/

/-- `context.identities` is a dict: in every reachable state `order` lists exactly the constraints
    that have a counter, each once (whatever the document and the schema) -/
theorem run_order_inv (env : Env) (evs : List Ev) : OrderInv (run env evs) := by
  unfold run
  exact OrderInv.foldl (fun st ev hs => hs.step env ev) evs OrderInv.init

/-- **every open constraint sees the node, each for itself** (`continue` semantics): after the loop
    over `context.identities`, the counter of every constraint is what the loop body alone makes of
    it — whichever other constraints select the same node, wherever they stand in the dict, and
    whether the node is outside their qualified node set — and the errors raised are the bodies'
    errors in dict order. -/
theorem collectOpen_spec (env : Env) (n : Nat) (st : St) (h : OrderInv st) :
    (∀ c, (step env st (.collectOpen n)).ctrs c = (collectRes env n c (st.ctrs c)).1) ∧
    (step env st (.collectOpen n)).errs =
      (st.order.filterMap fun c => (collectRes env n c (st.ctrs c)).2).reverse ++ st.errs := by
  obtain ⟨h1, h2⟩ := collect_fold_spec env n st.order h.nodup st
  refine ⟨fun c => ?_, h2⟩
  simp only [step]
  rw [h1 c]
  by_cases hc : c ∈ st.order
  · simp [hc]
  · have : st.ctrs c = none := by
      have := (not_congr (h.mem c)).mp hc
      simpa using this
    simp [hc, this, collectRes]

/-- the link to the one-constraint blocks (`scope_block_iff`, `keyref_block_iff`): on the counter of
    `c` the whole loop acts as the loop body for `c` alone -/
theorem collectOpen_proj (env : Env) (n : Nat) (st : St) (h : OrderInv st) (c : Nat) :
    (step env st (.collectOpen n)).ctrs c = (step env st (.collect n [c])).ctrs c := by
  rw [(collectOpen_spec env n st h).1 c]
  simp [step, collectOne_ctrs]

/-- the loop adds no error exactly when no open constraint's body does -/
theorem collectOpen_errs_nil_iff (env : Env) (n : Nat) (st : St) (h : OrderInv st) :
    (step env st (.collectOpen n)).errs = [] ↔
      st.errs = [] ∧ ∀ c ∈ st.order, (collectRes env n c (st.ctrs c)).2 = none := by
  rw [(collectOpen_spec env n st h).2]
  simp only [List.append_eq_nil_iff, List.reverse_eq_nil_iff, List.filterMap_eq_nil_iff]
  exact and_comm

/-- keyref 0 (field @parent, refer 1) declared BEFORE key 1 (field @id), both on scope 1 and both
    selecting the rows 2 and 3: `<tree><node id="1"/><node id="1"/></tree>` — no row has @parent -/
def ptrEnv : Env where
  kind c := if c == 0 then .keyref else .key
  refer c := if c == 0 then some 1 else none
  sel _ s n := s == 1 && (n == 2 || n == 3)
  fields c _ := if c == 0 then [.absent] else [.val (.num 1 0)]

example : OrderInv (step ptrEnv St.init (.enter 1 [0, 1])) := (OrderInv.init).step _ _

/- Why the `continue` of line 942 must not be a `break`: with `break` (`collectBreak`) a row outside
   the qualified node set of the keyref is never offered to the key that follows it in the dict, and
   the duplicate id goes unreported.  (Replayed on the real code by the harness: corpus
   seed3-*.json.) -/
theorem collect_break_counterexample :
    let st0 := step ptrEnv St.init (.enter 1 [0, 1])
    st0.order = [0, 1] ∧
    ¬ KeyOk (scopeRows ptrEnv 1 1 [2, 3]) ∧
    (run ptrEnv [.enter 1 [0, 1], .collectOpen 2, .collectOpen 3, .leave 1 [0, 1]]).errs = [.dup 1 3] ∧
    (let st2 := collectBreak ptrEnv 2 st0.order st0
     let st3 := collectBreak ptrEnv 3 st2.order st2
     (step ptrEnv st3 (.leave 1 [0, 1])).errs = []) := by
  decide

/-! ### where the per-document machine still deviates: witnesses (replayed on the real code) -/

def v1 : FRes Val := .val (.num 1 0)
def v2 : FRes Val := .val (.num 2 0)

/-- recursive section: scope 1 selects nodes 2 and 4, the nested scope 3 (same declaration) nothing -/
def nestedEnv : Env where
  kind _ := .unique
  refer _ := none
  sel _ s n := s == 1 && (n == 2 || n == 4)
  fields _ _ := [v1]
def nestedEvs : List Ev :=
  [.enter 1 [0], .collect 2 [0], .enter 3 [0], .leave 3 [0], .collect 4 [0], .leave 1 [0]]

/- Full statement: for every well-nested event stream, `(run env evs).errs = []` iff every scope
   instance satisfies its rule.  FALSE for the current algorithm when a scope of a constraint is nested
   in another scope of the same constraint (finding C08-F3): the inner `enter` resets the shared
   counter and the inner `leave` disables it. -/
theorem nested_counterexample :
    ¬ UniqueOk (scopeRows nestedEnv 0 1 [2, 4]) ∧ (run nestedEnv nestedEvs).errs = [] ∧
      (run nestedEnv nestedEvs).nested = [0] := by
  decide

/-- key 0 on `sec` (scopes 2 and 4), keyref 1 on the root (scope 1) referring to it -/
def spreadEnv : Env where
  kind c := if c == 0 then .key else .keyref
  refer c := if c == 1 then some 0 else none
  sel c s n := (c == 0 && ((s == 2 && n == 3) || (s == 4 && n == 5))) || (c == 1 && s == 1 && n == 6)
  fields _ n := if n == 5 then [v2] else [v1]
def spreadEvs : List Ev :=
  [.enter 1 [1], .enter 2 [0], .collect 3 [0], .leave 2 [0], .enter 4 [0], .collect 5 [0],
   .leave 4 [0], .collect 6 [1], .leave 1 [1]]

/-- finding C08-F4: the key value 1 exists in the first `sec`, the reference to it is reported as
    dangling because only the last scope instance's table is consulted -/
theorem spread_counterexample :
    KeyrefOk (scopeRows spreadEnv 1 1 [6])
      (Q (scopeRows spreadEnv 0 2 [3]) ++ Q (scopeRows spreadEnv 0 4 [5])) ∧
    (run spreadEnv spreadEvs).errs = [.notfound 1 1 1] := by
  decide

/-- regression witnesses for b32146f (the former finding C08-F7, replayed on the real code by the
    harness): the referenced key's element does not occur.  `<root/>` is valid, and
    `<root><ref f1="1"/></root>` reports the dangling reference — neither raises -/
theorem absent_refer_witness :
    (run spreadEnv [.enter 1 [1], .leave 1 [1]]).errs = [] ∧
    (run spreadEnv [.enter 1 [1], .collect 6 [1], .leave 1 [1]]).errs = [.notfound 1 1 1] ∧
    ¬ KeyrefOk (scopeRows spreadEnv 1 1 [6]) ([] : List (List Val)) := by
  decide

/-- the hypotheses of `keyref_block_iff` / `keyref_absent_refer_iff` are met by that witness -/
example : spreadEnv.kind 1 = .keyref ∧ spreadEnv.refer 1 = some 0 ∧ (0 : Nat) ≠ 1 ∧
    St.init.errs = [] ∧ St.init.ctrs 0 = none :=
  ⟨by decide, by decide, by decide, rfl, rfl⟩

/-! ### field values are compared in the value space of their declared types -/

/-- **decimal / integer**: the canonical forms the counters key on are equal exactly when the two
    decimals `m₁·10^-s₁` and `m₂·10^-s₂` are the same number (lexical variants `1`, `01`, `+1.0`,
    `1.00` collapse; xs:integer values compare with xs:decimal values numerically). -/
theorem normDec_eq_iff (s1 s2 : Nat) (m1 m2 : Int) :
    normDec s1 m1 = normDec s2 m2 ↔ m1 * 10 ^ s2 = m2 * 10 ^ s1 := by
  obtain ⟨a1, t1, e1, v1, n1⟩ := normDec_spec s1 m1
  obtain ⟨a2, t2, e2, v2, n2⟩ := normDec_spec s2 m2
  rw [e1, e2]
  constructor
  · intro h
    injection h with ha ht
    subst ha; subst ht
    -- m1 * 10^t = a * 10^s1, m2 * 10^t = a * 10^s2
    apply pow_cancel _ _ t1
    calc m1 * 10 ^ s2 * 10 ^ t1 = (m1 * 10 ^ t1) * 10 ^ s2 := by rw [Int.mul_right_comm]
      _ = a1 * 10 ^ s1 * 10 ^ s2 := by rw [v1]
      _ = (a1 * 10 ^ s2) * 10 ^ s1 := by rw [Int.mul_right_comm]
      _ = m2 * 10 ^ t1 * 10 ^ s1 := by rw [v2]
      _ = m2 * 10 ^ s1 * 10 ^ t1 := by rw [Int.mul_right_comm]
  · intro h
    have : a1 * 10 ^ t2 = a2 * 10 ^ t1 := by
      apply pow_cancel _ _ (s1 + s2)
      calc a1 * 10 ^ t2 * 10 ^ (s1 + s2) = (a1 * 10 ^ s1) * 10 ^ t2 * 10 ^ s2 := by
              rw [Int.pow_add]; simp only [Int.mul_assoc, Int.mul_comm, Int.mul_left_comm]
        _ = (m1 * 10 ^ t1) * 10 ^ t2 * 10 ^ s2 := by rw [v1]
        _ = (m1 * 10 ^ s2) * 10 ^ t1 * 10 ^ t2 := by
              simp only [Int.mul_assoc, Int.mul_comm, Int.mul_left_comm]
        _ = (m2 * 10 ^ s1) * 10 ^ t1 * 10 ^ t2 := by rw [h]
        _ = (m2 * 10 ^ t2) * 10 ^ t1 * 10 ^ s1 := by
              simp only [Int.mul_assoc, Int.mul_comm, Int.mul_left_comm]
        _ = (a2 * 10 ^ s2) * 10 ^ t1 * 10 ^ s1 := by rw [v2]
        _ = a2 * 10 ^ t1 * 10 ^ (s1 + s2) := by
              rw [Int.pow_add]; simp only [Int.mul_assoc, Int.mul_comm, Int.mul_left_comm]
    obtain ⟨ha, ht⟩ := normal_unique a1 a2 t1 t2 n1 n2 this
    rw [ha, ht]

example : normDec 2 100 = normDec 0 1 := by decide
example : parseDecimal "+01.00".toList = parseInteger " 1 ".toList := by decide
example : parseDecimal "2.50".toList ≠ parseInteger "2".toList := by decide

/- Full statement: two field values are keyed equal (`untagged`, what the code compares) exactly when
   they are equal in the XSD value space (`tagged`: primitive family × value).
   FALSE for the current code: an xs:string whose text is `{ns}local` equals an xs:QName expanding to
   the same string (`strq_counterexample`, finding C08-F5).  Proved on the region that excludes a
   string compared with a QName; the two values may be read under different namespace maps (two
   field nodes with different declarations in scope). -/
theorem value_space_partial (ns1 ns2 : NsMap) (t1 t2 : Ty) (l1 l2 : String) (a b : SVal)
    (h1 : tagged ns1 (some t1) l1 = some a) (h2 : tagged ns2 (some t2) l2 = some b)
    (hg : ¬ (t1.prim = .string ∧ t2.prim = .qname) ∧ ¬ (t1.prim = .qname ∧ t2.prim = .string)) :
    untagged ns1 (some t1) l1 = untagged ns2 (some t2) l2 ↔ a = b := by
  simp only [tagged, Option.map_eq_some_iff] at h1 h2
  obtain ⟨x, hx, rfl⟩ := h1
  obtain ⟨y, hy, rfl⟩ := h2
  simp only [untagged, hx, hy, Option.some.injEq, Prod.mk.injEq]
  have sx := valOf_shape ns1 t1 l1 x hx
  have sy := valOf_shape ns2 t2 l2 y hy
  constructor
  · intro h
    subst h
    refine ⟨?_, rfl⟩
    cases t1 <;> cases t2 <;> cases x <;> simp_all [shape, Ty.prim]
  · intro h; exact h.2

example : tagged [] (some .integer) "01" = some (.decimal, .num 1 0) := by decide

theorem strq_counterexample :
    untagged [("p", "urn:a")] (some .string) "{urn:a}x" = untagged [("p", "urn:a")] (some .qname) "p:x" ∧
    tagged [("p", "urn:a")] (some .string) "{urn:a}x" ≠ tagged [("p", "urn:a")] (some .qname) "p:x" := by
  decide

/-! ### QName fields are resolved with the declarations in scope of the node that carries them -/

/-- **stack discipline** (unbounded trees, any placement of xmlns declarations): along the walk of
    `raw_decode` — `set_xmlns_context` before every child (groups.py:1008), the purge after the
    content (elements.py:833), *then* `collect_key_fields` (855) — the map read at the collect of
    every element is exactly the declarations in scope of that element: nothing declared on a child,
    a descendant or a preceding sibling is visible any more.  (`sibOk`: siblings are distinct
    objects, the `context.obj is obj` test of the loop.) -/
theorem ns_collect_scope (ns0 : NsMap) (root : Node) (hs : root.sibOk = true) :
    nsCollects ns0 root = root.scopes ns0 := by
  unfold nsCollects
  rw [setCtx_root, nsWalk_spec root 0 ns0 [] hs (by simp)]

theorem nsAt_eq_scopeAt (ns0 : NsMap) (root : Node) (hs : root.sibOk = true) (i : Nat) :
    nsAt ns0 root i = scopeAt ns0 root i := by
  unfold nsAt scopeAt
  rw [ns_collect_scope ns0 root hs]

/-- a selected node `1` with an attribute `p:x` and a trailing child `2` that rebinds `p` -/
def trailingDecl : Node :=
  .mk 1 0 "item" [⟨"f1", "p:x", some .qname, 0⟩] none "" 0 []
    [.mk 2 1 "note" [] (some .string) "x" 0 [("p", "urn:b")] []]

example : trailingDecl.sibOk = true := by decide

/- Why the collect must come after the purge: right after the content of the element (the state
   `nsWalkList` leaves) the map still holds the declarations of its last child.  A tree that reads
   the field values at that point resolves `p:x` with the child's binding. -/
theorem collect_before_purge_counterexample :
    let st := (nsWalkList 1 trailingDecl.kids (setCtx 1 0 [] ⟨[("p", "urn:a")], []⟩)).2
    parseQName st.cur "p:x".toList = some (.str "{urn:b}x") ∧
    parseQName (nsAt [("p", "urn:a")] trailingDecl 1) "p:x".toList = some (.str "{urn:a}x") ∧
    scopeAt [("p", "urn:a")] trailingDecl 1 = [("p", "urn:a")] := by
  decide

/-- the primitive family the XSD value of a field item belongs to -/
def tagOf : Option Ty → Prim
  | none => .string
  | some t => t.prim

theorem tagged_eq (ns : NsMap) (t : Option Ty) (l : String) :
    tagged ns t l = (untagged ns t l).map fun v => (tagOf t, v) := by
  cases t <;> simp [tagged, untagged, tagOf]

theorem fieldResG_congr {α : Type} (c1 c2 : Nat → Option Ty → String → Option α) (f : List Path)
    (n : Node) (h : ∀ it ∈ f.flatMap (·.items n), c1 it.1 it.2.1 it.2.2 = c2 it.1 it.2.1 it.2.2) :
    fieldResG c1 f n = fieldResG c2 f n := by
  unfold fieldResG
  generalize f.flatMap (·.items n) = l at h
  match l, h with
  | [], _ => rfl
  | [(o, t, lex)], h => simp only; rw [h (o, t, lex) (by simp)]
  | _ :: _ :: _, _ => rfl

/- Full statement: the value a field of a selected node contributes to its tuple is its value in
   the XSD value space, a QName being resolved with the declarations in scope of the element that
   carries it.  FALSE for the current tree when the field selects a child element that has xmlns
   declarations of its own rebinding the prefix used (`field_scope_counterexample`, finding C08-F8):
   the map of the *selected* node is used.  Proved on the region where the elements the field
   reaches have the same declarations in scope as the selected node … -/
theorem field_scope_partial (ns0 : NsMap) (root : Node) (f : List Path) (n : Node)
    (hs : root.sibOk = true)
    (hown : ∀ it ∈ f.flatMap (·.items n), scopeAt ns0 root it.1 = scopeAt ns0 root n.id) :
    fieldResG (specConv ns0 root) f n =
      fieldResG (fun o t l => (codeConv false ns0 root n.id o t l).map fun v => (tagOf t, v)) f n := by
  apply fieldResG_congr
  intro it hit
  simp only [specConv, codeConv, Bool.false_eq_true, if_false]
  rw [tagged_eq, hown it hit, nsAt_eq_scopeAt ns0 root hs]

/-- … which contains every field that is an attribute of the selected node (or the node itself):
    no guard is needed for `@name` / `.` fields, wherever xmlns declarations are placed -/
theorem field_scope_self (ns0 : NsMap) (root : Node) (f : List Path) (n : Node)
    (hs : root.sibOk = true) (hf : ∀ p ∈ f, p.desc = false ∧ p.steps = []) :
    fieldResG (specConv ns0 root) f n =
      fieldResG (fun o t l => (codeConv false ns0 root n.id o t l).map fun v => (tagOf t, v)) f n := by
  apply field_scope_partial ns0 root f n hs
  intro it hit
  obtain ⟨p, hp, hit⟩ := List.mem_flatMap.mp hit
  obtain ⟨hd, hst⟩ := hf p hp
  have he : p.elems n = [n] := by simp [Path.elems, hd, hst, evalSteps]
  unfold Path.items at hit
  rw [he] at hit
  cases ha : p.attr with
  | none => simp [ha] at hit; rw [hit]
  | some a =>
    simp only [ha, List.flatMap_cons, List.flatMap_nil, List.append_nil, List.mem_map] at hit
    obtain ⟨x, _, rfl⟩ := hit
    rfl

/-- the repaired tree (`fscope`): the full statement, no guard -/
theorem field_scope_repaired (ns0 : NsMap) (root : Node) (f : List Path) (n : Node) :
    fieldResG (specConv ns0 root) f n =
      fieldResG (fun o t l => (codeConv true ns0 root n.id o t l).map fun v => (tagOf t, v)) f n := by
  apply fieldResG_congr
  intro it _
  simp only [specConv, codeConv, if_true]
  rw [tagged_eq]

/-- the witness of finding C08-F8 (replayed on the real code by the harness):
    `<item><f1 xmlns:p="urn:b">p:x</f1></item>` under `xmlns:p="urn:a"` -/
def fieldDecl : Node :=
  .mk 1 0 "item" [] none "" 0 []
    [.mk 2 1 "f1" [] (some .qname) "p:x" 0 [("p", "urn:b")] []]

def f1Path : List Path := [⟨false, [.child "f1"], none⟩]

theorem field_scope_counterexample :
    fieldResG (specConv [("p", "urn:a")] fieldDecl) f1Path fieldDecl
      = some (.val (.qname, .str "{urn:b}x")) ∧
    fieldRes false [("p", "urn:a")] fieldDecl f1Path fieldDecl = some (.val (.str "{urn:a}x")) ∧
    fieldRes true [("p", "urn:a")] fieldDecl f1Path fieldDecl = some (.val (.str "{urn:b}x")) := by
  decide

example : fieldDecl.sibOk = true ∧
    ¬ (∀ it ∈ f1Path.flatMap (·.items fieldDecl),
        scopeAt [("p", "urn:a")] fieldDecl it.1 = scopeAt [("p", "urn:a")] fieldDecl fieldDecl.id) := by
  decide

/-! ### ID / IDREF -/

/-- **ID / IDREF**: the validator (errors raised on the way plus `_validate_references` at the end
    of the document) reports nothing exactly when no ID value occurs twice and every IDREF value is
    the value of some ID — whatever the order of definitions and references. -/
theorem id_ok_iff (evs : List IdEv) :
    idRun evs = [] ↔ (idsOf evs).Nodup ∧ ∀ r ∈ refsOf evs, r ∈ idsOf evs := by
  unfold idRun
  simp only [List.append_eq_nil_iff, List.reverse_eq_nil_iff, List.map_eq_nil_iff,
    List.filter_eq_nil_iff, List.mem_reverse]
  have h1 := idFold_errs evs ⟨[], [], []⟩
  have h2 := idFold_refs evs ⟨[], [], []⟩
  simp only [List.not_mem_nil, not_false_eq_true, implies_true, and_true, true_and, false_or] at h1 h2
  rw [h1, ← h2]
  simp

example : idRun [.idref "a", .id "a", .id "b"] = [] := by decide
example : idRun [.id "a", .idref "z", .id "a"] = [.dup "a", .dangling "z"] := by decide

/-- **ID / IDREF with binders** (XSD 1.1: the attributes of an element and its simple-typed ID
    children share one `id_list`; XSD 1.0: every occurrence has its own binder): the validator
    reports nothing exactly when every ID value is bound to ONE element and every IDREF / IDREFS
    item is the value of some ID — for occurrences at any depth, in any order. -/
theorem id_bound_iff (evs : List BEv) :
    idRun (collapse evs) = [] ↔
      Consistent (bindsOf evs) ∧ ∀ r ∈ brefsOf evs, ∃ b, (r, b) ∈ bindsOf evs := by
  rw [id_ok_iff]
  unfold collapse
  have h1 := collapse_ids evs [] (by intro v b1 b2 h; cases h)
  simp only [lookB, implies_true, and_true, List.nil_append] at h1
  rw [h1, collapse_refs]
  have h3 : ∀ x, x ∈ idsOf (collapseAux [] evs) ↔ ∃ b, (x, b) ∈ bindsOf evs := by
    intro x
    have := collapse_mem evs [] x
    simpa [lookB] using this

  constructor
  · intro ⟨c, h⟩; exact ⟨c, fun r hr => (h3 r).mp (h r hr)⟩
  · intro ⟨c, h⟩; exact ⟨c, fun r hr => (h3 r).mpr (h r hr)⟩

/-- the element the validation starts from is a node like any other: unless its own CONTENT is an
    ID (the region of finding C08-F9) the occurrences the current tree records are all of them —
    in particular the ID / IDREF / IDREFS attributes of the root are recorded -/
theorem idEvents_root (v11 : Bool) (root : Node) (h : root.ck ≠ 1 ∧ root.ck ≠ 4) :
    idEvents v11 false root = idEvents v11 true root := by
  cases root with
  | mk i d nm a t x ck xm kids =>
    simp only [Node.ck] at h
    simp [idEvents, Node.idEv, h.1, h.2]

/-- `<doc id="a"><item id="b" idr="a"/></doc>`: the ID on the root is found by the reference below
    it, and `<doc id="a"><item id="a"/></doc>` is a duplicate (both XSD versions) -/
def rootIdDoc (v : String) : Node :=
  .mk 0 0 "doc" [⟨"id", "a", none, 1⟩] none "" 0 []
    [.mk 1 1 "item" [⟨"id", v, none, 1⟩, ⟨"idr", "a", none, 2⟩, ⟨"idrs", " a  b ", none, 3⟩] none "" 0 [] []]

theorem root_id_witness :
    idRun (idEvents false false (rootIdDoc "b")) = [] ∧ idRun (idEvents true false (rootIdDoc "b")) = [] ∧
    idRun (idEvents false false (rootIdDoc "a")) = [.dup "a", .dangling "b"] ∧
    idRun (idEvents true false (rootIdDoc "a")) = [.dup "a", .dangling "b"] := by
  decide

/-- `<e idr="a">a</e>` validated on its own (e: xs:ID simple content + an IDREF attribute) -/
def rootContentDoc : Node := .mk 0 0 "e" [⟨"idr", "a", none, 2⟩] none "a" 4 [] []

/- Full statement: `idEvents v11 false root = idEvents v11 true root` for every root.  FALSE for the
   current tree when the content of the root element itself is an ID: simple content is decoded at
   level 0 and `elif context.level:` skips it (finding C08-F9). -/
theorem root_content_id_counterexample :
    idRun (idEvents false false rootContentDoc) = [.dangling "a"] ∧
    idRun (idEvents false true rootContentDoc) = [] ∧
    ¬ (rootContentDoc.ck ≠ 1 ∧ rootContentDoc.ck ≠ 4) := by
  decide

/-- XSD 1.1: `<s id="a"><eid>a</eid></s>` binds `a` to `s` twice — accepted; in XSD 1.0 it is a
    duplicate; an ID on a different element is a duplicate in both -/
def sharedListDoc : Node :=
  .mk 0 0 "s" [⟨"id", "a", none, 1⟩] none "" 0 []
    [.mk 1 1 "eid" [] none "a" 1 [] [], .mk 2 1 "eid" [] none " a " 1 [] []]

theorem id_list_witness :
    idRun (idEvents true false sharedListDoc) = [] ∧
    idRun (idEvents false false sharedListDoc) = [.dup "a", .dup "a"] := by
  decide

end XsVerif.Props.C08
