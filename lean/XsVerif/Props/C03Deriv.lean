/-
  C03 — the attribute group a complex type is validated against is COMPUTED from the declarations of the
  type, the attribute groups it references and (for a derived type) the group of the base type
  (Model/AttrDeriv.lean, port of XsdAttributeGroup._parse).  Theorems:

    * `collect_wildcard_spec`     the complete wildcard of a declaration list admits exactly the names ALL its
                                  wildcards admit and carries the processContents of the local wildcard, else of
                                  the first referenced group (C03-F2 fixed; `oldpc_counterexample` = old step)
    * `derived_decl_iff`          the computed group of a derived type contains exactly the effective uses:
                                  the declared ones, and the base ones no declaration overrides
    * `derived_wildcard_extension`, `derived_wildcard_restriction`
                                  extension: union of the declared and the base wildcard (processContents of the
                                  declared one); restriction: the declared wildcard, or one that admits nothing
    * `derived_valid_iff`         validating against the computed group = validity per the effective uses and
                                  the effective wildcard (`OkDerived`)
    * `valid_perm`                validity does not depend on the order of the declarations (the order of the
                                  Python dict is not modelled for the entries taken from groups / base types)
    * `id_build_iff`, `defaults_decl_iff`   XSD 1.0 ID rule, XSD 1.1 default attribute group
-/
import XsVerif.Props.C03
import XsVerif.Model.AttrDeriv
import XsVerif.Lemmas.AttrRestriction
import XsVerif.Props.C16

namespace XsVerif.Props.C03Deriv
open XsVerif.Wildcard XsVerif.Attributes XsVerif.AttrRestr XsVerif.AttrDeriv XsVerif.Props.C03 XsVerif.Props.C16

/-! ## the ordered-dict update -/

theorem names_replace (d : Decl) (base : List Decl) :
    (base.map fun b => if b.name == d.name then d else b).map (·.name) = base.map (·.name) := by
  induction base with
  | nil => rfl
  | cons x t ih =>
    simp only [List.map_cons, ih, List.cons.injEq, and_true]
    by_cases h : x.name = d.name <;> simp [h]

theorem updateDecls_nodup (ds : List Decl) : ∀ (base : List Decl), (base.map (·.name)).Nodup →
    ((updateDecls base ds).map (·.name)).Nodup := by
  induction ds with
  | nil => intro base h; simpa [updateDecls] using h
  | cons d ds ih =>
    intro base h
    unfold updateDecls
    apply ih
    cases hl : lookup base d.name with
    | some b => simp only [Option.isSome_some, if_true]; rw [names_replace]; exact h
    | none =>
      simp only [Option.isSome_none, Bool.false_eq_true, if_false, List.map_append, List.map_cons, List.map_nil]
      have hn := lookup_none_iff.mp hl
      rw [List.nodup_append]
      refine ⟨h, by simp, ?_⟩
      intro a ha b hb
      simp only [List.mem_singleton] at hb
      subst hb
      obtain ⟨x, hx, rfl⟩ := List.mem_map.mp ha
      exact hn x hx

theorem mem_iff_lookup {l : List Decl} (hnd : (l.map (·.name)).Nodup) (d : Decl) :
    d ∈ l ↔ lookup l d.name = some d :=
  ⟨fun h => lookup_of_nodup hnd h, fun h => (lookup_some_mem h).1⟩

/-- S: the attribute uses in force for a type with declared group `D` derived from a type with group `B` -/
def EffUse (B D : Group) (d : Decl) : Prop :=
  d ∈ D.decls ∨ (d ∈ B.decls ∧ ∀ d' ∈ D.decls, d'.name ≠ d.name)

theorem mem_updateDecls_iff (B D : List Decl) (hB : (B.map (·.name)).Nodup) (hD : (D.map (·.name)).Nodup)
    (d : Decl) : d ∈ updateDecls B D ↔ (d ∈ D ∨ (d ∈ B ∧ ∀ d' ∈ D, d'.name ≠ d.name)) := by
  rw [mem_iff_lookup (updateDecls_nodup D B hB), lookup_updateDecls D B d.name hD]
  cases hl : lookup D d.name with
  | some d' =>
    simp only [Option.some_or, Option.some.injEq]
    constructor
    · rintro rfl; exact Or.inl (lookup_some_mem hl).1
    · rintro (h | ⟨-, h⟩)
      · have := lookup_of_nodup hD h; rw [hl] at this; exact Option.some.inj this
      · exact absurd (lookup_some_mem hl).2 (h d' (lookup_some_mem hl).1)
  | none =>
    have hn := lookup_none_iff.mp hl
    simp only [Option.none_or]
    constructor
    · intro h; exact Or.inr ⟨(lookup_some_mem h).1, hn⟩
    · rintro (h | ⟨h, -⟩)
      · exact absurd rfl (hn d h)
      · exact lookup_of_nodup hB h

/-! ## derived types -/

/-- **the computed group of a derived type contains exactly the effective uses** (extension adds,
    restriction overrides — a declared `use="prohibited"` replaces the base use and then counts as no use) -/
theorem derived_decl_iff (v11 : Bool) (k : Deriv) (hk : k ≠ .none) (B D G : Group)
    (hB : (B.decls.map (·.name)).Nodup) (hD : (D.decls.map (·.name)).Nodup)
    (h : derive v11 k B D = .ok G) (d : Decl) : d ∈ G.decls ↔ EffUse B D d := by
  unfold derive at h
  cases hw : derivedAny v11 k B.any D.any with
  | error e => simp [hw] at h
  | ok w =>
    simp only [hw, Except.ok.injEq] at h
    subst h
    simp only [hk, if_false]
    exact mem_updateDecls_iff B.decls D.decls hB hD d

theorem derived_nodup (v11 : Bool) (k : Deriv) (B D G : Group)
    (hB : (B.decls.map (·.name)).Nodup) (hD : (D.decls.map (·.name)).Nodup)
    (h : derive v11 k B D = .ok G) : (G.decls.map (·.name)).Nodup := by
  unfold derive at h
  cases hw : derivedAny v11 k B.any D.any with
  | error e => simp [hw] at h
  | ok w =>
    simp only [hw, Except.ok.injEq] at h
    subst h
    by_cases hk : k = .none
    · simp [hk, hD]
    · simp only [hk, if_false]; exact updateDecls_nodup _ _ hB

theorem derived_any (v11 : Bool) (k : Deriv) (B D G : Group) (h : derive v11 k B D = .ok G) :
    derivedAny v11 k B.any D.any = .ok G.any := by
  unfold derive at h
  cases hw : derivedAny v11 k B.any D.any with
  | error e => simp [hw] at h
  | ok w => simp only [hw, Except.ok.injEq] at h; subst h; rfl

/-- **extension**: the wildcard of the derived type is the UNION of the declared complete wildcard and the
    base wildcard: it admits every name either admits (`##defined` as an arbitrary predicate), exactly those
    on the namespace/notQName part, and it carries the processContents of the declared wildcard; a missing
    operand leaves the other one. -/
theorem derived_wildcard_extension (v11 : Bool) (B D G : Group) (h : derive v11 .extension B D = .ok G) :
    (∀ w bw, D.any = some w → B.any = some bw → ∃ g, G.any = some g ∧ g.pc = w.pc ∧
        (∀ (env : Env) (n : QN), n.ns ≠ xsiNs → (anyMatches env w n = true ∨ anyMatches env bw n = true) →
            anyMatches env g n = true) ∧
        (∀ n : QN, n.ns ≠ xsiNs → allowsQ g.wc n = (allowsQ w.wc n || allowsQ bw.wc n))) ∧
    (D.any = none → G.any = B.any) ∧ (B.any = none → G.any = D.any) := by
  have ha := derived_any v11 .extension B D G h
  refine ⟨?_, ?_, ?_⟩
  · intro w bw hw hbw
    rw [hw, hbw] at ha
    simp only [derivedAny] at ha
    cases hu : union v11 w.wc bw.wc with
    | none => simp [hu] at ha
    | some u =>
      simp only [hu, Except.ok.injEq] at ha
      refine ⟨_, ha.symm, rfl, ?_, ?_⟩
      · intro env n hx hor
        exact union_complete v11 w.wc bw.wc u hu (isDefined env) (fun _ => false) n hx hor
      · intro n hx
        exact union_exact v11 w.wc bw.wc u hu n hx
  · intro hd
    rw [hd] at ha
    simp only [derivedAny, Except.ok.injEq] at ha
    exact ha.symm
  · intro hb
    rw [hb] at ha
    cases hd : D.any with
    | none => rw [hd] at ha; simp only [derivedAny, Except.ok.injEq] at ha; exact ha.symm
    | some w => rw [hd] at ha; simp only [derivedAny, Except.ok.injEq] at ha; exact ha.symm

/-- **restriction**: the derived type has the declared wildcard; when it declares none it admits no
    (non-xsi) attribute through a wildcard, whatever the base admitted. -/
theorem derived_wildcard_restriction (v11 : Bool) (B D G : Group) (h : derive v11 .restriction B D = .ok G) :
    (∀ w, D.any = some w → G.any = some w) ∧
    (D.any = none → ∀ g, G.any = some g → ∀ (env : Env) (n : QN), n.ns ≠ xsiNs → anyMatches env g n = false) := by
  have ha := derived_any v11 .restriction B D G h
  constructor
  · intro w hw
    rw [hw] at ha
    simp only [derivedAny, Except.ok.injEq] at ha
    exact ha.symm
  · intro hd g hg env n hx
    rw [hd] at ha
    simp only [derivedAny, Except.ok.injEq] at ha
    rw [← ha] at hg
    cases hb : B.any with
    | none => simp [hb] at hg
    | some bw =>
      simp only [hb, Option.map_some, Option.some.injEq] at hg
      subst hg
      exact emptied_not_matches env bw n hx

/-- S: validity of an attribute set per the EFFECTIVE uses of a derived type and its effective wildcard `w` -/
def OkDerived (s : Sem) (env : Env) (B D : Group) (w : Option AnyAttr) (A : List Attr) : Prop :=
  (∀ d, EffUse B D d → d.use = .required → ∃ v, (d.name, v) ∈ A) ∧
  ∀ a ∈ A,
    (∃ d, (EffUse B D d ∧ d.name = a.1 ∧ d.use ≠ .prohibited) ∧ DeclOk s d a.2) ∨
    ((¬ ∃ d, EffUse B D d ∧ d.name = a.1 ∧ d.use ≠ .prohibited) ∧
      ((XsiBuiltin env a.1 ∧ ∃ g ∈ env.globals, g.name = a.1 ∧ DeclOk s g a.2) ∨
       (¬ XsiBuiltin env a.1 ∧ ∃ x, w = some x ∧ anyMatches env x a.1 = true ∧ PcOk s env x.pc a.1 a.2)))

theorem ok_iff_okDerived (s : Sem) (env : Env) (B D G : Group) (A : List Attr)
    (hmem : ∀ d, d ∈ G.decls ↔ EffUse B D d) : Ok s env G A ↔ OkDerived s env B D G.any A := by
  unfold Ok OkDerived AttrOk Uses WildOk
  simp only [hmem]

/-- **C03 for derived types**: validating an attribute set against the group the library computes for a
    type derived by extension or restriction reports no error exactly when the set is valid per the effective
    declared uses (declared ones, and base ones not overridden) and the effective wildcard (characterised by
    `derived_wildcard_extension` / `derived_wildcard_restriction`). -/
theorem derived_valid_iff (v11 : Bool) (k : Deriv) (hk : k ≠ .none) (s : Sem) (env : Env) (o : Opts)
    (B D G : Group) (A : List Attr) (h : derive v11 k B D = .ok G)
    (hleg : o.legacy = false) (hrefl : ∀ t x, s.valueEq t x x = true)
    (hwfB : WF s B) (hwfD : WF s D)
    (hB : (B.decls.map (·.name)).Nodup) (hD : (D.decls.map (·.name)).Nodup)
    (hg : (env.globals.map (·.name)).Nodup)
    (hxB : ∀ d ∈ B.decls, d.name.ns ≠ xsiNs) (hxD : ∀ d ∈ D.decls, d.name.ns ≠ xsiNs) :
    errors s env o G A = [] ↔ OkDerived s env B D G.any A := by
  have hmem := derived_decl_iff v11 k hk B D G hB hD h
  have hwf : WF s G := by
    intro d hd
    rcases (hmem d).mp hd with h1 | ⟨h1, -⟩
    · exact hwfD d h1
    · exact hwfB d h1
  have hx : ∀ d ∈ G.decls, d.name.ns ≠ xsiNs := by
    intro d hd
    rcases (hmem d).mp hd with h1 | ⟨h1, -⟩
    · exact hxD d h1
    · exact hxB d h1
  rw [attrs_valid_iff s env o G A hleg hrefl hwf (derived_nodup v11 k B D G hB hD h) hg hx]
  exact ok_iff_okDerived s env B D G A hmem

/-! ## the order of the declarations is immaterial for validity -/

/-- validity depends on the SET of declarations only (names distinct): any reordering of the dict — e.g. the
    sorted iteration of `XsdAttributeGroup.__iter__` when entries are taken from another group — validates
    the same attribute sets. -/
theorem valid_perm (s : Sem) (env : Env) (o : Opts) (G G' : Group) (A : List Attr)
    (hp : G.decls.Perm G'.decls) (hany : G.any = G'.any)
    (hleg : o.legacy = false) (hrefl : ∀ t x, s.valueEq t x x = true) (hwf : WF s G)
    (hnd : (G.decls.map (·.name)).Nodup) (hg : (env.globals.map (·.name)).Nodup)
    (hxsi : ∀ d ∈ G.decls, d.name.ns ≠ xsiNs) :
    errors s env o G A = [] ↔ errors s env o G' A = [] := by
  have hmem : ∀ d, d ∈ G'.decls ↔ d ∈ G.decls := fun d => hp.symm.mem_iff
  have hwf' : WF s G' := fun d hd => hwf d ((hmem d).mp hd)
  have hnd' : (G'.decls.map (·.name)).Nodup := (hp.map _).nodup_iff.mp hnd
  have hx' : ∀ d ∈ G'.decls, d.name.ns ≠ xsiNs := fun d hd => hxsi d ((hmem d).mp hd)
  rw [attrs_valid_iff s env o G A hleg hrefl hwf hnd hg hxsi,
      attrs_valid_iff s env o G' A hleg hrefl hwf' hnd' hg hx']
  unfold Ok AttrOk Uses WildOk
  simp only [hmem, hany]

/-! ## the complete wildcard of a declaration list -/

/-- the wildcards of the referenced groups, in document order -/
def groupAnys : List Child → List AnyAttr
  | [] => []
  | .attr _ :: cs => groupAnys cs
  | .group g :: cs => (match g.any with | some w => [w] | none => []) ++ groupAnys cs

def foldAny (w : Option AnyAttr) (ws : List AnyAttr) : Option AnyAttr :=
  ws.foldl (fun c x => meetGroupAny c (some x)) w

theorem walk_any (igd : Bool) : ∀ (cs : List Child) (ds : List Decl) (w : Option AnyAttr) (es : List BuildErr),
    (walk igd cs (ds, w) es).1.2 = foldAny w (groupAnys cs)
  | [], ds, w, es => by simp [walk, groupAnys, foldAny]
  | .attr d :: cs, ds, w, es => by
    unfold walk
    simp only [groupAnys]
    split
    · exact walk_any igd cs _ _ _
    · split <;> exact walk_any igd cs _ _ _
  | .group g :: cs, ds, w, es => by
    unfold walk
    simp only [groupAnys]
    rw [walk_any igd cs]
    cases hg : g.any with
    | none =>
      have : meetGroupAny w none = w := by cases w <;> rfl
      simp [this]
    | some x => simp [foldAny]

theorem foldAny_some (env : Env) (n : QN) (hx : n.ns ≠ xsiNs) : ∀ (ws : List AnyAttr) (a : AnyAttr),
    ∃ r, foldAny (some a) ws = some r ∧ r.pc = a.pc ∧
      (anyMatches env r n = true ↔ anyMatches env a n = true ∧ ∀ w ∈ ws, anyMatches env w n = true)
  | [], a => ⟨a, rfl, rfl, by simp⟩
  | w :: ws, a => by
    obtain ⟨r, hr, hpc, hm⟩ := foldAny_some env n hx ws { wc := intersection a.wc w.wc, pc := a.pc }
    refine ⟨r, ?_, hpc, ?_⟩
    · simpa [foldAny, meetGroupAny] using hr
    · rw [hm]
      have : anyMatches env { wc := intersection a.wc w.wc, pc := a.pc } n =
          (anyMatches env a n && anyMatches env w n) := by
        simp only [anyMatches]
        exact intersection_spec a.wc w.wc _ _ n hx
      rw [this]
      simp only [Bool.and_eq_true, List.mem_cons, forall_eq_or_imp]
      exact and_assoc

/-- **the complete wildcard** (current code, `oldPc = false`): a type has a wildcard iff it declares one or
    references a group that has one; it admits a (non-xsi) name iff ALL of them admit it; its processContents
    is that of the local `<anyAttribute>`, else that of the first referenced group with a wildcard. -/
theorem collect_wildcard_spec (c : Content) (env : Env) (n : QN) (hx : n.ns ≠ xsiNs) :
    ((collect false c).1.any = none ↔ c.any = none ∧ groupAnys c.children = []) ∧
    ∀ a, (collect false c).1.any = some a →
      (anyMatches env a n = true ↔
        (∀ l, c.any = some l → anyMatches env l n = true) ∧ ∀ w ∈ groupAnys c.children, anyMatches env w n = true) ∧
      (∀ l, c.any = some l → a.pc = l.pc) ∧
      (c.any = none → ∃ w rest, groupAnys c.children = w :: rest ∧ a.pc = w.pc) := by
  simp only [collect, walk_any]
  cases hws : groupAnys c.children with
  | nil =>
    simp only [foldAny, List.foldl_nil]
    cases hl : c.any with
    | none => simp [meetLocalAny]
    | some l => simp [meetLocalAny]
  | cons w ws =>
    have h0 : foldAny none (w :: ws) = foldAny (some w) ws := by simp [foldAny, meetGroupAny]
    obtain ⟨r, hr, hpc, hm⟩ := foldAny_some env n hx ws w
    rw [h0, hr]
    cases hl : c.any with
    | none =>
      simp only [meetLocalAny]
      refine ⟨by simp, ?_⟩
      intro a ha
      cases ha
      refine ⟨?_, by simp, fun _ => ⟨w, ws, rfl, hpc⟩⟩
      rw [hm]; simp
    | some l =>
      simp only [meetLocalAny, Bool.false_eq_true, if_false]
      refine ⟨by simp, ?_⟩
      intro a ha
      cases ha
      refine ⟨?_, by simp, by simp⟩
      have : anyMatches env { wc := intersection l.wc r.wc, pc := l.pc } n =
          (anyMatches env l n && anyMatches env r n) := by
        simp only [anyMatches]
        exact intersection_spec l.wc r.wc _ _ n hx
      rw [this, Bool.and_eq_true, hm]
      simp

/-! ### the step before fix 365354e (finding C03-F2 — fixed) -/

def qz : QN := ⟨"urn:u", "z"⟩
/-- `<attributeGroup ref="AG1"/>` (AG1: `##any`, skip) followed by `<anyAttribute namespace="urn:u"
    processContents="strict"/>` in a schema of target namespace urn:t -/
def cF2 : Content :=
  { children := [.group { decls := [], any := some { wc := { ns := .any, tns := "urn:t" }, pc := .skip } }],
    any := some { wc := { ns := .set ["urn:u"], tns := "urn:t" }, pc := .strict } }

/-- C03-F2 (fixed): the OLD step kept the processContents of the first referenced group, so `<e u:z="1"/>` —
    no schema for urn:u — was accepted under `skip`; the current step keeps the local `strict` and reports it. -/
theorem oldpc_counterexample :
    ((collect true cF2).1.any.map (·.pc)) = some .skip ∧
    ((collect false cF2).1.any.map (·.pc)) = some .strict ∧
    errors semStr envEmpty {} (collect true cF2).1 [(qz, "1")] = [] ∧
    errors semStr envEmpty {} (collect false cF2).1 [(qz, "1")] = [.unavailableNs qz] := by
  decide

/-! ## XSD 1.0: one ID attribute; XSD 1.1: the default attribute group -/

/-- the build of an XSD 1.0 type reports "multiple ID attributes" exactly when more than one attribute of the
    group has an ID type; an XSD 1.1 type never does -/
theorem id_build_iff (v11 : Bool) (isId : Nat → Bool) (G : Group) :
    idErrs v11 isId G = [] ↔ (v11 = true ∨ (G.decls.filter fun d => isId d.ty).length ≤ 1) := by
  unfold idErrs
  cases v11 <;> simp [Nat.not_lt]

/-- XSD 1.1 `defaultAttributes`: when no clash is reported, the attributes of the type are its own and those of
    the default attribute group -/
theorem defaults_decl_iff (G da : Group) (hG : (G.decls.map (·.name)).Nodup)
    (hda : (da.decls.map (·.name)).Nodup) (hok : (applyDefaults G (some da)).2 = []) (d : Decl) :
    d ∈ (applyDefaults G (some da)).1.decls ↔ d ∈ G.decls ∨ d ∈ da.decls := by
  simp only [applyDefaults, List.append_eq_nil_iff, List.map_eq_nil_iff, List.filter_eq_nil_iff] at hok ⊢
  rw [mem_updateDecls_iff G.decls da.decls hG hda d]
  constructor
  · rintro (h | ⟨h, -⟩)
    · exact Or.inr h
    · exact Or.inl h
  · rintro (h | h)
    · refine Or.inr ⟨h, ?_⟩
      intro d' hd' hn
      have := hok.1 d' hd'
      rw [hn, lookup_of_nodup hG h] at this
      simp at this
    · exact Or.inl h

/-! ## Non-vacuity -/

namespace Demo
def qa' : QN := ⟨"", "a"⟩
def qb : QN := ⟨"", "b"⟩
def qc : QN := ⟨"", "c"⟩
def qf : QN := ⟨"urn:f", "z"⟩
/-- base: a optional, b optional fixed 3, wildcard urn:f lax -/
def B : Group :=
  { decls := [{ name := qa', ty := 0 }, { name := qb, fixed := some "3", ty := 0 }],
    any := some { wc := { ns := .set ["urn:f"], tns := "urn:t" }, pc := .lax } }
/-- restriction: a prohibited, b required (same fixed); no wildcard -/
def R : Group :=
  { decls := [{ name := qa', use := .prohibited, ty := 0 }, { name := qb, use := .required, fixed := some "3", ty := 0 }],
    any := none }
/-- extension: adds c, wildcard urn:u skip -/
def E : Group :=
  { decls := [{ name := qc, dflt := some "1", ty := 0 }],
    any := some { wc := { ns := .set ["urn:u"], tns := "urn:t" }, pc := .skip } }

def GR : Group := match derive false .restriction B R with | .ok g => g | .error _ => default
def GE : Group := match derive false .extension B E with | .ok g => g | .error _ => default

example : derive false .restriction B R = .ok GR := rfl
example : derive false .extension B E = .ok GE := rfl
example : GR.decls.map (·.use) = [.prohibited, .required] := by decide
example : GE.decls.map (·.name) = [qa', qb, qc] := by decide
/-- restriction: `b` now required, `a` prohibited, the base wildcard is gone -/
example : errors semStr envEmpty {} GR [] = [.missing qb] := by decide
example : errors semStr envEmpty {} GR [(qb, "3"), (qa', "1")] = [.prohibited qa'] := by decide
example : errors semStr envEmpty {} GR [(qb, "3"), (qf, "1")] = [.wildcardDenied qf] := by decide
example : errors semStr envEmpty {} GR [(qb, "3")] = [] := by decide
/-- extension: base uses kept, `c` added, both namespaces admitted under the declared `skip` -/
example : errors semStr envEmpty {} GE [(qa', "1"), (qf, "1"), (qz, "1"), (qc, "2")] = [] := by decide
example : errors semStr envEmpty {} GE [(⟨"urn:g", "z"⟩, "1")] = [.wildcardDenied ⟨"urn:g", "z"⟩] := by decide
example : decoded envEmpty {} GE [] = [(qb, .typed 0 "3"), (qc, .typed 0 "1")] := by decide
example : OkDerived semStr envEmpty B R GR.any [(qb, "3")] :=
  (derived_valid_iff false .restriction (by decide) semStr envEmpty {} B R GR _ rfl rfl
    (by intro t x; simp [semStr]) (by intro d hd; simp [semStr]) (by intro d hd; simp [semStr])
    (by decide) (by decide) (by decide) (by decide) (by decide)).mp (by decide)
/-- XSD 1.0 cannot express every union: the extension is refused -/
example : derive false .extension
    { decls := [], any := some { wc := { ns := .other, tns := "urn:t" }, pc := .lax } }
    { decls := [], any := some { wc := { ns := .set [""], tns := "urn:t" }, pc := .lax } } = .error .unionNotExpressible :=
  rfl
/-- a prohibited declaration inside an <attributeGroup> definition is dropped; in a complexType it is kept -/
example : (collect false { children := [.attr { name := qa', use := .prohibited, ty := 0 }], inGroupDef := true }).1.decls = [] := by
  decide
example : (collect false { children := [.attr { name := qa', use := .prohibited, ty := 0 }] }).1.decls.length = 1 := by
  decide
example : idErrs false (· == 9) { decls := [{ name := qa', ty := 9 }, { name := qb, ty := 9 }], any := none } = [.multipleIds] := by
  decide
example : idErrs true (· == 9) { decls := [{ name := qa', ty := 9 }, { name := qb, ty := 9 }], any := none } = [] := by
  decide
end Demo

end XsVerif.Props.C03Deriv
